"""C07  Variant keeps the last assigned value with independent lazy copies."""
import copy
import itertools
import math
import re
import struct
import common as C
import gen_variant

PROPERTIES = ["C07"]
MANIFEST = {
    "C07": {
        "technique": "Lean 4 proof (refinement of two reference-counted copy-on-write models of Variant — variable-level sharing, "
                     "and deep sharing of nested elements with the destructor cascade — to a store of values, by induction over "
                     "operation histories and over access paths; coercion and equality lemmas over all integers / all values) "
                     "+ differential correspondence model vs real Variant.hpp (values and every block's reference count) vs an "
                     "independent value-semantics reference; tie by translation: a translator regenerates Lean definitions of every member "
                     "functions from the current Variant.hpp on every run and each is proved equal to the model's step",
        "text": "Headline theorems deep_refines / deep_driver_refines: for all histories of all operations (assignments, copies, "
                "swaps, typed assignments incl. temporaries, mutable accesses through nested paths of any depth) the heap model the "
                "driver runs — element Variants are cells, copies share blocks lazily at every level, clear() cascades — never "
                "faults and its six variables read exactly as a plain store of values (so no operation on one variable changes "
                "another); reference count = handles in variables + handles stored in payloads; clear() terminates and frees exactly "
                "the unreferenced blocks; the driver's read-out fuel suffices.  Further: type/value are the last assigned ones, the "
                "integer/bool/null coercion tables hold for every integer of every width, printf numerals read back through the "
                "modelled atoi/strtoul/atoll/strtoull, string -> integer conversions total over every text `ws sign digits rest` with libc's "
                "clamping (LLONG_MIN/MAX, ULLONG_MAX, negation mod 2^64, 32-bit truncation) against the positional value of the digits, "
                "v == copy(v) for every NaN-free value (also stated on the deep model: deep_eq_copy, deep_independent, "
                "deep_type_value_last_assigned); the known finding self-append is a theorem (self_append_creates_cycle: the real code's "
                "accessor chain + copy of the current v + link leaves the root block of v on a cycle, in every reachable state, for every "
                "path; accepted_lines_acyclic: accepted lines never do); a second, variable-level model "
                "(`refines`, `independent`) covers the share/clone decisions at the variables.  The deep model is tied to the current "
                "Variant.hpp/Array.hpp/List.hpp/HashMap.hpp/String.cpp on every run: identical op lines are "
                "executed by a harness built from the sources (ASan/UBSan/LSan) and by the compiled model; getType, every to* "
                "conversion (toDouble as its exact IEEE bit pattern), the full nested value, the reference count of every heap block (data->ref, white box) and the == matrix of "
                "all six variables are compared after every op, and the values against a Python store of deep-copied values.  "
                "Tie by translation (PropsGen.lean, 44 theorems): tools/gen_variant.py parses the current Variant.hpp and writes clear(), the copy "
                "constructor, operator=(const Variant&), the three const and four mutable accessors, the six scalar and four boxed typed operator= "
                "(statement by statement over Raw.lean: pointer `data` + member `_data`) and getType/isNull/toBool/toInt/toUInt/toInt64/toUInt64/"
                "toDouble/toString() const and operator== (per type tag) as Lean definitions; gen_clear, gen_copyCtor, gen_assign, gen_to*Mut, gen_to*Const, gen_set*, "
                "gen_getType ... gen_toStr, gen_eq prove each equal to release / copyCell / assignFrom / accessCell / accessPay / leafOp .set / setBoxedCell of "
                "the deep model resp. Val.type / Val.to* / one unfolding of veq of the value model, on every object that represents a model cell.  A body outside the "
                "translated subset or one whose meaning changed breaks the tie (refusal / failed proof).  A coercion boundary table (3 210 decimal "
                "strings at the range boundaries of int/uint/int64/uint64/double with sign, white space, zeros and trailing rest, 42 hard atof inputs) "
                "runs real glibc against the Lean definitions of strtol/strtoul/atof and the Python reference on every run.  "
                "Continuation: every member of Variant.hpp and src/Variant.cpp is translated (destructor, all converting constructors, operator!=, "
                "swap, the static null descriptor: gen_destruct, gen_ctorNull, gen_ctor_scalar, gen_ctor_boxed, gen_ne, gen_swap/gen_swap_self with "
                "swapChain_dstep tying the chain to dstep's swap, gen_nullData); fuel monotonicity of release (release_mono) closes the f/f+1 gap of the "
                "boxed assignment (gen_set*_fuel); the translator's two reorderings are lemmas (PropsGenOrder: release_frame, hoist_order, destroy_order); "
                "atof of decimal texts with fraction/exponent: toDouble_fraction (parse to the exact rational) and atof_rounding_correct (the rounding "
                "used for negative decimal exponents is the nearest double, ties to even, incl. subnormals and carry; carried over from the codec area).  "
                "Third leg: the translator inlines private member helpers (templates, predicates, helpers on another object), saved data pointers, "
                "const aliases, a pointer test other.data == data and a swap written as an exchange of representations; assign_spec/gen_assign and "
                "gen_swap/gen_swap_self speak about the resulting heap and cells only (swap: cells exchanged, heap unchanged; swapChain_id), so a body "
                "with another NUMBER of atomic operations meets them; atof of integers of any size (dOfNat_rounded, toDouble_fraction_int, "
                "toDouble_numeral_any) and of texts without integer part (toDouble_fraction_noint); the nested walk over the translated accessors "
                "(walkMutT_eq: equal to the model's walk when every cell on the path is live; walk_live: that follows from the invariant).  "
                "Headline theorems over the translated accessors: deep_refines_translated, deep_driver_refines_translated, "
                "deep_independent_translated, deep_independent_run_translated (dstepT/drunT/ddriveT run the translated toMap/toList/toArray at "
                "every level of every nested mutable walk; dstepT_eq: equal to dstep on every state related to a store and every accepted line).",
        "note": "Trusted: Lean kernel + the three standard axioms; the translator tools/gen_variant.py (Python; its rules: NSTD_VERIF_RC_YIELD hook "
                "macros dropped; `&other != this` is a parameter, `other` is read only where that test holds and never after clear(); `->~T()` detaches "
                "the elements, which are destroyed right after delete[] (the model's order unlink-then-destroy); `->type = K; ->ref = N` of a new block "
                "hoisted to its allocation; the element destructor is a parameter instantiated with release f; integer casts value-preserving inside the "
                "target range, reductions mod 2^32/2^64 outside; String::to*/from* are the area's definitions; reading a union member under another tag "
                "is refused) and the vocabulary Raw.lean it targets; hand translation (validated by the correspondence run, not proved) of what is NOT "
                "translated: the nested walk through the accessors and the List/Array/HashMap members (not in the anchored files).  gen_set<Boxed> equals "
                "setBoxedCell on the clone branch; on the in-place branch the element destructors run at fuel f where the model says f+1: closed by the "
                "sandwich gen_set*_fuel (release_mono).  The reorderings (hoisted ->type/->ref, destroy after delete[]) are justified by hoist_order / "
                "destroy_order under Bounded and `no payload stores a handle to the block` (consequences of DInv, not re-derived inside these lemmas).  "
                "swap is translated as calls of the translated copy constructor / operator= / destructor on named objects (aliasing `&other == this` as a "
                "separate branch).  IeeeRat.lean is a copy of the codec area's rounding definitions (proved equal to them); atof texts without integer "
                "part and integers above 2^64 are covered since the third leg (dOfNat); hex floats and %f remain definitions tied bit-exactly only.  "
                "In the walk over the translated accessors the container operations at the leaf (List/Array/HashMap members) and the slot "
                "bookkeeping are still the hand-written model's.  A refused tree leaves a stub in the generated files, so the build fails with the "
                "refusal message.  Doubles are opaque in the theorems (any semantics of ==, casts, atof, printf %f): every "
                "statement about the floating alternative is definitional, the double coercions are covered by the correspondence run "
                "against Python floats (bit-exact for toDouble/atof, byte-exact for %f); about the driver's IEEE instance (Ieee.lean) only "
                "the integer conversion is proved: toDouble() of bool/integers is dOfInt of the stored integer and dOfInt is the correctly "
                "rounded conversion for every |n| < 2^64 (dOfInt_correctly_rounded: adjacent doubles, nothing between, nearer, ties to even, "
                "exact to 2^53), plus oddness, the ranges of the double->integer casts and reflexivity of == off NaN; atof (dOfStr) and %f "
                "(dToStr) are definitions, nothing proved, tied bit-/byte-exactly.  "
                "The string rows: strtol/strtoul are Lean definitions of the documented glibc behaviour; proved against the positional "
                "value for every numeral text (the *_numeral theorems) and inverted by printf for every integer (round trips); that glibc "
                "behaves as documented is assumed and compared on every run.  self_append_creates_cycle covers list append/prepend, array "
                "append and map append with a new key at any path, self_assign_creates_cycle the element assignment forms (v.toList().back() = v, "
                "map append on an existing key; modelled as clear-then-share, an order that commutes with the code's share-then-clear).  "
                "`mut v <path> set <temporary containing v>` (the temporary is built before the accessor chain) is an accepted line at every path: "
                "the deep model keeps a copy of v in the spare slot during the walk (selfTempStep), proved and tied like every other line.  "
                "Lines refused by the model — self-append among them — are skipped on both sides in every 'for all histories' "
                "statement.  libc parsers atoi/strtoul/atoll/strtoull are Lean definitions of the "
                "glibc LP64 behaviour.  `refines` is proved for the variable-level model (elements inside payloads by value; below the root it reuses the "
                "specification's nested update, so its content is the decisions at the variables) and "
                "`deep_refines` for the deep model (what the driver runs: nested lazy sharing, destructor cascade), both for all "
                "operations and all histories; the only hypothesis of `deep_refines` is that literals are null/scalars/strings; the driver's "
                "read-out fuel `next + 1` is proved sufficient (`deep_read_fuel`) and the driver loop itself is covered (`deep_driver_refines`).  The deep "
                "model takes an element out of its slot for the time of a nested call and unlinks before it destroys (unobservable "
                "orderings chosen for the proofs).  Precondition of mutation through an accessor: the source is not the variable being "
                "accessed (known finding 'self-append', probed on every run).  Reference counts are compared although they are "
                "internals: a change of the sharing policy of Variant needs the deep model to follow.",
        "design_ref": "DESIGN.md 3/C07, docs/variant.md",
    }
}
PROPS = ["Nstd.Variant.Props", "Nstd.Variant.PropsGen", "Nstd.Variant.PropsGenOrder", "Nstd.Variant.PropsAtof", "Nstd.Variant.PropsGenWalk"]
LEAN_TARGETS = PROPS + ["drv_variant"]
DRIVER = "drv_variant"
NV = 6
SOURCES = ["variant.cpp", C.REPO / "src/Variant.cpp", C.REPO / "src/String.cpp", C.REPO / "src/Memory.cpp"]

# ---- reference: a store of Python values with value semantics (the property's oracle) -----------------
# value = ('n',) | ('b', bool) | ('d', bits) | ('i'|'u'|'l'|'q', int) | ('s', bytes) | ('L', [v]) | ('A', [v]) | ('M', [[key, v]])
TYPE_NO = {'n': 0, 'b': 1, 'd': 2, 'i': 3, 'u': 4, 'l': 5, 'q': 6, 'M': 7, 'L': 8, 'A': 9, 's': 10}
KIND_TAG = {7: 'M', 8: 'L', 9: 'A', 10: 's'}
WS = b" \t\n\v\f\r"
RE_INT = re.compile(rb"[ \t\n\v\f\r]*([+-]?)([0-9]*)")
RE_FLT = re.compile(rb"[ \t\n\v\f\r]*([+-]?)(?:(inf)(?:inity)?|(nan)(?:\([0-9a-z_]*\))?|"
                    rb"(0x(?:[0-9a-f]+\.?[0-9a-f]*|\.[0-9a-f]+)(?:p[+-]?[0-9]+)?|(?:[0-9]+\.?[0-9]*|\.[0-9]+)(?:e[+-]?[0-9]+)?))", re.I)


def dbl(bits):
    return struct.unpack("<d", struct.pack("<Q", bits))[0]


def bits_of(d):
    return struct.unpack("<Q", struct.pack("<d", d))[0]


def dbl_tok(d):
    """a double as its IEEE-754 bit pattern; every NaN is `nan`"""
    return "nan" if d != d else "%016x" % bits_of(d)


def cstr(s):
    k = s.find(b"\0")
    return s if k < 0 else s[:k]


def wrap_s(bits, x):
    x &= (1 << bits) - 1
    return x - (1 << bits) if x >> (bits - 1) else x


def wrap_u(bits, x):
    return x & ((1 << bits) - 1)


def c_strtol(s):
    m = RE_INT.match(cstr(s))
    n = int(m.group(2) or b"0")
    n = -n if m.group(1) == b"-" else n
    return max(-(1 << 63), min((1 << 63) - 1, n))


def c_strtoul(s):
    m = RE_INT.match(cstr(s))
    n = int(m.group(2) or b"0")
    if n > (1 << 64) - 1:
        return (1 << 64) - 1
    return wrap_u(64, -n) if m.group(1) == b"-" else n


def c_atof(s):
    m = RE_FLT.match(cstr(s))
    if not m:
        return 0.0
    sign = -1.0 if m.group(1) == b"-" else 1.0
    if m.group(2):
        return sign * math.inf
    if m.group(3):
        return math.nan
    try:
        t = m.group(4)
        if t[:2].lower() == b"0x":
            return sign * float.fromhex(t.decode())
        return sign * float(t)
    except (ValueError, OverflowError):
        return sign * math.inf


def str_to_bool(s):
    """String::toBool as documented by its code: empty, "false" (any case), and zero written as 0, 0.0, .0, 0. are false"""
    if s == b"" or s.lower() == b"false" or s == b"0":
        return False
    m = re.fullmatch(rb"(0*)\.(0*)", cstr(s))
    if m and (m.group(1) or m.group(2)):
        return False
    return True


def fmt_f(d):
    if math.isinf(d):
        return b"-inf" if d < 0 else b"inf"
    if math.isnan(d):
        return b"nan"
    return ("%f" % d).encode()


def cast(d, lo, hi):
    if math.isinf(d) or math.isnan(d):
        return None
    t = math.trunc(d)
    return t if lo <= t <= hi else None


def to_bool(v):
    t = v[0]
    if t == 'b': return v[1]
    if t == 'd': return dbl(v[1]) != 0.0
    if t in 'iulq': return v[1] != 0
    if t == 's': return str_to_bool(v[1])
    return False


def to_int_generic(v, signed, bits):
    """toInt/toUInt/toInt64/toUInt64; None = undefined cast"""
    t = v[0]
    lo, hi = (-(1 << (bits - 1)), (1 << (bits - 1)) - 1) if signed else (0, (1 << bits) - 1)
    w = (lambda x: wrap_s(bits, x)) if signed else (lambda x: wrap_u(bits, x))
    if t == 'b': return 1 if v[1] else 0
    if t == 'd': return cast(dbl(v[1]), lo, hi)
    if t in 'iulq': return w(v[1])
    if t == 's':
        return w(c_strtol(v[1])) if signed else w(c_strtoul(v[1]))
    return 0


def to_double(v):
    t = v[0]
    if t == 'b': return 1.0 if v[1] else 0.0
    if t == 'd': return dbl(v[1])
    if t in 'iulq': return float(v[1])
    if t == 's': return c_atof(v[1])
    return 0.0


def to_string(v):
    t = v[0]
    if t == 's': return v[1]
    if t == 'b': return b"true" if v[1] else b"false"
    if t == 'd': return fmt_f(dbl(v[1]))
    if t in 'iulq': return str(v[1]).encode()
    return b""


def hexs(b):
    return b.hex() if b else "-"


def render(v):
    t = v[0]
    if t == 'n': return "n"
    if t == 'b': return "b1" if v[1] else "b0"
    if t == 'd': return "d%016x" % v[1]
    if t in 'iulq': return f"{t}{v[1]}"
    if t == 's': return "s" + hexs(v[1])
    if t == 'L': return "L[" + ",".join(render(x) for x in v[1]) + "]"
    if t == 'A': return "A[" + ",".join(render(x) for x in v[1]) + "]"
    return "M{" + ",".join(hexs(k) + ":" + render(x) for k, x in v[1]) + "}"


class Undefined(Exception):
    pass


def v_eq(a, b):
    """Variant::operator== as documented by the switch: the left operand's type decides; raises Undefined"""
    t = a[0]
    if t == 'n': return b[0] == 'n'
    if t == 'b': return a[1] == to_bool(b)
    if t == 'd': return dbl(a[1]) == to_double(b)
    if t in 'iulq':
        r = to_int_generic(b, t in 'il', 32 if t in 'iu' else 64)
        if r is None:
            raise Undefined()
        return a[1] == r
    if t == 's':
        if b[0] == 's': return a[1] == b[1]
        if b[0] in 'MLA': return False
        return v_eq(b, a)
    if t != b[0] or len(a[1]) != len(b[1]):
        return False
    if t == 'M':
        for (k1, x), (k2, y) in zip(a[1], b[1]):
            if k1 != k2 or not v_eq(x, y):
                return False
        return True
    for x, y in zip(a[1], b[1]):
        if not v_eq(x, y):
            return False
    return True


_obs_cache = {}
_eq_cache = {}


def obs_var(v, r):
    o = _obs_cache.get(r)
    if o is None:
        def q(x):
            return "?" if x is None else str(x)
        o = (f"{TYPE_NO[v[0]]} {1 if to_bool(v) else 0} {q(to_int_generic(v, True, 32))} {q(to_int_generic(v, False, 32))} "
             f"{q(to_int_generic(v, True, 64))} {q(to_int_generic(v, False, 64))} {'z' if to_double(v) == 0.0 else 'n'} {dbl_tok(to_double(v))} "
             f"{hexs(to_string(v))} {r} ?")       # last token: the value with reference counts (model vs implementation only)
        if len(_obs_cache) < 200000:
            _obs_cache[r] = o
    return o


def eq_char(a, ra, b, rb):
    k = (ra, rb)
    c = _eq_cache.get(k)
    if c is None:
        try:
            c = "1" if v_eq(a, b) else "0"
        except Undefined:
            c = "?"
        if len(_eq_cache) < 400000:
            _eq_cache[k] = c
    return c


def parse_lit(t):
    k, b = t[:1], t[1:]
    try:
        if k == 'n' and not b: return ('n',)
        if k == 'b' and b in ("0", "1"): return ('b', b == "1")
        if k == 'd' and len(b) == 16: return ('d', int(b, 16))
        if k in 'iulq' and re.fullmatch(r"-?[0-9]+" if k in 'il' else r"[0-9]+", b):
            x = int(b)
            lo, hi = {'i': (-2**31, 2**31 - 1), 'u': (0, 2**32 - 1), 'l': (-2**63, 2**63 - 1), 'q': (0, 2**64 - 1)}[k]
            return (k, x) if lo <= x <= hi else None
        if k == 's': return ('s', b"" if b == "-" else bytes.fromhex(b))
    except ValueError:
        pass
    return None


def parse_path(t):
    if t == ".":
        return []
    p = []
    for s in t.split("/"):
        if s[:1] in ("l", "a") and s[1:].isdigit():
            p.append((s[0], int(s[1:])))
        elif s[:1] == "m":
            p.append(("m", b"" if s[1:] == "-" else bytes.fromhex(s[1:])))
        else:
            return None
    return p


def map_find(m, k):
    for e in m:
        if e[0] == k:
            return e
    return None


def walk(v, path):
    """the element at the end of the path, or None"""
    for kind, a in path:
        if kind == 'l':
            if v[0] != 'L' or a >= len(v[1]): return None
            v = v[1][a]
        elif kind == 'a':
            if v[0] != 'A' or a >= len(v[1]): return None
            v = v[1][a]
        else:
            if v[0] != 'M': return None
            e = map_find(v[1], a)
            if e is None: return None
            v = e[1]
    return v


def coerce(kind, v):
    """the value a Variant holds after its mutable accessor of that kind"""
    tag = KIND_TAG[kind]
    if v[0] == tag:
        return v
    if tag == 's':
        return ('s', to_string(v))
    return (tag, [])


class Store:
    def __init__(self):
        self.v = [('n',) for _ in range(NV)]

    def src(self, t):
        """(value copy, var index or None)"""
        if t[:1] == 'v':
            if not t[1:].isdigit() or int(t[1:]) >= NV: return None
            return copy.deepcopy(self.v[int(t[1:])]), int(t[1:])
        x = parse_lit(t)
        return None if x is None else (x, None)

    def valarg(self, toks):
        """typed constructor / assignment argument: (value, set of variables used)"""
        if not toks: return None
        if toks[0] in ("list", "arr"):
            items, used = [], set()
            for t in toks[1:]:
                s = self.src(t)
                if s is None: return None
                items.append(s[0]); used.add(s[1])
            return ('L' if toks[0] == "list" else 'A', items), used
        if toks[0] == "map":
            if (len(toks) - 1) % 2: return None
            m, used = [], set()
            for i in range(1, len(toks), 2):
                try:
                    k = b"" if toks[i] == "-" else bytes.fromhex(toks[i])
                except ValueError:
                    return None
                s = self.src(toks[i + 1])
                if s is None: return None
                used.add(s[1])
                e = map_find(m, k)
                if e is not None: e[1] = s[0]
                else: m.append([k, s[0]])
            return ('M', m), used
        if len(toks) != 1: return None
        x = parse_lit(toks[0])
        return None if x is None else (x, set())

    def replace(self, v, path, new):
        """store `new` at the end of the path below variable v"""
        if not path:
            self.v[v] = new
            return
        parent = walk(self.v[v], path[:-1])
        kind, a = path[-1]
        if kind in 'la':
            parent[1][a] = new
        else:
            map_find(parent[1], a)[1] = new

    def apply(self, line):
        """executes the op with value semantics; False = refused"""
        t = line.split()
        try:
            op = t[0]
            if op == "new":
                v = int(t[1])
                a = self.valarg(t[2:])
                if v >= NV or a is None: return False
                self.v[v] = a[0]
                return True
            if op == "copy":
                v, w = int(t[1]), int(t[2])
                if v >= NV or w >= NV or v == w or len(t) != 3: return False
                self.v[v] = copy.deepcopy(self.v[w])
                return True
            if op == "swap":
                v, w = int(t[1]), int(t[2])
                if v >= NV or w >= NV or len(t) != 3: return False
                self.v[v], self.v[w] = self.v[w], self.v[v]
                return True
            if op == "get":
                v, w = int(t[1]), int(t[2])
                path = parse_path(t[3])
                if v >= NV or w >= NV or path is None or len(t) != 4: return False
                x = walk(self.v[w], path)
                if x is None: return False
                self.v[v] = copy.deepcopy(x)
                return True
            if op != "mut":
                return False
            v = int(t[1])
            path = parse_path(t[2])
            if v >= NV or path is None: return False
            lf, args = t[3], t[4:]
            cur = walk(self.v[v], path)
            if lf == "set":
                a = self.valarg(args)
                if a is None or a[0][0] == 'n' or cur is None: return False
                self.replace(v, path, a[0])
                return True
            if lf in ("assign", "lapp", "lpre", "aapp"):
                if len(args) != 1: return False
                s = self.src(args[0])
                if s is None or (s[1] == v and not (lf == "assign" and not path)) or cur is None: return False
                if lf == "assign":
                    self.replace(v, path, s[0])
                elif lf == "aapp":
                    c = coerce(9, cur)
                    self.replace(v, path, ('A', c[1] + [s[0]]))
                else:
                    c = coerce(8, cur)
                    self.replace(v, path, ('L', c[1] + [s[0]] if lf == "lapp" else [s[0]] + c[1]))
                return True
            if lf == "mput":
                if len(args) != 2: return False
                k = b"" if args[0] == "-" else bytes.fromhex(args[0])
                s = self.src(args[1])
                if s is None or s[1] == v or cur is None: return False
                m = [list(e) for e in coerce(7, cur)[1]]
                e = map_find(m, k)
                if e is not None: e[1] = s[0]
                else: m.append([k, s[0]])
                self.replace(v, path, ('M', m))
                return True
            if lf == "mrem":
                if len(args) != 1 or cur is None: return False
                k = b"" if args[0] == "-" else bytes.fromhex(args[0])
                m = coerce(7, cur)[1]
                for i, e in enumerate(m):
                    if e[0] == k:
                        m = m[:i] + m[i + 1:]
                        break
                self.replace(v, path, ('M', m))
                return True
            if lf == "sapp":
                if len(args) != 1 or cur is None: return False
                b = b"" if args[0] == "-" else bytes.fromhex(args[0])
                self.replace(v, path, ('s', coerce(10, cur)[1] + b))
                return True
            if lf == "clear":
                if args or cur is None: return False
                self.replace(v, path, ('n',))
                return True
            if lf == "touch":
                if len(args) != 1 or not args[0].isdigit() or not 7 <= int(args[0]) <= 10 or cur is None: return False
                self.replace(v, path, coerce(int(args[0]), cur))
                return True
            if lf in ("lrem", "arem"):
                if len(args) != 1 or not args[0].isdigit() or cur is None: return False
                i = int(args[0])
                c = coerce(8 if lf == "lrem" else 9, cur)
                if i >= len(c[1]): return False
                self.replace(v, path, (c[0], c[1][:i] + c[1][i + 1:]))
                return True
            return False
        except (ValueError, IndexError):
            return False

    def obs(self):
        rs = [render(x) for x in self.v]
        return (" | ".join(obs_var(x, r) for x, r in zip(self.v, rs)) + " # " +
                "".join(eq_char(a, ra, b, rb) for a, ra in zip(self.v, rs) for b, rb in zip(self.v, rs)))


SELFAPP_EXPECTED = {"l": "1 0 0 0 0", "a": "1 0 0 0 0", "m": "1 0 0 0 0", "n": "1 1 1 0 0", "e": "1 1 0 0 0", "k": "1 1 0 0 0"}
SELFAPP_WHAT = {"l": "Variant v; v.toList(); v.toList().append(v);", "a": "Variant v; v.toArray(); v.toArray().append(v);",
                "m": "Variant v; v.toMap(); v.toMap().append(\"k\", v);",
                "n": "Variant v; v.toList().append(Variant(List<Variant>())); v.toList().back().toList().append(v);",
                "e": "Variant v; v.toList().append(Variant(1)); v.toList().back() = v;",
                "k": "Variant v; v.toMap().append(\"k\", Variant(1)); v.toMap().append(\"k\", v);"}


def selfapp_value(k):
    """sizes along v, v.back(), v.back().back(), ... under value semantics, computed on the store of values"""
    if k == "l" or k == "a" or k == "m":
        v = ('L', [])
        v = ('L', [copy.deepcopy(v)])
    elif k == "n":
        v = ('L', [('L', [])])
        old = copy.deepcopy(v)
        v[1][0][1].append(old)
    elif k == "e" or k == "k":
        v = ('L', [('i', 1)])
        old = copy.deepcopy(v)
        v[1][0] = old
    else:
        return None
    out, x = [], v
    for _ in range(5):
        if x is not None and x[0] in 'LAM' and x[1]:
            out.append(len(x[1]))
            x = x[1][-1]
        else:
            out.append(len(x[1]) if x is not None and x[0] in 'LAM' else 0)
            x = None
    return " ".join(map(str, out))


def reference(hist):
    st = Store()
    out = []
    for line in hist:
        if line.startswith("selfapp"):
            t = line.split()
            val = selfapp_value(t[1]) if len(t) == 2 else None
            out.append("bad-op" if val is None else f"selfapp {t[1]} {val}")
            continue
        out.append(st.obs() if st.apply(line) else "bad-op")
    return out


def line_eq(impl, other):
    """token-wise; a `?` of the model/reference (undefined cast in C) matches anything"""
    if impl == other:
        return True
    a, b = impl.split(" "), other.split(" ")
    if len(a) != len(b):
        return False
    for x, y in zip(a, b):
        if x == y or y == "?":
            continue
        if "?" in y and len(x) == len(y) and all(p == q or q == "?" for p, q in zip(x, y)):
            continue
        return False
    return True


reference.eq = line_eq

# ---- generators ----------------------------------------------------------------------------------
DBL_VALUES = [0.0, -0.0, 1.0, -1.0, 0.5, -0.5, 1.5, -2.5, 3.0, 2147483647.0, 2147483648.0, -2147483648.0, -2147483649.0,
              4294967295.0, 4294967296.0, 2.0**53, 2.0**63, -2.0**63, 2.0**64, 1e10, 1e300, math.inf, -math.inf, 5e-324,
              0.1, 123456.789, 0.0000005, 0.0000015, 2.5e-7, 9007199254740993.0, 0.9999995, -0.99, 255.0, 65536.5,
              float(2**64 - 2048), float(2**63 - 1024), float(2**63 + 2048), 2.0**53 + 2, -(2.0**53 + 2), -float(2**63 - 1024), 2.0**32, 2.0**31]
STR_VALUES = [b"", b"0", b"1", b"-1", b"0.0", b"00", b".", b"0.", b".0", b"00.00", b"0.01", b"false", b"FALSE", b"False", b"true",
              b" 42", b"+7", b"-0", b"1e3", b"4294967296", b"4294967295", b"2147483648", b"-2147483649", b"9223372036854775807",
              b"9223372036854775808", b"18446744073709551615", b"18446744073709551616", b"-9223372036854775809",
              b"-18446744073709551615", b"abc", b"12abc", b"1.5", b"-2.5", b"inf", b"-inf", b"\t-12", b"  +", b"-", b"1e", b"1.e2",
              b".5e1", b"0.000", b"a\x00b", b"0\x001", b"\x0042", b"99999999999999999999999", b"1e400", b"1e-400", b"\xff\x80", b"k",
              b"0x10", b"0X1.8p1", b"-0x.8", b"0x", b"0xg", b"0x.p1", b"0x1p-1074", b"0x1p-1075", b"0x1.fffffffffffff8p1023",
              b"0x1.00000000000008p0", b"0x1.00000000000018p0", b" +0xAp+2", b"0x1p", b"0x1p+", b"0x0.0p9"]
INT_EDGES = {'i': [0, 1, -1, 2**31 - 1, -2**31, 255, -128], 'u': [0, 1, 2**32 - 1, 2**31, 255],
             'l': [0, 1, -1, 2**63 - 1, -2**63, 2**31, -2**31 - 1, 2**32, 2**53 + 1, -(2**53 + 1), 2**53 + 3, 2**63 - 1024, 2**63 - 513,
                   2**63 - 512, -(2**63 - 1024), 2**62 + 257],
             'q': [0, 1, 2**64 - 1, 2**63, 2**32, 2**53 + 1, 2**64 - 1025, 2**63 - 1, 2**63 + 1, 2**63 + 1024, 2**63 + 1025, 2**63 + 3072,
                   2**64 - 2048, 2**64 - 1024, 2**53, 2**53 + 3, 2**63 - 1024]}
KEYS = [b"k", b"a", b"", b"key2", b"K"]


def rand_lit(rng):
    k = rng.random()
    if k < 0.05: return "n"
    if k < 0.12: return "b%d" % rng.randrange(2)
    if k < 0.27:
        if rng.random() < 0.8:
            return "d%016x" % bits_of(rng.choice(DBL_VALUES))
        d = float(rng.randrange(-2**40, 2**40)) / rng.choice([1, 2, 4, 1024, 1000])
        return "d%016x" % bits_of(d)
    if k < 0.62:
        t = rng.choice("iulq")
        if rng.random() < 0.6:
            return f"{t}{rng.choice(INT_EDGES[t])}"
        lo, hi = {'i': (-2**31, 2**31 - 1), 'u': (0, 2**32 - 1), 'l': (-2**63, 2**63 - 1), 'q': (0, 2**64 - 1)}[t]
        return f"{t}{rng.randrange(-100, 100) if t in 'il' and rng.random() < 0.5 else rng.randrange(lo, hi + 1)}"
    if rng.random() < 0.75:
        return "s" + hexs(rng.choice(STR_VALUES))
    return "s" + hexs(bytes(rng.choice(b"0123456789.-+ efalsExp\x01\xfe") for _ in range(rng.randrange(0, 7))))


def rand_path(rng, val, maxdepth=3):
    """a random existing path into the value (possibly empty), as token + list"""
    steps = []
    v = val
    while len(steps) < maxdepth and v[0] in 'LAM' and v[1] and rng.random() < 0.7:
        if v[0] == 'M':
            k, x = rng.choice(v[1])
            steps.append("m" + hexs(k))
            v = x
        else:
            i = rng.randrange(len(v[1]))
            steps.append(("l" if v[0] == 'L' else "a") + str(i))
            v = v[1][i]
    return ("/".join(steps) if steps else "."), v


def gen_history(rng, length):
    st = Store()
    h = []
    nv = rng.choice([2, 3, 4, 6])
    while len(h) < length:
        v, w = rng.randrange(nv), rng.randrange(nv)
        k = rng.random()
        other = lambda: f"v{rng.choice([x for x in range(nv) if x != v])}" if rng.random() < 0.6 else rand_lit(rng)
        if k < 0.08:
            op = f"new {v} {rand_lit(rng)}"
        elif k < 0.12:
            kind = rng.choice(["list", "arr", "map"])
            items = [f"v{rng.randrange(nv)}" if rng.random() < 0.6 else rand_lit(rng) for _ in range(rng.randrange(0, 4))]
            if kind == "map":
                items = [x for it in items for x in (hexs(rng.choice(KEYS)), it)]
            op = f"new {v} {kind} " + " ".join(items)
        elif k < 0.18:
            op = f"copy {v} {w}"
        elif k < 0.28:
            op = f"mut {v} . assign v{w}"
        elif k < 0.33:
            op = f"swap {v} {w}"
        elif k < 0.40:
            p, _ = rand_path(rng, st.v[w])
            op = f"get {v} {w} {p}"
        else:
            p, cur = rand_path(rng, st.v[v])
            j = rng.random()
            if j < 0.14: leaf = f"set {rand_lit(rng)}"
            elif j < 0.20:
                kind = rng.choice(["list", "arr", "map"])
                # the temporary may hold copies of the destination itself, at any path (it is built before the walk)
                items = [(f"v{v}" if rng.random() < 0.35 else f"v{rng.randrange(nv)}") if rng.random() < 0.6 else rand_lit(rng)
                         for _ in range(rng.randrange(0, 4))]
                if kind == "map":
                    items = [x for it in items for x in (hexs(rng.choice(KEYS)), it)]
                leaf = f"set {kind} " + " ".join(items)
            elif j < 0.26: leaf = f"assign {other()}"
            elif j < 0.29: leaf = "clear"
            elif j < 0.35: leaf = f"touch {rng.choice([7, 8, 9, 10])}"
            elif j < 0.50: leaf = f"lapp {other()}"
            elif j < 0.56: leaf = f"lpre {other()}"
            elif j < 0.62: leaf = f"lrem {rng.randrange(max(1, len(cur[1]) if cur[0] == 'L' else 1))}"
            elif j < 0.74: leaf = f"aapp {other()}"
            elif j < 0.79: leaf = f"arem {rng.randrange(max(1, len(cur[1]) if cur[0] == 'A' else 1))}"
            elif j < 0.91: leaf = f"mput {hexs(rng.choice(KEYS))} {other()}"
            elif j < 0.95: leaf = f"mrem {hexs(rng.choice(KEYS))}"
            else: leaf = f"sapp {hexs(rng.choice(STR_VALUES)[:4])}"
            op = f"mut {v} {p} {leaf}".rstrip()
        if nv < 2 and "v-" in op:
            continue
        st.apply(op)
        h.append(op)
        # numeric twin: an integer literal is followed by the double it converts to (or a neighbour) in another
        # variable, so that the == matrix compares double and integer alternatives in both directions
        t = op.split()
        if t[0] == "new" and len(t) == 3 and re.fullmatch(r"[iulq]-?[0-9]+", t[2]) and nv >= 2 and rng.random() < 0.6:
            x = int(t[2][1:])
            d = float(x)
            if rng.random() < 0.25:
                d = math.nextafter(d, rng.choice([-math.inf, math.inf]))
            w2 = rng.choice([y for y in range(nv) if y != v])
            op2 = f"new {w2} d{bits_of(d):016x}"
            st.apply(op2)
            h.append(op2)
    return h


SMALL_OPS = [
    "new 0 i1", "new 0 s3130", "new 1 d3ff8000000000000", "new 0 list v1 i2", "copy 1 0", "copy 0 1",
    "mut 1 . assign v0", "mut 0 . assign v1", "mut 0 . assign v0", "swap 0 1", "mut 0 . clear",
    "mut 0 . lapp v1", "mut 0 . lapp i2", "mut 1 . lapp s61", "mut 0 l0 set i7", "mut 1 l0 lapp v0", "mut 1 l0 touch 8",
    "mut 0 . aapp v1", "mut 1 a0 set b1", "mut 0 . mput 6b v1", "mut 1 m6b lapp i3", "mut 1 . touch 10", "mut 1 . sapp 62",
    "mut 0 . set list v0 v1", "mut 0 . set s31", "get 2 0 l0", "get 0 0 l0", "get 1 1 m6b", "mut 0 . lrem 0", "mut 1 l0/l0 set u5",
    "new 2 q18446744073709549568", "new 1 d43efffffffffffff",     # 2^64 - 2048 and the double it converts to exactly
    "mut 0 l0 set list v0 i3",                                    # a temporary holding a copy of the destination, assigned below its root
]


def exhaustive(depth, rng=None, limit=None):
    hs = [list(p) for d in range(1, depth + 1) for p in itertools.product(SMALL_OPS, repeat=d)]
    if limit and len(hs) > limit:
        rng.shuffle(hs)
        hs = hs[:limit]
    return hs


# ---- coercion boundary table: decimal strings at the range boundaries of the four integer widths and of double ------------
BOUNDARIES = [0, 1, 9, 10, 2**31 - 1, 2**31, 2**32 - 1, 2**32, 2**53, 2**63 - 1, 2**63, 2**64 - 1, 2**64, 10**19, 10**20 - 1]
ATOF_HARD = [b"9007199254740993", b"9007199254740993.0000001", b"9007199254740992.9999999", b"1e22", b"1e23", b"8.5e22",
             b"2.2250738585072014e-308", b"2.2250738585072011e-308", b"1.7976931348623157e308", b"1.7976931348623158e308",
             b"1.7976931348623159e308", b"4.9406564584124654e-324", b"2.4703282292062327e-324", b"2.4703282292062328e-324",
             b"0.1", b"0.3", b"123456789012345678", b"18446744073709551615.5", b"9223372036854775807.5", b"4294967295.999",
             b"-2147483648.9", b"1e19", b"1.8446744073709552e19", b"9.223372036854775807e18", b"+.5", b"-.5e-0", b"1e+", b"1e-",
             b"0e99999", b"1e-99999", b"00000000000000000000000001", b"0.000000000000000000000000000000001e33",
             b"+-1", b"-+1", b"- 1", b"--1", b"+ 1", b"-0", b"+0", b"-00", b"0x7fffffff", b"1_000",
             # integer values from 2^64 on (dOfNat -> dOfRatQ n 1) and texts without an integer part
             b"18446744073709551616", b"18446744073709553665", b"1e25", b"123456789012345678901234567890", b"1.5e30",
             b"9007199254740993e10", b"1e300", b"1.7976931348623157e308", b"36893488147419103233", b"5e-324", b"4.9e-324",
             b".5", b"-.25e3", b".0", b"5.", b"5.e-3", b".5e", b"+.1e1", b".e1", b"0.5e+", b"12.50e-1"]


def boundary_strings():
    """decimal numerals n = B-1, B, B+1 for every boundary B, with sign / leading white space / leading zeros / trailing rest"""
    out = []
    for b in BOUNDARIES:
        for d in (-1, 0, 1):
            n = b + d
            if n < 0:
                continue
            for sign in (b"", b"-", b"+"):
                for pre in (b"", b" ", b"\t\n\v\f\r ", b"00"):
                    for suf in (b"", b"x", b".5", b"e2", b" ", b"\x009"):
                        if pre == b"00":
                            out.append(sign + pre + str(n).encode() + suf)
                        else:
                            out.append(pre + sign + str(n).encode() + suf)
    return out + ATOF_HARD


def boundary_histories():
    """every boundary string is given to variable 0 while variables 1..5 hold the integer/double alternatives next to it, so
    that all to*() of the string and the == matrix string x {int, uint, int64, uint64, double} (both directions) are
    compared: real libc (atoi/strtoul/atoll/strtoull/atof through String) vs the Lean definitions vs the Python reference"""
    strs = boundary_strings()
    hs, stats = [], {"strings": len(strs), "strtol_clamp_hi": 0, "strtol_clamp_lo": 0, "strtoul_overflow": 0, "strtoul_negated": 0,
                     "int_truncated": 0, "uint_truncated": 0, "no_digits": 0, "atof_inexact_integer": 0}
    for s in strs:
        m = RE_INT.match(cstr(s))
        n = int(m.group(2) or b"0")
        neg = m.group(1) == b"-"
        stats["no_digits"] += not m.group(2)
        stats["strtol_clamp_hi"] += (not neg and n > 2**63 - 1)
        stats["strtol_clamp_lo"] += (neg and n > 2**63)
        stats["strtoul_overflow"] += n > 2**64 - 1
        stats["strtoul_negated"] += (neg and 0 < n <= 2**64 - 1)
        stats["int_truncated"] += wrap_s(32, c_strtol(s)) != c_strtol(s)
        stats["uint_truncated"] += wrap_u(32, c_strtoul(s)) != c_strtoul(s)
        stats["atof_inexact_integer"] += (n > 2**53 and int(float(n)) != n)
    for i in range(0, len(strs), 12):
        chunk = strs[i:i + 12]
        m = RE_INT.match(cstr(chunk[0]))
        n = int(m.group(2) or b"0")
        sn = -n if m.group(1) == b"-" else n
        h = [f"new 1 i{wrap_s(32, sn)}", f"new 2 u{wrap_u(32, sn)}", f"new 3 l{max(-2**63, min(2**63 - 1, sn))}",
             f"new 4 q{min(2**64 - 1, n)}", f"new 5 d{bits_of(float(sn)):016x}"]
        hs.append(h + [f"new 0 s{hexs(x)}" for x in chunk])
    return hs, stats


def nontrivial(h, out):
    """distinct = distinct (set of leaf kinds, final observation); non-trivial = >= 3 ops and a container somewhere"""
    if len(h) < 3 or not out or out[-1] == "bad-op":
        return None
    last = out[-1]
    if "[" not in last and "{" not in last:
        return None
    return (frozenset((l.split()[3] if l.startswith("mut") else l.split()[0]) for l in h), last)


def histories_for(ctx):
    rng = ctx.rng
    quick = ctx.tier == "quick"
    hs = C.load_corpus(ctx.prop)
    ncorpus = len(hs)
    depth = 2 if quick else 3
    ex = exhaustive(depth, rng, None)
    ex3 = []
    if quick:
        ex3 = exhaustive(3, rng, None)[len(SMALL_OPS) + len(SMALL_OPS) ** 2:]
        rng.shuffle(ex3)
        ex3 = ex3[:6000]
    else:
        ex3 = exhaustive(4, rng, None)[len(ex):]
        rng.shuffle(ex3)
        ex3 = ex3[:300000]
    rnd = [gen_history(rng, rng.choice([6, 12, 25, 40])) for _ in range(2500 if quick else 120000)]
    bnd, bstats = boundary_histories()
    bstats["histories"] = len(bnd)
    bstats["lines"] = sum(len(h) for h in bnd)
    ctx.cov["coercion_boundary_table"] = bstats
    ctx.cov["rule"] = (f"corpus ({ncorpus}) + exhaustive: all op sequences of length <= {depth} over a {len(SMALL_OPS)}-op alphabet "
                       f"(3 variables; sharing, nested access, self-assignment, get of an own element) ({len(ex)} histories) + "
                       f"{len(ex3)} sampled sequences of length {depth + 1} + {len(rnd)} random histories of 6..40 ops over 2..6 variables, "
                       "paths of depth <= 3 chosen among the existing ones, literals from edge tables (integer limits, decimal strings, "
                       "doubles incl. ±0, ±inf, 2^31, 2^63, subnormal) + the coercion boundary table "
                       f"({bstats['strings']} decimal strings at the range boundaries of int/uint/int64/uint64/double with sign, white space, "
                       "leading zeros and trailing rest, beside the integer and double alternatives of the same number); distinct_nontrivial = distinct (leaf-kind set, final observation) "
                       "among histories with >= 3 ops that end with a container")
    ctx.cov["exhaustive"] = False
    ctx.cov["exhaustive_scope"] = f"length<={depth} over {len(SMALL_OPS)} ops: {len(ex)} histories"
    return hs + bnd + ex + ex3 + rnd


ASSUMPTIONS = [
    "doubles are opaque bit patterns in the theorems; NaN is excluded where the property excludes it (eq_copy)",
    "atoi/strtoul/atoll/strtoull/atof (incl. hexadecimal floats)/printf behave as glibc on LP64 in the C locale; a double->integer cast out of range is undefined (printed `?`, not compared)",
    "precondition of a mutation through a mutable accessor of variable v: the source of the element is not v itself (finding self-append); a typed container assignment receives a temporary built before the accessor chain runs (it may hold copies of v, at any path)",
    "allocation never fails; single thread",
]


def setup():
    """tools/setup.py: regenerate lean/Nstd/Generated/Variant{Rep,Coerce}.lean before the Lean build"""
    ok, msg = gen_variant.run()
    if not ok:
        print("gen_variant:", msg)


def probe_self_append(ctx, harness):
    """finding `self-append` (outside the model's precondition): run the dedicated probes on the real code and
    compare with value semantics; reported through ctx.violation with a signature so that known_findings.json decides"""
    kinds = sorted(SELFAPP_EXPECTED)
    lines = [f"selfapp {k}" for k in kinds]
    out, rc, err = C.run_lines(harness, ["reset"] + lines, timeout=60)
    ctx.cov["evaluations"] += len(out)
    got = out[1:]
    failing = []
    for k, line in zip(kinds, lines):
        exp = f"selfapp {k} {selfapp_value(k)}"
        assert selfapp_value(k) == SELFAPP_EXPECTED[k]
        g = got[kinds.index(k)] if kinds.index(k) < len(got) else f"<no output: crash/timeout rc={rc}> {err[-300:]}"
        if g != exp:
            failing.append((k, line, g, exp))
    # the model of the real code on these lines (Deep.selfLink, theorem self_append_creates_cycle): its prediction of
    # the cyclic heap must be what the real code shows, as long as the finding is open
    mout, mrc, _ = C.run_lines(C.driver_path(DRIVER), ["reset"] + lines, timeout=60)
    mgot = mout[1:]
    agree = modelled = 0
    for i, k in enumerate(kinds):
        m = mgot[i] if i < len(mgot) else ""
        if m.endswith(" -") or not m.startswith("selfapp"):
            continue
        modelled += 1
        if i < len(got) and got[i] == m:
            agree += 1
    ctx.cov["self_append_probes"] = {"run": len(kinds), "failing": len(failing), "modelled_by_selfLink": modelled,
                                     "impl_equals_selfLink_model": agree}
    if failing and modelled and agree != sum(1 for k, *_ in failing if not (mgot[kinds.index(k)].endswith(" -"))):
        ctx.notes.append("self-append: the real code differs from value semantics AND from the cycle the model of the real code "
                         "(Deep.selfLink) predicts — the finding changed its shape; re-examine DeepSelf.lean")
    if failing:
        txt = "".join(f"{line}\n# {SELFAPP_WHAT[k]}\n# impl    : {g}\n# expected: {exp}   (container sizes along v, v.back(), v.back().back(), ...)\n"
                      for k, line, g, exp in failing)
        ctx.violation("a Variant reached through a mutable accessor of v is given v itself: v then contains itself "
                      "(value semantics: it contains a copy of its old value)", txt, signature="self-append")


def model_counters(ctx, hs, cap=12000):
    """coverage counters read off the model: the driver replays the walk of every `mut` with the model's own functions and
    records each copy-on-write decision (`stats` line, answered by the driver only)"""
    sample = hs if len(hs) <= cap else hs[::max(1, len(hs) // cap)]
    lines, _ = C.flatten(sample)
    out, rc, err = C.run_lines(C.driver_path(DRIVER), lines + ["reset", "stats"], timeout=600)
    last = out[-1] if out else ""
    if rc != 0 or not last.startswith("stats "):
        ctx.notes.append(f"model counters unavailable (rc={rc}): {err[-200:]}")
        return
    cnt = {k: int(v) for k, v in (t.split("=") for t in last.split()[1:])}
    cnt["histories_sampled"] = len(sample)
    ctx.cov["model_counters"] = cnt
    ctx.cov["branch_hits"] = {k: cnt[k] for k in cnt if k.startswith(("acc_", "set_"))}
    if cnt.get("faults"):
        ctx.broken.append(f"the model faulted on {cnt['faults']} valid line(s)")


def check(ctx):
    ctx.assumptions += ASSUMPTIONS
    proof_ok = C.proof_stage(ctx, PROPS, [DRIVER], gen=gen_variant.gen, leanchecker=(ctx.tier == "thorough"))
    harness = C.build_harness(ctx, "variant", SOURCES)
    if harness is None or not C.driver_path(DRIVER).exists():
        return
    try:
        hs = histories_for(ctx)
        if not proof_ok:
            ctx.log("proof stage broken: searching harder for a failing input")
            hs += [gen_history(ctx.rng, 30) for _ in range(5000)]
        ops = {}
        for h in hs:
            for l in h:
                t = l.split()
                k = (t[0] + ":" + t[3]) if t[0] == "mut" else t[0]
                ops[k] = ops.get(k, 0) + 1
        ctx.cov["op_histogram"] = ops
        depth = {}
        for h in hs:
            for l in h:
                t = l.split()
                if t[0] in ("mut", "get"):
                    pth = t[2] if t[0] == "mut" else t[3]
                    d = 0 if pth == "." else pth.count("/") + 1
                    depth[d] = depth.get(d, 0) + 1
        ctx.cov["path_depth_histogram"] = {str(k): depth[k] for k in sorted(depth)}
        refused = 0
        for h in hs[-200:]:
            refused += sum(1 for o in reference(h) if o == "bad-op")
        ctx.cov["refused_lines_in_last_200_random_histories"] = f"{refused} of {sum(len(h) for h in hs[-200:])}"
        # which (left type, right type) pairs of operator== and which to*() source types the run evaluates (value store replay)
        pairs, types_seen = set(), set()
        for h in hs[::max(1, len(hs) // 1500)]:
            st = Store()
            for l in h:
                if st.apply(l):
                    ts = [TYPE_NO[x[0]] for x in st.v]
                    types_seen.update(ts)
                    pairs.update((a, b) for a in ts for b in ts)
        ctx.cov["eq_type_pairs_hit"] = f"{len(pairs)} of 121 (top-level operands; sample of {len(hs[::max(1, len(hs) // 1500)])} histories)"
        missing = sorted((a, b) for a in range(11) for b in range(11) if (a, b) not in pairs)
        ctx.cov["eq_type_pairs_missing"] = [f"{a}=={b}" for a, b in missing][:40]
        ctx.cov["coercion_source_types_hit"] = sorted(types_seen)
        ctx.cov["samples"] = [" ; ".join(h) for h in (hs[-3:] + hs[len(hs) // 2: len(hs) // 2 + 2])]
        diffs = C.differential(ctx, harness, C.driver_path(DRIVER), hs, reference, line_eq, nontrivial=nontrivial)
        ctx.log(f"{len(hs)} histories, {ctx.cov['evaluations']} op lines, {len(diffs)} disagreement(s)")
        C.report_diffs(ctx, diffs, harness, C.driver_path(DRIVER), reference, line_eq, "variant-ops")
        probe_self_append(ctx, harness)
        model_counters(ctx, hs)
    finally:
        try:
            harness.unlink()
        except OSError:
            pass


def replay(ctx, path):
    h = C.parse_replay(path)
    harness = C.build_harness(ctx, "variant", SOURCES)
    gen_variant.run()
    C.lake_build([DRIVER])
    diffs = C.differential(ctx, harness, C.driver_path(DRIVER), [h], reference, line_eq)
    for d in diffs:
        print(d.text())
        ctx.violation(f"replay: {d.kind}", d.text())
    harness.unlink()
