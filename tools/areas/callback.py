"""C12  Signals reach exactly the connected slots, safely under re-entrancy."""
import hashlib
import common as C
import gen_callback

PROPERTIES = ["C12"]
MANIFEST = {
    "C12": {
        "technique": "Lean 4 proof (simulation between a model of Callback.cpp - three slot states, dirty flag, stack of activation "
                     "frames with next/invalidated - and the snapshot specification, both run by one generic program evaluator; the "
                     "simulation relation contains the invariant of the two-sided bookkeeping) + tie by TRANSLATION (tools/gen_callback.py "
                     "regenerates the bodies of Callback.cpp and the connect/disconnect/emit templates of Callback.hpp as Lean heap "
                     "functions from the current sources on every run; theorems translated body = model step; the machine made of the "
                     "translated code runs as the model for all programs) + differential correspondence model vs real "
                     "Callback.hpp/.cpp under ASan/UBSan",
        "text": "Theorems, for all programs (top-level actions and slot bodies that connect, disconnect, emit recursively - on the same or "
                "on other emitters, with other arguments - and destroy or re-create listeners/emitters, their own included, arbitrarily "
                "nested), all numbers of objects and every fuel of the evaluator, about the Lean model of Callback.cpp: emit_refines (log "
                "= log of the snapshot specification: slot invocations with the arguments received and the start/return of every emit "
                "call), invocation_order_is_connection_order (in every reachable state the live list, the rest of a running emission and "
                "the next invocation are in connection order, oldest first; a disconnect + connect makes the youngest connection), "
                "args_forwarded (every slot receives exactly the argument given to the emit call that invokes it; every emit call "
                "returns once) and args_forwarded_ref (reference parameter types: each slot sees what the previous slot of the "
                "emission left in the caller's object), stale_mentions_are_dead_data (a destroyed object is mentioned only where "
                "nothing matches or follows it), no_use_after_free, no_dangling (an audit of pointer validity - activation chain, receivers, emitter keys - "
                "and of the multiset equality of the two sides, evaluated before every primitive step at any nesting depth, never fails; "
                "every activation is destroyed as the innermost one, exactly once), never_after_disconnect_or_destroy (state level) and "
                "never_invoked_unless_listed (whole runs), bookkeeping_consistent and two_sides_inverse (after every top-level call), "
                "listener_side_exact (listener-side lists = the live connections in order of birth), terminates and fuel_irrelevant, "
                "node_is_ghost; all proved in full. TIE BY TRANSLATION (PropsTie.lean, PropsTieRun.lean): the bodies of Callback::connect, "
                "Callback::disconnect, ~Listener, ~Emitter, the SignalActivation constructor and destructor, the nine connect / "
                "disconnect templates and the loop of the nine emit templates are translated statement by statement from the CURRENT "
                "sources into functions over the heap operations of Heap.lean (lean/Nstd/Generated/CallbackBody.lean) and proved equal "
                "to the model's steps on every state that satisfies what the audit implies (tie_connect(T), tie_disconnect(T), "
                "tie_dtorListener, tie_dtorEmitter, tie_ctorActivation, tie_dtorActivation, tie_emit_next/first/scan); "
                "tie_dtorEmitter: the translated ~Emitter is the model's pair-by-pair form or the bulk form (whole list dropped with "
                "Map::remove; sim_bulk: related to the same specification state - it differs from the model's state only in keys "
                "with empty lists); translated_code_refines_spec / translated_code_runs_as_model: for every program, history and "
                "fuel the evaluator over the machine made of the translated code writes the log of the specification and of the "
                "hand-written model, is never flagged, and its final state is related by the simulation relation to the same "
                "specification state as the model's (hence audit, clean bookkeeping) - so the theorems above "
                "carry over to the code as written. A change of one of these bodies changes the "
                "generated definition: the equality fails or the translator refuses (broken obligation; the check then searches for a "
                "failing input). DESTRUCTORS (PropsOrder.lean): dtor_listener_order_irrelevant and dtor_emitter_order_irrelevant - "
                "visiting the Map keys in any order gives the same state, for every state; destructor_invokes_no_slot. ADDRESS REUSE "
                "(PropsReuse.lean, PropsReuse2.lean): reuse_listener_refines - the model in which a re-created listener is constructed "
                "at the id (address) of its destroyed predecessor writes the same log as the model in which every new object gets a "
                "new id, never uses a freed object, and has the same live connections per signal when receivers are read as the "
                "variables holding them - for all programs and histories that name the listener variables the harness has (< nl); "
                "reuse_listener_refines_spec (all programs): it refines the specification with the same reuse (log, audit, clean "
                "bookkeeping); stale_receiver_never_read - no loop of the model reads receiver/object of "
                "an entry marked disconnected. The model is also tied to the current Callback.hpp/.cpp on every "
                "run by executing identical op lines on both (every small program up to renaming + structured cross-emitter programs + "
                "random programs over all nine arity overloads, heap objects under ASan/UBSan and a second pass with objects "
                "re-created at exactly the address of their predecessor, white-box bookkeeping of both sides after every top-level "
                "action); an independent Python implementation of the snapshot specification predicts every log and the bookkeeping "
                "of the real code and counts the re-entrant situations reached (branch_hits); the driver also runs the model with full "
                "address reuse (execR: listeners and emitters) beside the model on every line and flags any difference (REUSEDIFF).",
        "note": "Trusted: Lean kernel + the three standard axioms; the translator tools/gen_callback.py (its reading of the C++ subset: "
                "references/iterators as paths bound at their declaration, stores through the path, `p->member` = existence check, "
                "`find`/`insert`/`append`/`remove`/`begin`/`end` of Map and List as the heap operations of Heap.lean, search loops as "
                "findIdx?, ASSERTs and typedefs skipped, member helpers of the emit loop inlined, pointer locals carried through folds, for-each loops as foldl over the sequence as it is when the loop starts (refused when the body changes a "
                "container of that kind), the purge switch as filterMap, Map iteration in the model's insertion order - shown "
                "immaterial by the order theorems; a value-initialised Slot()/Signal() node has fields 0/connected, every field is "
                "assigned before it is read) and the representation in Heap.lean: pointers are ids, Map = key list + lookup function, "
                "`*end()` of the listener's map is the empty list, the emission iterator is an index into the slot list or the `end` "
                "sentinel of a list that was empty at construction (List.hpp: begin() of an empty list IS end()), an activation "
                "constructed without signal data is inert and pushes no frame, the identity (address) of a List node is a number from "
                "an allocation counter (theorem node_is_ghost). What is NOT translated: the Map/List containers themselves (real ones "
                "run under ASan with their assertions), the member-pointer cast of the call in emit (the translator checks which "
                "fields are called and that all arguments are passed in order, per arity; executed with a padding base class), "
                "MemberFuncPtr (ids in the model; the `mfp` line checks on the harness's 10 signal and 20 slot pointers: equal size, "
                "== iff same member iff equal bytes, < a strict total order; assumed beyond that: non-virtual members, no "
                "identical-code folding). One number stands for the argument tuple (the harness passes v..v+g-1 and checks the tuple "
                "in the slot); reference parameters are modelled as one cell per emission (signal 9: `int&`; `const int&` and `int*` "
                "only by the fixed `refargs` line). Ids: in `exec` a re-created object gets a new id; listener address reuse is proved unobservable "
                "(reuse_listener_refines; restricted to listener variables < nl because `exec` lets out-of-range variables alias ids "
                "handed out later - reuse_restriction_needed exhibits a history on which the logs differ otherwise); OPEN (PropsReuse.lean): emitter address reuse in general (proved towards it: sim_reviveE when no activation of the old "
                "emitter is on the stack, next/actEnd/invalidate do not read the data of invalidated frames; the simulation relation is not kept while "
                "invalidated frames of the old emitter are on the stack; the specification identifies an emission by (emitter, "
                "signal)) - both kinds of reuse are tested on every line (execR in the driver, `reuse` mode of the harness). "
                "The audit of no_dangling is decided classically (the audited model is not executable; it is a proof device). "
                "Emitter/Listener cannot be copied (compiler probe on every run). Single-threaded use. Slot bodies are finite scripts "
                "indexed by (listener, slot, invocation number). Accesses to a List item after `List::remove` are invisible to ASan "
                "(nstd pools list items). Harmless rewrites outside the translated subset are reported as a "
                "broken tie without a failing input (the three recorded harmless rewrites are inside it and stay quiet); the conditions of search loops are canonicalised by the translator (truth table "
                "over the comparisons), which is part of the trusted translator. The model and the translated code mirror the sources WITH "
                "the repair of defect D18 (fixes/callback/0001-*.patch); on the unpatched tree the check reports the D18 inputs.",
        "design_ref": "DESIGN.md 3/C12",
    }
}
PROPS = ["Nstd.Callback.Props", "Nstd.Callback.PropsTie", "Nstd.Callback.PropsTieRun", "Nstd.Callback.PropsOrder", "Nstd.Callback.PropsReuse", "Nstd.Callback.PropsReuse2"]
DRIVER = "drv_callback"
LEAN_TARGETS = PROPS + [DRIVER]
GEN_BODY = C.LEAN / "Nstd/Generated/CallbackBody.lean"


def translate(repo=None):
    """the bodies of src/Callback.cpp and the connect/disconnect/emit templates of Callback.hpp, translated from the CURRENT
    sources -> lean/Nstd/Generated/CallbackBody.lean (tools/gen_callback.py); a shape outside the understood subset is refused"""
    try:
        return True, "Callback.cpp / Callback.hpp translated: " + gen_callback.generate(repo or C.REPO, GEN_BODY)
    except gen_callback.Refuse as e:
        return False, "tools/gen_callback.py refuses the current Callback code (broken tie): " + str(e)
    except OSError as e:
        return False, "tools/gen_callback.py: " + str(e)


def gen(ctx):
    ok, msg = translate()
    ctx.cov["translated"] = msg
    ctx.log(msg)
    return ok, msg


def setup():
    ok, msg = translate()
    if not ok:
        print("callback translate:", msg)
SOURCES = ["callback.cpp", C.REPO / "src/Callback.cpp", C.REPO / "src/Memory.cpp"]
NE, NG, NL, NS, MAXK, MAXACT, NV = 3, 10, 3, 2, 8, 8, 10
REF_SIGNAL = 9   # its parameter type is `int&`


# ---- actions ---------------------------------------------------------------------------------------
# an action is a tuple: ('c',e,g,l,s) connect, ('d',e,g,l,s) disconnect, ('m',e,g,v) emit with argument v (signal g has
# g parameters, the harness passes (v, v+1, .., v+g-1); v = 0 for signal 0), ('L',l), ('E',e), ('n',l), ('w',e).
# The generators build ('m',e,g); `history` numbers the emissions (argument = running count) when it prints them.
def tok(a):
    return a[0] + "".join(str(x) for x in a[1:])


def with_args(actions, counter):
    out = []
    for a in actions:
        if a[0] == "m" and len(a) == 3:
            counter[0] += 1
            a = a + ((counter[0] % (NV - 1)) + 1 if a[2] != 0 else 0,)
        out.append(a)
    return out


def top_line(a):
    k = a[0]
    if k == "c":
        return "connect %d %d %d %d" % a[1:]
    if k == "d":
        return "disconnect %d %d %d %d" % a[1:]
    if k == "m":
        return "emit %d %d %d" % a[1:]
    if k == "L":
        return "dell %d" % a[1]
    if k == "n":
        return "newl %d" % a[1]
    if k == "w":
        return "newe %d" % a[1]
    return "dele %d" % a[1]


def parse_tok(t):
    return (t[0],) + tuple(int(c) for c in t[1:])


def parse_top(line):
    w = line.split()
    k = {"connect": "c", "disconnect": "d", "emit": "m", "dell": "L", "dele": "E", "newl": "n", "newe": "w"}.get(w[0])
    n = {"c": 4, "d": 4, "m": 3, "L": 1, "E": 1, "n": 1, "w": 1}.get(k)
    bounds = {"c": (NE, NG, NL, NS), "d": (NE, NG, NL, NS), "m": (NE, NG, NV), "L": (NL,), "E": (NE,), "n": (NL,), "w": (NE,)}.get(k)
    if k is None or len(w) != n + 1 or not all(x.isdigit() and len(x) < 7 for x in w[1:]):
        return None
    v = tuple(int(x) for x in w[1:])
    if any(x >= b for x, b in zip(v, bounds)):
        return None
    if k == "m" and v[1] == 0 and v[2] != 0:
        return None
    return (k,) + v


def history(tops, scripts):
    """op lines of a program: the script table first, then the top-level actions"""
    cnt = [0]
    h = ["script %d %d %d %s" % (l, s, k, " ".join(tok(a) for a in with_args(acts, cnt)))
         for (l, s, k), acts in sorted(scripts.items()) if acts]
    return h + [top_line(a) for a in with_args(tops, cnt)] + ["end"]


# ---- the property's oracle: the snapshot specification, independent of the Lean model ---------------
class Spec:
    """Per (emitter object, signal): ordered live connections (born), outerStart.  emit = snapshot of
    the connections live now and born before the outermost emission in progress began; each one still
    live at its turn is invoked, in order.  The harness variables em[i] / li[i] hold an object or
    nothing; `n` / `w` put a new object into an empty variable."""

    def __init__(self, script_of):
        self.conns = []            # [emitter object, g, listener object, s, born, alive] in order of birth
        self.clk = 0
        self.e_obj = list(range(NE))          # variable -> object (None = destroyed)
        self.l_obj = list(range(NL))
        self.l_index = {l: l for l in range(NL)}   # listener object -> the index it was created for
        self.next_obj = max(NE, NL)
        self.active = {}
        self.outer = {}
        self.inv = {}
        self.log = []
        self.script_of = script_of  # (l, s, k) -> list of actions

    def act(self, a):
        k = a[0]
        if k == "c":
            _, e, g, l, s = a
            if self.e_obj[e] is not None and self.l_obj[l] is not None:
                self.conns.append([self.e_obj[e], g, self.l_obj[l], s, self.clk, True])
                self.clk += 1
        elif k == "d":
            _, e, g, l, s = a
            if self.e_obj[e] is not None and self.l_obj[l] is not None:
                for c in self.conns:
                    if c[5] and c[0] == self.e_obj[e] and c[1] == g and c[2] == self.l_obj[l] and c[3] == s:
                        c[5] = False
                        break
        elif k == "m":
            e, g = a[1], a[2]
            v = a[3] if len(a) > 3 else 0
            eo = self.e_obj[e]
            if eo is None:
                return
            self.log.append("<%d.%d:%d" % (e, g, v))
            key = (eo, g)
            if self.active.get(key, 0) == 0:
                self.outer[key] = self.clk
                self.clk += 1
            self.active[key] = self.active.get(key, 0) + 1
            start = self.outer[key]
            snap = [c for c in self.conns if c[5] and c[0] == eo and c[1] == g and c[4] < start]
            cell = v
            for c in snap:
                if eo not in self.e_obj:
                    break
                if c[5]:
                    bump = self.invoke(c[2], c[3], cell)
                    if g == REF_SIGNAL:
                        # reference parameter: the next slot (and the caller) find what this slot left
                        cell += bump
                        self.log.append("=%d" % cell)
            if eo in self.e_obj:
                self.active[key] -= 1
            self.log.append(">")
        elif k == "L":
            lo = self.l_obj[a[1]]
            if lo is not None:
                self.l_obj[a[1]] = None
                for c in self.conns:
                    if c[2] == lo:
                        c[5] = False
        elif k == "E":
            eo = self.e_obj[a[1]]
            if eo is not None:
                self.e_obj[a[1]] = None
                for c in self.conns:
                    if c[0] == eo:
                        c[5] = False
        elif k == "n":
            if self.l_obj[a[1]] is None:
                self.l_obj[a[1]] = self.next_obj
                self.l_index[self.next_obj] = a[1]
                self.next_obj += 1
        elif k == "w":
            if self.e_obj[a[1]] is None:
                self.e_obj[a[1]] = self.next_obj
                self.next_obj += 1

    def invoke(self, lo, s, v):
        l = self.l_index[lo]
        self.log.append("%d.%d:%d" % (l, s, v))
        k = self.inv.get((l, s), 0)
        self.inv[(l, s)] = k + 1
        acts = self.script_of(l, s, k)
        for a in acts:
            if a[0] != "a":
                self.act(a)
        return sum(a[1] for a in acts if a[0] == "a")

    def line(self):
        live = [c for c in self.conns if c[5]]
        out = ["log" + "".join(" " + p for p in self.log), "|"]
        for e in range(NE):
            eo = self.e_obj[e]
            if eo is None:
                out.append("E%d:x" % e)
                continue
            sigs = []
            for g in range(NG):
                v = ",".join("%d.%d" % (self.l_index[c[2]], c[3]) for c in live if c[0] == eo and c[1] == g)
                if v:
                    sigs.append("g%d=%s" % (g, v))
            out.append("E%d:" % e + (" ".join(sigs) or "-"))
        out.append("|")
        for l in range(NL):
            lo = self.l_obj[l]
            if lo is None:
                out.append("L%d:x" % l)
                continue
            for e in range(NE):
                eo = self.e_obj[e]
                v = ",".join("%d.%d" % (c[1], c[3]) for c in live if c[2] == lo and eo is not None and c[0] == eo) or "-"
                out.append(("L%d:" % l if e == 0 else "") + "e%d=%s" % (e, v))
        return " ".join(out)


def reference(hist):
    table = {}
    spec = Spec(lambda l, s, k: table.get((l, s, k), []))
    out = []
    for line in hist:
        w = line.split()
        if w == ["reuse"]:
            # like `reset`; only the harness's way of creating objects changes (addresses are no observable)
            table.clear()
            spec = Spec(lambda l, s, k: table.get((l, s, k), []))
            out.append("ok")
            continue
        if w and w[0] == "script":
            ok = len(w) >= 4 and all(x.isdigit() and len(x) < 7 for x in w[1:4])
            if ok:
                l, s, k = int(w[1]), int(w[2]), int(w[3])
                ok = l < NL and s < NS and k < MAXK and len(w) - 4 <= MAXACT
            acts = []
            for t in w[4:] if ok else []:
                a = parse_top_tok(t)
                if a is None:
                    ok = False
                    break
                acts.append(a)
            if ok:
                table[(l, s, k)] = acts
            out.append("ok" if ok else "bad-op")
            continue
        if w == ["mfp"]:
            # what the model assumes of MemberFuncPtr, checked by the harness on its own pointers
            out.append("mfp ok sigs=%d slots=%d" % (NG, NS * NG))
            continue
        if len(w) == 2 and w[0] == "refargs":
            # reference parameters: every slot gets the caller's objects themselves (C++ rule, not in the model)
            if w[1].isdigit() and len(w[1]) < 7 and int(w[1]) < NV:
                v = int(w[1])
                out.append("ref" + "".join(" %d:2:%d" % (v + i, 2 * i) for i in range(3)) + " | %d 6" % (v + 3))
            else:
                out.append("bad-op")
            continue
        if w == ["end"]:
            acts = [("L", l) for l in range(NL)] + [("E", e) for e in range(NE)]
        else:
            a = parse_top(line) if w else None
            acts = None if a is None else [a]
        if acts is None:
            out.append("bad-op")
            continue
        spec.log = []
        for a in acts:
            spec.act(a)
        out.append(spec.line())
    return out


def parse_top_tok(t):
    shapes = {"c": (NE, NG, NL, NS), "d": (NE, NG, NL, NS), "m": (NE, NG, NV), "L": (NL,), "E": (NE,), "n": (NL,), "w": (NE,), "a": (10,)}
    b = shapes.get(t[:1])
    if b is None or len(t) != 1 + len(b) or not t[1:].isdigit():
        return None
    v = tuple(int(c) for c in t[1:])
    if any(x >= y for x, y in zip(v, b)):
        return None
    if t[0] == "m" and v[1] == 0 and v[2] != 0:
        return None
    return (t[0],) + v


# ---- exhaustive enumeration of small programs ---------------------------------------------------------
class Need(Exception):
    def __init__(self, n):
        self.n = n


def options(seen, U, recreate=False):
    """actions over universe U = (ne, ng, nl, ns) whose ids are introduced in first-use order
    (emitters, signals, listeners and slots are interchangeable, so one representative per
    renaming class is enough)"""
    ne, ng, nl, ns = (min(U[i], seen[i] + 1) for i in range(4))
    acts = []
    for e in range(ne):
        for g in range(ng):
            for l in range(nl):
                for s in range(ns):
                    acts.append(("c", e, g, l, s))
    for e in range(seen[0]):
        for g in range(seen[1]):
            for l in range(seen[2]):
                for s in range(seen[3]):
                    acts.append(("d", e, g, l, s))
    # an emitter / signal / listener nobody is connected to is still worth emitting / destroying once
    for e in range(ne):
        for g in range(ng):
            acts.append(("m", e, g))
    for l in range(nl):
        acts.append(("L", l))
    for e in range(ne):
        acts.append(("E", e))
    if recreate:
        for l in range(seen[2]):
            acts.append(("n", l))
        for e in range(seen[0]):
            acts.append(("w", e))
    return acts


def note_ids(seen, a):
    k = a[0]
    if k in "cd":
        upd = {0: a[1], 1: a[2], 2: a[3], 3: a[4]}
    elif k == "m":
        upd = {0: a[1], 1: a[2]}
    elif k in "Ln":
        upd = {2: a[1]}
    else:
        upd = {0: a[1]}
    for i, v in upd.items():
        if v + 1 > seen[i]:
            seen[i] = v + 1


def run_choices(choices, U, size):
    """One run of the specification in which every decision (next top-level action or stop; the
    script of a cell at the moment it is invoked for the first time) is taken from `choices`;
    raises Need(n) at the first decision that is not determined yet.  Returns (tops, scripts)."""
    pos = [0]
    budget = [size]
    seen = [0, 0, 0, 0]
    scripts = {}
    tops = []

    def choose(n):
        if pos[0] >= len(choices):
            raise Need(n)
        c = choices[pos[0]]
        pos[0] += 1
        return c

    def pick_action():
        opts = options(seen, U[:4], len(U) > 4)
        a = opts[choose(len(opts))]
        note_ids(seen, a)
        budget[0] -= 1
        return a

    def script_of(l, s, k):
        key = (l, s, k)
        if key not in scripts:
            n = choose(min(budget[0], 3) + 1) if k < MAXK else 0
            scripts[key] = [pick_action() for _ in range(n)]
        return scripts[key]

    spec = Spec(script_of)
    while budget[0] > 0:
        if tops and choose(2) == 0:
            break
        a = pick_action()
        tops.append(a)
        spec.act(a)
    return tops, scripts


def _expand(pre, U, size):
    """all complete programs below the choice prefix `pre` (depth-first)"""
    res = []
    stack = [pre]
    while stack:
        p = stack.pop()
        try:
            tops, scripts = run_choices(p, U, size)
        except Need as ex:
            for i in range(ex.n):
                stack.append(p + [i])
            continue
        res.append(history(tops, scripts))
    return res


def _expand_job(job):
    return _expand(*job)


def exhaustive(U, size, limit=None, pool=None):
    """all programs (up to renaming) of total size <= `size` over universe U in which every
    scripted cell is actually invoked (under the specification)"""
    if pool is None:
        return _expand([], U, size)
    # breadth-first until there are enough open prefixes, then one job per prefix
    done, open_ = [], [[]]
    while open_ and len(open_) < 400:
        nxt = []
        for p in open_:
            try:
                tops, scripts = run_choices(p, U, size)
                done.append(history(tops, scripts))
            except Need as ex:
                nxt += [p + [i] for i in range(ex.n)]
        open_ = nxt
    for part in pool.imap(_expand_job, [(p, U, size) for p in open_], chunksize=4):
        done += part
    return done


# ---- random programs -----------------------------------------------------------------------------------
def gen_program(rng, size):
    """random program of total size <= `size`: a pool of favourite (e,g,l,s) tuples makes repeated
    connect/disconnect of the same connection and re-entrant emissions of the same signal likely"""
    # three of the nine signals (= arities) per program, so that unrelated draws still meet
    sigs = rng.sample(range(NG), 3)
    if rng.random() < 0.25 and REF_SIGNAL not in sigs:
        sigs[0] = REF_SIGNAL
    pool = [(rng.randrange(NE), rng.choice(sigs), rng.randrange(NL), rng.randrange(NS)) for _ in range(rng.choice([1, 2, 3, 5]))]

    def tup():
        if rng.random() < 0.8:
            return rng.choice(pool)
        return (rng.randrange(NE), rng.choice(sigs), rng.randrange(NL), rng.randrange(NS))

    def act(in_script):
        r = rng.random()
        if in_script and rng.random() < 0.12:
            return ("a", rng.randrange(1, 10))
        e, g, l, s = tup()
        if r < 0.34:
            return ("c", e, g, l, s)
        if r < 0.58:
            return ("d", e, g, l, s)
        if r < 0.82:
            return ("m", e, g)
        if r < 0.89:
            return ("L", l)
        if r < 0.94:
            return ("E", e)
        if r < 0.97:
            return ("n", l)
        return ("w", e)

    ntop = rng.randrange(3, max(4, min(14, size // 2)))
    tops = []
    for i in range(ntop):
        a = act(False)
        if i < 2 or (i < 4 and rng.random() < 0.5):
            e, g, l, s = tup()
            a = ("c", e, g, l, s)
        tops.append(a)
    if rng.random() < 0.8:
        e, g, l, s = tup()
        tops.append(("m", e, g))
    left = size - len(tops)
    scripts = {}
    tries = 0
    while left > 0 and tries < 40:
        tries += 1
        if rng.random() < 0.7:
            _, _, l, s = rng.choice(pool)
        else:
            l, s = rng.randrange(NL), rng.randrange(NS)
        k = min(int(rng.expovariate(0.9)), MAXK - 1)
        if (l, s, k) in scripts:
            continue
        n = min(left, rng.choice([1, 1, 2, 2, 3, 3, 4, 6]))
        scripts[(l, s, k)] = [act(True) for _ in range(n)]
        left -= n
        if rng.random() < 0.15:
            break
    return history(tops, scripts)


def gen_cross(rng):
    """cross-emitter nesting: emitter A emits at depth d (its slot re-emits), the innermost slot emits on emitter B,
    and B's slot acts on A while A's emissions are still running (destroys A, disconnects / connects on the signal
    being emitted, destroys a listener with a pending slot, re-creates A, emits A once more)"""
    A, B = rng.sample(range(NE), 2)
    ga, gb = rng.randrange(NG), rng.randrange(NG)
    la, lb, l3 = rng.sample(range(NL), 3)
    sa, sb, s3 = rng.randrange(NS), rng.randrange(NS), rng.randrange(NS)
    d = rng.choice([1, 2, 2, 3])
    scripts = {}
    for k in range(d - 1):
        scripts[(la, sa, k)] = [("m", A, ga)]
    scripts[(la, sa, d - 1)] = [("m", B, gb)] + ([("m", A, ga)] if rng.random() < 0.2 else [])
    on_a = rng.choice([
        [("E", A)], [("E", A)], [("d", A, ga, la, sa)], [("d", A, ga, l3, s3)], [("c", A, ga, lb, sb)], [("L", la)], [("L", l3)],
        [("E", A), ("w", A), ("c", A, ga, la, sa), ("m", A, ga)], [("m", A, ga)], [("L", lb)],
        [("d", A, ga, l3, s3), ("c", A, ga, l3, s3), ("d", A, ga, l3, s3)], [("E", A), ("E", B)], [("L", la), ("n", la), ("c", A, ga, la, sa)],
    ])
    extra = [rng.choice([("c", A, ga, l3, s3), ("d", B, gb, lb, sb), ("m", B, gb), ("L", l3), ("E", B)])] if rng.random() < 0.4 else []
    scripts[(lb, sb, 0)] = (on_a + extra) if rng.random() < 0.7 else (extra + on_a)
    if rng.random() < 0.5:
        scripts[(l3, s3, 0)] = [rng.choice([("d", A, ga, la, sa), ("m", B, gb), ("c", A, ga, l3, s3), ("E", A), ("L", l3)])]
    tops = [("c", A, ga, la, sa), ("c", A, ga, l3, s3), ("c", B, gb, lb, sb)]
    if rng.random() < 0.3:
        tops.append(("c", A, ga, la, sa))
    rng.shuffle(tops)
    tops += [("m", A, ga), ("m", A, ga), ("m", B, gb)]
    if rng.random() < 0.3:
        tops += [("w", A), ("c", A, ga, la, sa), ("m", A, ga)]
    return history(tops, scripts)


def nesting_depth(hist):
    """maximal emission nesting of a program, measured on the specification"""
    table = {}
    depth = [0, 0]

    class S2(Spec):
        def act(self, a):
            if a[0] == "m" and self.e_obj[a[1]] is not None:
                depth[0] += 1
                depth[1] = max(depth[1], depth[0])
                Spec.act(self, a)
                depth[0] -= 1
            else:
                Spec.act(self, a)

    spec = S2(lambda l, s, k: table.get((l, s, k), []))
    for line in hist:
        w = line.split()
        if w[0] == "script":
            table[(int(w[1]), int(w[2]), int(w[3]))] = [parse_tok(t) for t in w[4:]]
        elif w[0] != "end":
            spec.act(parse_top(line))
    return depth[1]


class SpecHits(Spec):
    """the oracle with counters of the situations the property text and the audit of docs/callback.md name
    (evidence only: which re-entrant situations the histories of a run actually reach)"""

    def __init__(self, script_of, hits):
        Spec.__init__(self, script_of)
        self.hits = hits
        self.stack = []     # emissions in progress: [emitter object, g, snapshot, index of the connection being invoked]
        self.ever = set()   # (emitter object, g) that ever got a connection (the emitter has SignalData for g)

    def hit(self, k):
        self.hits[k] = self.hits.get(k, 0) + 1

    def act(self, a):
        k = a[0]
        top = self.stack[-1] if self.stack else None
        if k in "cd":
            _, e, g, l, s = a
            eo, lo = self.e_obj[e], self.l_obj[l]
            if eo is None or lo is None:
                self.hit(("connect" if k == "c" else "disconnect") + ": variable holds no object (skipped by the harness)")
                return
            same = [c for c in self.conns if c[5] and c[0] == eo and c[1] == g and c[2] == lo and c[3] == s]
            where = ""
            if top:
                if any(f[0] == eo and f[1] == g for f in self.stack):
                    where = " inside a slot, on the signal being emitted"
                elif any(f[0] == eo for f in self.stack):
                    where = " inside a slot, other signal of an emitting emitter"
                else:
                    where = " inside a slot, on another emitter"
            if k == "c":
                self.ever.add((eo, g))
                self.hit("connect" + where + (": duplicate of a live connection" if same else ""))
            elif not same:
                self.hit("disconnect" + where + ": nothing to disconnect")
            else:
                self.hit("disconnect" + where + (": oldest of %s duplicates" % ("2" if len(same) == 2 else ">2") if len(same) > 1 else ""))
                for f in self.stack:
                    if f[0] == eo and f[1] == g and same[0] in f[2]:
                        i = f[2].index(same[0])
                        self.hit("disconnect of a connection in the snapshot of a running emission: " +
                                 ("the one being invoked" if i == f[3] else "a later one" if i > f[3] else "an earlier one"))
            Spec.act(self, a)
        elif k == "m":
            e, g = a[1], a[2]
            v = a[3] if len(a) > 3 else 0
            eo = self.e_obj[e]
            if eo is None:
                self.hit("emit: variable holds no emitter (skipped by the harness)")
                return
            depth = sum(1 for f in self.stack if f[0] == eo and f[1] == g)
            if depth:
                self.hit("emit nested on the signal being emitted, depth %s" % (depth + 1 if depth < 3 else ">=4"))
            elif top:
                self.hit("emit inside a slot: " + ("other signal of an emitting emitter" if any(f[0] == eo for f in self.stack) else "another emitter"))
            if (eo, g) not in self.ever:
                self.hit("emit: the emitter has no SignalData for the signal")
            elif not any(c[5] and c[0] == eo and c[1] == g for c in self.conns):
                self.hit("emit: the slot list is empty")
            self.hit("emit: arity %d" % g if g != REF_SIGNAL else "emit: one reference parameter")
            self.log.append("<%d.%d:%d" % (e, g, v))
            key = (eo, g)
            if self.active.get(key, 0) == 0:
                self.outer[key] = self.clk
                self.clk += 1
            self.active[key] = self.active.get(key, 0) + 1
            start = self.outer[key]
            snap = [c for c in self.conns if c[5] and c[0] == eo and c[1] == g and c[4] < start]
            fr = [eo, g, snap, -1]
            self.stack.append(fr)
            cell = v
            for i, c in enumerate(snap):
                if eo not in self.e_obj:
                    self.hit("emission cut short: its emitter was destroyed")
                    break
                fr[3] = i
                if c[5]:
                    bump = self.invoke(c[2], c[3], cell)
                    if g == REF_SIGNAL:
                        if bump:
                            self.hit("reference parameter: a slot changed the caller's object")
                        cell += bump
                        self.log.append("=%d" % cell)
                else:
                    self.hit("emission skips a connection of its snapshot that is gone")
            self.stack.pop()
            if eo in self.e_obj:
                self.active[key] -= 1
            self.log.append(">")
        elif k == "L":
            lo = self.l_obj[a[1]]
            if lo is not None and top:
                own = top[2][top[3]][2] == lo
                pending = any(c[5] and c[2] == lo and i > f[3] for f in self.stack for i, c in enumerate(f[2]))
                self.hit("listener destroyed inside " + ("its own slot" if own else "a slot of another listener") +
                         (", a slot of it still pending in a running emission" if pending else ""))
            Spec.act(self, a)
        elif k == "E":
            eo = self.e_obj[a[1]]
            if eo is not None and top:
                depth = sum(1 for f in self.stack if f[0] == eo)
                if depth == 0:
                    self.hit("emitter destroyed inside a slot: not emitting itself")
                else:
                    self.hit("emitter destroyed inside a slot while %s of its emissions run%s" %
                             (depth if depth < 3 else ">=3", ", by a slot of ANOTHER emitter's emission" if top[0] != eo else ""))
            Spec.act(self, a)
        else:
            if top and ((k == "n" and self.l_obj[a[1]] is None) or (k == "w" and self.e_obj[a[1]] is None)):
                self.hit("listener re-created inside a slot" if k == "n" else "emitter re-created inside a slot")
            Spec.act(self, a)


def count_hits(hists, hits):
    for hist in hists:
        table = {}
        spec = SpecHits(lambda l, s, k: table.get((l, s, k), []), hits)
        for line in hist:
            w = line.split()
            if w[0] == "script":
                table[(int(w[1]), int(w[2]), int(w[3]))] = [parse_tok(t) for t in w[4:]]
            elif w[0] == "reuse":
                continue
            elif w[0] == "end":
                for a in [("L", l) for l in range(NL)] + [("E", e) for e in range(NE)]:
                    spec.act(a)
            else:
                a = parse_top(line)
                if a is not None:
                    spec.act(a)


def swap_signals(h, perm=(1, 0, 2)):
    """the same program with the signals renamed (signal g goes through the arity-g overloads); the emissions
    are numbered again (argument 0 for signal 0)"""
    cnt = [0]
    if not isinstance(perm, dict):
        perm = dict(enumerate(perm))
    perm = {g: perm.get(g, g) for g in range(NG)}

    def arg(g):
        if g == 0:
            return 0
        cnt[0] += 1
        return cnt[0] % (NV - 1) + 1

    def tokmap(t):
        if t[0] in "cd":
            return t[0] + t[1] + str(perm[int(t[2])]) + t[3:]
        if t[0] == "m":
            g = perm[int(t[2])]
            return "m" + t[1] + str(g) + str(arg(g))
        return t
    out = []
    for line in h:
        w = line.split()
        if w[0] == "script":
            out.append(" ".join(w[:4] + [tokmap(t) for t in w[4:]]))
        elif w[0] in ("connect", "disconnect"):
            w[2] = str(perm[int(w[2])])
            out.append(" ".join(w))
        elif w[0] == "emit":
            g = perm[int(w[2])]
            out.append("emit %s %d %d" % (w[1], g, arg(g)))
        else:
            out.append(line)
    return out


def nontrivial(h, out):
    """non-trivial = at least 3 slot invocations in total; distinct by the whole observation stream"""
    n = sum(sum(1 for t in o.split(" | ")[0].split()[1:] if t[0].isdigit()) for o in out if o.startswith("log"))
    if n < 3:
        return None
    return hashlib.sha1("\n".join(out).encode()).hexdigest()


def histories_for(ctx):
    rng = ctx.rng
    quick = ctx.tier == "quick"
    hs = C.load_corpus(ctx.prop)
    ncorpus = len(hs)
    # a fifth component = the actions "new listener" / "new emitter" are in the alphabet as well
    scopes = [((1, 1, 1, 1), 6), ((1, 1, 2, 2), 5), ((2, 2, 2, 2), 3), ((3, 2, 3, 2), 3), ((1, 1, 1, 1, True), 5),
              ((2, 1, 2, 1, True), 4)] if quick else \
             [((1, 1, 1, 1), 7), ((1, 1, 2, 2), 6), ((2, 2, 2, 2), 4), ((3, 2, 3, 2), 4), ((1, 1, 1, 1, True), 6),
              ((2, 1, 2, 1, True), 5)]
    ex = []
    desc = []
    import multiprocessing
    with multiprocessing.Pool(C.NCPU) as pool:
        for U, size in scopes:
            e = exhaustive(U, size, pool=pool)
            desc.append(f"{U[0]}e x {U[1]}g x {U[2]}l x {U[3]}s{' + re-creation' if len(U) > 4 else ''} size<={size}: {len(e)}")
            ex += e
            if U == (1, 1, 1, 1):
                # signal g has g parameters: once more through each of the other arity overloads of emit/connect/disconnect
                small = [h for h in e if len(h) <= size - 1]
                for k in range(1, NG):
                    ex += [swap_signals(h, {0: k}) for h in small]
                desc.append(f"those of at most {size - 2} op lines (+ end) over each of the signals 1..8 (arity 1..8): 8 x {len(small)}")
            if U[:4] == (1, 1, 2, 2):
                ex += [swap_signals(h, {0: 1}) for h in e] + [swap_signals(h, {0: 8}) for h in e]
                desc.append(f"the same over signal 1 and over signal 8: 2 x {len(e)}")
            if U[:4] == (2, 2, 2, 2):
                ex += [swap_signals(h, {0: 3, 1: 6}) for h in e] + [swap_signals(h, {0: 9, 1: 1}) for h in e]
                desc.append(f"the same over signals 3,6 and over 9 (reference parameter),1: 2 x {len(e)}")
            if U[:4] == (3, 2, 3, 2):
                ex += [swap_signals(h, {0: 5, 1: 2}) for h in e[::4]]
                desc.append(f"every 4th of them over signals 5,2: {len(e[::4])}")
    nrand = 5000 if quick else 60000
    rnd = [gen_program(rng, rng.choice([6, 10, 16, 24, 40])) for _ in range(nrand)]
    ncross = 1500 if quick else 10000
    rnd += [gen_cross(rng) for _ in range(ncross)]
    # once more with the objects constructed in place (a re-created object gets exactly the address of its destroyed
    # predecessor, which ASan's quarantine prevents for heap objects): every program that re-creates an object
    recreating = [h for h in ex + rnd if any((" n" in l or " w" in l) if l.startswith("script") else l.startswith("new") for l in h)]
    inplace = [["reuse"] + h for h in recreating] + [["reuse"] + h for h in hs]
    ctx.cov["address_reuse"] = (f"{len(inplace)} programs run a second time with in-place construction "
                                f"(all {len(recreating)} enumerated/random programs that re-create an object + the corpus)")
    depths = {}
    for h in rnd[:2000]:
        d = nesting_depth(h)
        depths[d] = depths.get(d, 0) + 1
    ctx.cov["nesting_depth_histogram_first_2000_random"] = {str(k): v for k, v in sorted(depths.items())}
    hits = {}
    sample = hs + ex[::10] + rnd[:3000] + rnd[nrand:nrand + 500]
    count_hits(sample, hits)
    ctx.cov["branch_hits"] = {"measured_on": f"corpus + every 10th enumerated program + the first 3000 random programs + the first 500 cross-emitter programs ({len(sample)} programs), "
                                             "situations counted by the Python oracle",
                              "hits": dict(sorted(hits.items()))}
    ctx.cov["rule"] = (f"corpus ({ncorpus}) + exhaustive: every program (top-level actions + slot scripts, up to renaming of emitters/"
                       f"signals/listeners/slots) of total size <= N in which every scripted cell is invoked [{'; '.join(desc)}] + "
                       f"{ncross} structured cross-emitter programs (a slot of emitter B's emission acts on emitter A while A emits at depth 1..3) + "
                       f"{nrand} random programs of total size <= 6..40 over 3 emitters x 9 signals (signal g = arity g, 0..8; every emission carries an argument tuple that the slots check and log) x 3 listeners x 2 slots "
                       "(scripts on invocation numbers < 8, connect/disconnect/emit/delete or re-create listener/emitter inside slots); "
                       "distinct_nontrivial = distinct observation streams among programs with >= 3 slot invocations")
    ctx.cov["exhaustive"] = False
    ctx.cov["exhaustive_scope"] = "; ".join(desc)
    return hs + ex + rnd + inplace


def node_is_ghost(ctx):
    """`Slot.node` (identity of a list node) must stay a ghost: Model.lean may mention it only in the
    structure declaration and where `connect` creates a slot; no function of the model may read it"""
    import re
    src = C.strip_comments((C.LEAN / "Nstd/Callback/Model.lean").read_text())
    uses = [l.strip() for l in src.splitlines() if re.search(r"(?<![A-Za-z])node(?![A-Za-z])", l)]
    allowed = [r"^node : Nat$", r"node := st\.nextNode,"]
    bad = [l for l in uses if not any(re.search(a, l) for a in allowed)]
    if bad or len(uses) != 2:
        ctx.broken.append("Model.lean reads the ghost field Slot.node: " + " | ".join(bad or uses)[:300])
        return False
    return True


def copy_rejected(ctx):
    """Callback::Emitter / Callback::Listener declare their copy constructor and assignment private and never define
    them: objects cannot be copied, and the model has no copy operation.  Probe the current header with the
    compiler: the four copies must be rejected (and the same snippet without a copy must compile)."""
    import subprocess
    head = "#include <nstd/Callback.hpp>\nvoid f(Callback::Listener& l, Callback::Listener& l2, Callback::Emitter& e, Callback::Emitter& e2)\n{\n%s\n}\n"
    probes = {"control": "(void)l; (void)l2; (void)e; (void)e2;", "Listener(const Listener&)": "Callback::Listener c(l);",
              "Listener::operator=": "l = l2;", "Emitter(const Emitter&)": "Callback::Emitter c(e);", "Emitter::operator=": "e = e2;"}
    res = {}
    for name, body in probes.items():
        r = subprocess.run(["g++", "-std=gnu++11", "-fsyntax-only", "-I", str(C.REPO / "include"), "-x", "c++", "-"],
                           input=head % body, capture_output=True, text=True)
        res[name] = r.returncode == 0
    ctx.cov["copy_probe"] = {k: ("compiles" if v else "rejected by the compiler") for k, v in res.items()}
    if not res["control"]:
        ctx.broken.append("copy probe: the control snippet including Callback.hpp does not compile")
        return False
    bad = [k for k, v in res.items() if v and k != "control"]
    if bad:
        ctx.broken.append("Callback objects can be copied now (" + ", ".join(bad) + "): the model has no copy operation")
        return False
    return True


def check(ctx):
    ctx.assumptions += [
        "single-threaded use of Callback (the class has no synchronisation)",
        "a new object is a new id in the model `exec` even when it gets the address of a destroyed object; listener address reuse is proved unobservable (reuse_listener_refines), emitter address reuse is only tested (execR in the driver on every line; `reuse` lines of the harness: a re-created object has exactly the address of its predecessor)",
        "member-function pointers of distinct signals/slots are distinct, of equal size, and == agrees with memcmp (checked by the `mfp` line on the harness's pointers; non-virtual members, no identical-code folding)",
        "the translator's reading of the C++ subset and the container operations of lean/Nstd/Callback/Heap.lean (Map/List themselves are not translated)",
        "slot bodies are deterministic scripts of connect/disconnect/emit/delete actions; allocation never fails",
    ]
    proof_ok = C.proof_stage(ctx, PROPS, [DRIVER], gen=gen, leanchecker=(ctx.tier == "thorough"))
    proof_ok = node_is_ghost(ctx) and proof_ok
    proof_ok = copy_rejected(ctx) and proof_ok
    harness = C.build_harness(ctx, "callback", SOURCES)
    if harness is None or not C.driver_path(DRIVER).exists():
        return
    try:
        hs = histories_for(ctx)
        if not proof_ok:
            ctx.log("proof stage broken: searching harder for a failing input")
            hs += [gen_program(ctx.rng, 30) for _ in range(20000)]
        ops = {}
        for h in hs:
            for l in h:
                w = l.split()
                if w[0] == "script":
                    for t in w[4:]:
                        ops["script:" + t[0]] = ops.get("script:" + t[0], 0) + 1
                ops[w[0]] = ops.get(w[0], 0) + 1
        ctx.cov["op_histogram"] = ops
        ctx.cov["samples"] = [" ; ".join(h) for h in (hs[-3:] + hs[len(hs) // 2: len(hs) // 2 + 2])]
        diffs = C.differential(ctx, harness, C.driver_path(DRIVER), hs, reference, C.default_eq, nontrivial=nontrivial)
        ctx.log(f"{len(hs)} programs, {ctx.cov['evaluations']} op lines, {len(diffs)} disagreement(s)")
        C.report_diffs(ctx, diffs, harness, C.driver_path(DRIVER), reference, C.default_eq, "callback-programs")
    finally:
        try:
            harness.unlink()
        except OSError:
            pass


def replay(ctx, path):
    h = C.parse_replay(path)
    harness = C.build_harness(ctx, "callback", SOURCES)
    C.lake_build([DRIVER])
    diffs = C.differential(ctx, harness, C.driver_path(DRIVER), [h], reference, C.default_eq)
    for d in diffs:
        print(d.text())
        ctx.violation(f"replay: {d.kind}", d.text())
    harness.unlink()
