"""C10  Every Future call runs exactly once and join waits for its result.

Controlled-scheduler correspondence: the REAL thread pool of src/Future.cpp (compiled unmodified with
`-include harness/future/shim.h`, every atomic operation / POSIX call a scheduling point) is run on
client scenarios under schedules chosen by this module (bounded-preemption exhaustive + random); each
trace is replayed step by step on the Lean model (`drv_future`), whose predicted trace (enabled sets,
operation kinds, objects, returned values, events) must be identical; an independent Python reference
checks the property on the implementation's trace (exactly-once, join-after-completion, result,
flags, record freed once, no deadlock)."""
import concurrent.futures as cf
import os
import re
import subprocess
import sys
import time
from pathlib import Path

import common as C
import gen_future

PROPERTIES = ["C10"]
PROPS = ["Nstd.Future.Props", "Nstd.Future.PropsSpawnFail", "Nstd.Future.PropsCall", "Nstd.Future.PropsGen", "Nstd.Future.PropsRestart"]
DRIVER = "drv_future"
LEAN_TARGETS = PROPS + [DRIVER]
MANIFEST = {
    "C10": {
        "technique": ("Lean 4 proof over a micro-step transition-system model of Future / ThreadPool / LockFreeQueue / FastSignal / Signal "
                      "(all schedules, any number of client and worker threads, any queue capacity) + controlled-scheduler correspondence: the unmodified "
                      "src/Future.cpp, Signal.cpp, Thread.cpp, Mutex.cpp run over a simulated POSIX layer in which every atomic operation and pthread call is a "
                      "scheduling point; each trace is replayed step by step on the compiled Lean model; + tie by translation (round 7): tools/gen_future.py re-translates push / pop / size / FastSignal / the constructors / "
                      "the worker loop / the push loop, counters and decision of run() / the Future<void> members, Future<void>::set, the Future<A> conversion and the order of proc from the CURRENT Future.cpp and Future.hpp on every run, and PropsGen.lean proves translated body = model step"),
        "text": ("Theorems (Props.lean, axiom-audited on every run): the lock-free ring is FIFO / hands every ticket over at most once for every capacity and thread count "
                 "(closed ring system and, by a proved simulation, the queue inside the full pool model); a worker never reads a raw slot; exactly-once / argument integrity / record lifetime (no fault) / token conservation and the "
                 "completion handshake (join after completion, result, flags, future destroyed only when unused) over all schedules of the full model; deadlock freedom (`no_stuck`) and the liveness clause `join_eventually` (every weakly fair run terminates with all joins returned and every call executed exactly once) of the repaired "
                 "full model; the repaired FastSignal never loses a set and the repaired "
                 "sleep/wake protocol has no lost wake-up for any number of consumers/suppliers (abstract protocol system); negation witnesses (kernel-checked schedules) that the "
                 "ORIGINAL code deadlocks (defect D17 on the full model; D17 and the swallowed wake-up on the protocol).  Round 3 (PropsSpawnFail.lean, PropsCall.lean): failing creation of pool workers as an "
                 "environment choice (XReach): every such state is a reachable state of the model in which the refused threads never run, hence exactly-once / arguments / join-after-completion / result / flags / record "
                 "lifetime hold for all failure patterns; `join_eventually` is FALSE then (witness: join() sleeps forever with the job queued and no worker) and ~ThreadPool hangs on the leaked _threadCount (witness); "
                 "`result_store_before_destroy` (when ~Future<A> destroys `result` no thread is at or before the result store of any call on that future), `args_as_at_start`, `restart_waits_for_previous_call`, "
                 "`restart_arms_like_fresh`, `flags_after_join`.  Round 4: `args_as_at_start_all_arities` / `member_args_as_at_start` (Call.hpp capture record for any number of arguments, CallModel.lean), `tail_rule_is_safety_neutral`, "
                 "`join_loop_skips_never_started_context`, `finite_progress_with_refused_threads`, the repaired failure branch of fixes/future/0006 as XReachFix with three kernel-evaluated runs of the repaired real code "
                 "(`repaired_branch_destructor_completes`, `repaired_branch_recovers_when_a_later_creation_succeeds`, `repaired_branch_join_still_waits_when_no_worker_can_be_created`).  Tie to the code on every run: the real thread pool "
                 "(private ThreadPool built with queue sizes 1/2/4/8 and thread limits by #including Future.cpp) is run under deviation-bounded exhaustive and random schedules; "
                 "the Lean model replays every scheduler step and must predict the same enabled set, operation, object, returned value and events; an independent Python "
                 "reference checks exactly-once, arguments, join-after-completion, result, flags after join, record freed once, no POSIX misuse, no deadlock on the "
                 "implementation's own trace.  Round 7, tie by TRANSLATION (tools/gen_future.py -> lean/Nstd/Generated/FutureBody.lean, regenerated from the current src/Future.cpp and include/nstd/Future.hpp on every run; "
                 "a shape outside the understood C++ subset is refused = broken tie; PropsGen.lean): `push_body_is_ringStep` / `pop_body_is_ringStep` (the translated bodies of LockFreeQueue::push/pop simulate the model's ringStep micro-step by micro-step: "
                 "same next program counter, locals, result and ring up to the ghost logs, for every ring whose capacity is a power of two, which `pool_ring_capacity_is_a_power_of_two` shows for every reachable state), "
                 "`fastsignal_set/reset/reset_recheck/wait_is_translated` (the four FastSignal frames of the model are the translated bodies), `queue_ctor_is_ring_init`, `queue_ctor_capacity_is_ceilPow2` (the constructor's bit smearing = ceilPow2 for every size 1..2^32), "
                 "`pool_ctor_is_mkPool`, `lazy_pool_is_default_ctor`, `run_decision_is_translated` (the branch the model takes after the two counter reads of ThreadPool::run is the decision tree the translator obtains from the current source by symbolic execution — counter arithmetic with usize/ssize wrap-around, every condition, nested ifs or early returns alike — for all counters below 2^62; the effect statements are opaque), `run_clock_cond_is_translated`, `run_clock_frames_do_what_the_tree_says`, `run_counters_are_translated`, "
                 "`worker_loop_is_translated` (every decision / access frame of ThreadContext::proc is the translated micro-step with the same number; the model's call-site frames are expanded: `worker_call_sites`), `run_push_loop_is_translated` (push loop with back-pressure + counter accesses of ThreadPool::run; a helper the loop is moved into is inlined), "
                 "`start_proc_is_translated` (Future<void>::startProc: lazy pool under the spin lock = frames cRdTp/cSpin/cRdTp2/cSwapTp/cUnlockTp, join() call site cJoin, cArm = the two arming stores in either order + run), `signal_set_is_translated` / `signal_reset_is_translated` / `signal_wait_is_translated` (Signal::set/reset/wait() of Signal.cpp, pthread branch, on the frames sSet*/sRst*/sWait*), `failed_pop_is_pure` and `fastsignal_set_when_already_set_is_a_no_op` (re-polling an empty queue any number of times / loading _state before the test-and-set change nothing), "
                 "`join_is_translated`, `join_clear_is_translated`, `abort_is_translated`, `flags_are_translated`, `destructor_is_translated`, `set_is_translated`, `result_conversion_is_translated`, `proc_order_is_translated`, `fut_ctor_is_default`, "
                 "`flags_after_join_translated` (the last sentence of C10 with the translated isFinished()/isAborted()), `size_body_never_underflows` (LockFreeQueue::size against arbitrary concurrent steps).  "
                 "PropsRestart.lean: `abortReq_is_abort_since_last_start` (the ghost flag equals a scan of the run's event history: last arming / abort() / destruction of the future), `flags_after_join_across_restarts`, "
                 "`aborted_after_join_means_abort_since_last_start` (isAborted() after join implies an abort() on this object after its LAST start, for any sequence of starts / aborts / joins / destroys / re-starts), `restart_history_witness`."),
        "note": ("Translated and proved equal to the model step (round 7, regenerated on every run): LockFreeQueue push/pop/size/constructor, FastSignal set/reset/wait, Signal::set/reset/wait(), Future<void>::startProc, ThreadPool constructor, the worker loop ThreadContext::proc, the push loop and counter accesses of ThreadPool::run, the worker-count decision of ThreadPool::run (arithmetic with wrap-around + all conditions, as a decision tree), Future<void> constructor/destructor/join/abort/isAborting/isFinished/isAborted/set, Future<A> conversion/destructor (its other members are checked to be plain forwards), the action order of the two proc templates.  "
                 "The translator's own assumptions: ring tickets as Nat without wrap-around (the counters of run() ARE translated with 64-bit wrap-around), `x & _capacityMask` as `&&&` (= `%` for the power-of-two capacity, proved), node->head = (usize)-1 as `none`, a destructor call of the trivially destructible Job is no memory access, Atomic::* with their documented meaning, the ghost logs are not produced by the code.  "
                 "HAND-translated and only tied by the step-by-step replay: the effect statements of ThreadPool::run after its decision (spawn / retire branches under the mutex, purge of the context list, Thread::start and its failure branch), ~ThreadPool, of Signal.cpp the constructor / destructor / wait(timeout); "
                 "sequentially consistent atomics; the "
                 "simulated POSIX semantics (mutex, condition variable with spurious wake-ups, create/join, virtual clock) is an assumption shared by scheduler and model; scheduling "
                 "points of the implementation run are atomic operations and pthread calls only (plain volatile reads are not separately interleaved in the run, they are in the "
                 "theorems); usize wrap-around outside.  Nothing OPEN: `join_eventually` (every weakly fair run reaches a state where every thread has finished and every call was executed and freed exactly once), `fair_runs_terminate`, `progresses_wf`, `no_stuck`, `terminal_state_is_complete` are proved on the FULL model of the repaired code; the scheduler verdict, the exhaustive model exploration of small configurations and the random model walks are additional tests.  The model mirrors the REPAIRED code "
                 "(fixes/future/0001-0005, fixes/sync/0001); on the unrepaired tree the check reports the defects with concrete failing schedules.  Round 3: failing Thread::start: XReach is exact up to the join loop of ~ThreadPool (tail replayed by the driver, OPEN as a theorem); "
                 "the liveness theorems assume that thread creation succeeds (shown false otherwise); the _threadCount leak of the failing branch is repaired by fixes/future/0006 (in /repo since 5521235; runs without a refused creation are byte-identical); on the unrepaired code the check reports the leak as `deadlock:destructor-waits-for-a-slot-with-no-worker-left` (corpus schedule, run first); the driver follows whichever failure branch the library shows in the trace; safety with refused creations is proved for the original branch only, the repaired branch is replayed; Call.hpp: generic capture model for all arities, pool model = Args2 instance.  Round 7: Framework::~Framework (static destruction of the lazily created pool) is run by the harness under the scheduler (model frame mDel); LockFreeQueue::size is translated and proved not to underflow but is not used by the pool."),
        "design_ref": "DESIGN.md 3/C10",
    }
}

GEN_OUT = C.LEAN / "Nstd" / "Generated" / "FutureBody.lean"


def translate(repo=None):
    """(ok, message): push / pop / size / FastSignal::set,reset,wait / the two constructors / the conditions of ThreadPool::run of the
    CURRENT src/Future.cpp -> lean/Nstd/Generated/FutureBody.lean (tools/gen_future.py); a shape outside the understood subset is refused"""
    try:
        return True, "src/Future.cpp translated: " + gen_future.generate(repo or C.REPO, GEN_OUT)
    except gen_future.Refuse as e:
        return False, "tools/gen_future.py refuses the current src/Future.cpp (broken tie): " + str(e)
    except OSError as e:
        return False, "tools/gen_future.py: " + str(e)


def gen(ctx):
    ok, msg = translate()
    if ctx is not None:
        ctx.cov.setdefault("translated", msg)
        ctx.log("translator: " + msg)
    return ok, msg


def setup():
    ok, msg = translate()
    if not ok:
        print("future translate:", msg)


HSRC = ["future.cpp", "future/sched.cpp"]
REPO_SRC = ["Signal.cpp", "Thread.cpp", "Mutex.cpp", "Time.cpp", "String.cpp", "Memory.cpp"]


def build(ctx):
    return C.build_harness(ctx, "future", HSRC + [C.REPO / "src" / f for f in REPO_SRC],
                           extra_flags=["-include", str(C.VERIF / "harness/future/shim.h"), f"-I{C.REPO}/src", "-pthread"])


# ---- scenarios ---------------------------------------------------------------------------------------
class Scn:
    """q,min,max,lazy,tick,sp,cf + client scripts (lists of op tokens); cf = bit mask of the pool-worker creations that fail"""
    def __init__(self, scripts, q=2, mn=0, mx=3, lazy=0, tick=0, sp=0, ncpu=4, cf=0):
        self.scripts, self.q, self.mn, self.mx, self.lazy, self.tick, self.sp, self.ncpu, self.cf = scripts, q, mn, mx, lazy, tick, sp, ncpu, cf

    def cfg(self):
        return f"q={self.q} min={self.mn} max={self.mx} lazy={self.lazy} tick={self.tick} sp={self.sp} ncpu={self.ncpu} cf={self.cf}"

    def scripts_txt(self):
        return " | ".join(" ".join(s) for s in self.scripts)

    def request(self, pol="np", seed=1, bound=4000, prefix=(), flush=0, devs=()):
        pre = ",".join(map(str, prefix)) if prefix else "-"
        dev = ",".join(f"{k}:{t}" for k, t in devs) if devs else "-"
        split = 1 if pol.endswith("s") else 0       # policies `nps` / `rands` = scheduler split mode
        return f"run {self.cfg()} pol={pol.rstrip('s')} seed={seed} bound={bound} flush={flush} split={split} pre={pre} dev={dev} | {self.scripts_txt()}"

    def model_cfg(self, repaired):
        return f"cfg {self.cfg()} rep={1 if repaired else 0} | {self.scripts_txt()}"

    def key(self):
        return self.cfg() + " | " + self.scripts_txt()


def parse_request(line):
    """inverse of Scn.request (replay files)"""
    head, _, rest = line.partition("|")
    kv = dict(t.split("=", 1) for t in head.split()[1:] if "=" in t)
    scripts = [s.split() for s in rest.split("|")]
    s = Scn(scripts, int(kv.get("q", 2)), int(kv.get("min", 0)), int(kv.get("max", 3)), int(kv.get("lazy", 0)),
            int(kv.get("tick", 0)), int(kv.get("sp", 0)), int(kv.get("ncpu", 4)), int(kv.get("cf", 0)))
    pre = [] if kv.get("pre", "-") == "-" else [int(x) for x in kv["pre"].split(",")]
    devs = [] if kv.get("dev", "-") == "-" else [tuple(int(y) for y in x.split(":")) for x in kv["dev"].split(",")]
    return s, kv.get("pol", "np") + ("s" if kv.get("split", "0") == "1" else ""), int(kv.get("seed", 1)), int(kv.get("bound", 4000)), pre, devs


# ---- running -----------------------------------------------------------------------------------------
def run_requests(exe, reqs, timeout=600):
    """-> list of traces (list of lines, last = `end ...`)"""
    e = dict(os.environ)
    e.update(C.SAN_ENV)
    try:
        p = subprocess.run([str(exe)], input="\n".join(reqs) + "\n", env=e, timeout=timeout,
                           stdout=subprocess.PIPE, stderr=subprocess.PIPE, text=True, errors="replace")
        out, err = p.stdout, p.stderr
    except subprocess.TimeoutExpired as ex:
        out = (ex.stdout or b"").decode(errors="replace") if isinstance(ex.stdout, (bytes, type(None))) else ex.stdout
        err = "TIMEOUT"
    traces, cur = [], []
    for l in out.splitlines():
        cur.append(l)
        if l.startswith("end "):
            traces.append(cur)
            cur = []
    while len(traces) < len(reqs):
        traces.append(cur + ["end lost " + err[-300:].replace("\n", " / ")])
        cur = []
    return traces, err


def hooks_of(trace):
    return 1 if any(l == "H 1" for l in trace[:3]) else 0


def split_of(trace):
    return 1 if any(l == "P 1" for l in trace[:3]) else 0


def sfix_of(trace):
    """which failure branch of ThreadPool::run does the library have?  repaired (fixes/future/0006: lock, --_threadCount, unlock: the
    creator reaches a scheduling point right after the refused creation) = 1, original (returns from run() at once) = 0; decided from the
    behaviour seen in the trace, not from the source text"""
    for i, l in enumerate(trace):
        if " create-failed " in l and l.startswith("E "):
            nxt = trace[i + 1] if i + 1 < len(trace) else ""
            return 0 if nxt.startswith("E " + l.split()[1] + " started ") else 1
    return 0


def driver_lines(scn, trace, repaired):
    out = [scn.model_cfg(repaired).replace(" rep=", f" hooks={hooks_of(trace)} split={split_of(trace)} sfix={sfix_of(trace)} rep=", 1)]
    for l in trace:
        if l.startswith("S "):
            out.append("S " + (l.split() + ["?"])[1])
        elif l.startswith("V "):
            out.append("V")
        elif l.startswith("F "):
            out.append("F")
    out.append("K")       # coverage of the model in this run (program counters and edges); not part of the compared trace
    return out


DRV = None     # private copy of the compiled driver (the lake build directory is shared with other checks)


def drv():
    return str(DRV) if DRV else str(C.driver_path(DRIVER))


def run_driver(inputs, timeout=600):
    """inputs: list of line lists (one per run) -> list of output line lists"""
    flat = [l for x in inputs for l in x]
    p = subprocess.run([drv()], input="\n".join(flat) + "\n", timeout=timeout,
                       stdout=subprocess.PIPE, stderr=subprocess.PIPE, text=True, errors="replace")
    res, cur = [], None
    for l in p.stdout.splitlines():
        if l == "ok" or l == "bad-op" and cur is None:
            if cur is not None:
                res.append(cur)
            cur = []
        elif cur is not None:
            cur.append(l)
    if cur is not None:
        res.append(cur)
    while len(res) < len(inputs):
        res.append(["<driver output lost> " + p.stderr[-200:]])
    return res


KEEP = ("S ", "O ", "E ", "X ", "D ", "V ", "F ")


def impl_view(trace):
    v = [l for l in trace if l.startswith(KEEP)]
    return [re.sub(r"^V BOUND", "V RUNNING", l) for l in v]


def first_diff(a, b):
    for i in range(max(len(a), len(b))):
        x = a[i] if i < len(a) else None
        y = b[i] if i < len(b) else None
        if x != y:
            return i, x, y
    return None


# ---- independent reference over the implementation trace ---------------------------------------------------
def reference(scn, trace, limit_hit=None):
    """-> list of (class, message) violations of C10 visible in the implementation's own trace"""
    bad = []
    if limit_hit is None:
        limit_hit = []
    starts = {}      # call id a -> (fut, b, client index)
    for ci, sc in enumerate(scn.scripts):
        for op in sc:
            if op[0] in "sS":
                f, a, b = op[1:].split(":")
                starts[int(a)] = (("f" if op[0] == "s" else "g") + f, int(b), ci + 1)
    execs, news, dels, bodydone, completed = {}, {}, {}, {}, {}
    cur = {}          # future -> call id of the latest start that has returned to the client / record creation
    pending = {}      # future -> call id whose start is in progress or done and not yet joined
    abort_since = {}  # future -> abort requested since the latest start returned
    step_thread = None
    n = 0
    verdict = None
    clients = set()
    workers, failed_creates = set(), []
    for l in trace:
        n += 1
        t = l.split()
        try:      # a crashed run (sanitizer abort) can cut its output in the middle of a line: such a line is skipped, the run is a `crash`
            if l.startswith("S "):
                step_thread = int(t[1])
            elif l.startswith("X result-"):
                # ledger of the tracked result object of Future<A>: stored into / read from / copied from an instance whose destructor has run
                bad.append(("result-object-used-after-destroy:" + t[1], l))
            elif l.startswith("X "):
                bad.append(("posix-misuse:" + t[1], l))
            elif l.startswith("O body body "):
                bodydone[int(t[3])] = n
            elif l.startswith("O xchg ") and t[2].endswith(".state") and t[2][0] in "fg" and t[2][1].isdigit():
                fut = t[2].split(".")[0]
                if fut in pending:
                    completed[pending[fut]] = n
            elif l.startswith("E "):
                tid, ev = int(t[1]), t[2]
                if ev == "create" and tid == 0:
                    clients.add(int(t[3][1:]))
                elif ev == "create":
                    workers.add(int(t[3][1:]))
                elif ev == "create-failed":
                    failed_creates.append(int(t[3][1:]))
                elif ev == "rec-new":
                    a = int(t[3])
                    news[a] = news.get(a, 0) + 1
                    if a in starts:
                        fut = starts[a][0]
                        # a re-start joins the previous call first: it must be complete before the new one is queued
                        pending[fut] = a
                        cur[fut] = a
                elif ev == "rec-del":
                    a = int(t[3])
                    dels[a] = dels.get(a, 0) + 1
                    if a not in bodydone:
                        bad.append(("record-freed-before-body", l))
                    if dels[a] > 1:
                        bad.append(("record-freed-twice", l))
                elif ev == "exec":
                    a, b = int(t[3]), int(t[4])
                    execs.setdefault(a, []).append((b, tid))
                    if a not in starts:
                        bad.append(("exec-of-unknown-call", l))
                    else:
                        if starts[a][1] != b:
                            bad.append(("wrong-arguments", l))
                        if tid in clients or tid == 0:
                            bad.append(("body-run-by-non-worker", l))
                    if len(execs[a]) > 1:
                        bad.append(("executed-twice", l))
                elif ev == "started":
                    abort_since[t[3]] = False
                elif ev == "abort":
                    abort_since[t[3]] = True
                elif ev in ("joined", "result", "destroyed"):
                    fut = t[3]
                    a = pending.get(fut)
                    if a is not None:
                        if a not in completed:
                            bad.append((f"{ev}-before-completion", l))
                        pending.pop(fut, None)
                    if ev == "destroyed":
                        cur.pop(fut, None)
                        abort_since.pop(fut, None)
                    if ev == "result":
                        a = cur.get(fut)
                        if a in starts:       # (the result of a never-started future is unspecified)
                            exp = a * 100 + starts[a][1]
                            if not t[4].lstrip("-").isdigit() or int(t[4]) != exp:
                                bad.append(("wrong-result", l + f" expected={exp}"))
                elif ev == "query":
                    fut = t[3]
                    kv = dict(x.split("=") for x in t[4:])
                    if fut in cur and fut not in pending:      # after join
                        if kv["aborted"] == "1" and not abort_since.get(fut, False):
                            bad.append(("aborted-without-abort", l))
                        if kv["aborted"] == "0" and kv["finished"] != "1":
                            bad.append(("not-finished-after-join", l))
            elif l.startswith("V "):
                verdict = t[1]
        except (ValueError, IndexError, KeyError):
            continue
    end = trace[-1] if trace else "end lost"
    if verdict == "BADPREFIX":
        return []        # a recorded schedule that does not fit the current code (replay of an old failure): nothing observed
    if verdict == "DEADLOCK":
        d = next((x for x in trace if x.startswith("D ")), "D ?")
        f = next((x for x in trace if x.startswith("F ")), "")
        blocked = {int(x.split(":")[0][1:]) for x in d.split()[1:] if x[0] == "t" and x.split(":")[0][1:].isdigit()}
        if failed_creates and not (blocked & workers):
            # the environment refused a worker thread and NO worker thread is left alive: nobody can serve the queue.  A client waiting in
            # join()/run() then is not a violation of C10 (its liveness clause assumes that worker threads can be created; theorem
            # `join_eventually_fails_when_no_worker_can_be_created`, PropsSpawnFail.lean); counted in the evidence.  A deadlock with a live worker
            # asleep stays a violation.
            if blocked == {0}:
                # every client has finished and only ~ThreadPool is left, waiting for a queue slot for a terminate job counted for a thread that
                # never existed: the _threadCount leak of the failure branch of ThreadPool::run, repaired by fixes/future/0006 (in /repo since
                # 5521235).  The repaired code is the reference: this is a violation (with the repair the same schedules end DONE).
                bad.append(("deadlock", d + " ; " + f))
            else:
                limit_hit.append("client")
        else:
            bad.append(("deadlock", d + " ; " + f))
    elif verdict == "DONE":
        for a in starts:
            if len(execs.get(a, [])) != 1 and news.get(a, 0) >= 1:
                bad.append(("not-executed-exactly-once", f"call {a}: {len(execs.get(a, []))} executions"))
            if news.get(a, 0) >= 1 and dels.get(a, 0) != 1:
                bad.append(("record-not-freed-once", f"call {a}: {dels.get(a, 0)} deletes"))
        f = next((x for x in trace if x.startswith("F ")), "")
        if "live=0" not in f:
            bad.append(("records-leaked", f))
    elif verdict in ("BOUND", "RUNNING"):
        pass
    if limit_hit and not bad and verdict == "DEADLOCK" and end == "end 5":
        return bad
    if end != "end 0" and not (verdict == "DEADLOCK" and end == "end 5") and not (verdict == "BOUND" and end == "end 6"):
        if not any(c.startswith("posix-misuse") for c, _ in bad) or "signal" in end or end.split()[1] in ("86", "87"):
            bad.append(("crash", end))
    return bad


def classify(bad, trace):
    """signature of a violation class (for known findings)"""
    cls = bad[0][0]
    if cls == "deadlock":
        f = next((x for x in trace if x.startswith("F ")), "")
        m = re.search(r"enq=(\d)/(\d) deq=(\d)/(\d)", f)
        if m and ((m.group(1), m.group(2)) == ("1", "0") or (m.group(3), m.group(4)) == ("1", "0")):
            side = "enq" if (m.group(1), m.group(2)) == ("1", "0") else "deq"
            return f"D17:fastsignal-state1-unsignaled:{side}"
        d = next((x for x in trace if x.startswith("D ")), "D")
        blocked = d.split()[1:]
        q = re.search(r" q=(\d+)/(\d+)", f)
        nonempty = bool(q) and int(q.group(1)) < int(q.group(2))
        if blocked and all(b.startswith("t0:") for b in blocked) and "cwake:deq.c" in blocked[0]:
            return "deadlock:destructor-waits-for-a-slot-with-no-worker-left"
        if nonempty and any(b.endswith("cwake:enq.c") for b in blocked) and not any(b.endswith("cwake:deq.c") for b in blocked[1:]):
            if any(b.endswith("cwake:deq.c") for b in blocked):
                return "deadlock:queued-job-workers-asleep-pusher-waits"
            return "deadlock:queued-job-all-workers-asleep"
        if nonempty and any(b.endswith("cwake:enq.c") for b in blocked):
            return "deadlock:queued-job-workers-asleep-pusher-waits"
        return "deadlock:other"
    return cls



# ---- one batch = one harness process + one driver process ------------------------------------------------
def summarize(scn, req, trace, mo, want_enabled):
    """-> dict(verdict, steps, bad, sig, diff, choices)"""
    iv = impl_view(trace)
    pcs = next((l[2:].split(",") for l in mo if l.startswith("K ")), [])
    mo = [l for l in mo if not l.startswith("K ")]
    d = first_diff(iv, mo)
    limit_hit = []
    bad = reference(scn, trace, limit_hit)
    v = next((l.split()[1] for l in trace if l.startswith("V ")), "none")
    steps = sum(1 for l in trace if l.startswith("S "))
    r = {"req": req, "verdict": v, "steps": steps, "bad": bad[:3], "sig": classify(bad, trace) if bad else None, "diff": None,
         "choices": None, "ops": {}}
    if d:
        k = d[0]
        r["diff"] = (k, d[1], d[2], iv[max(0, k - 5):k + 1], mo[max(0, k - 5):k + 1])
    ch = []
    ops = {}
    for l in trace:
        if l.startswith("S "):
            t = l.split()
            try:
                ch.append((int(t[1]), tuple(int(x) for x in t[2][3:].split(",") if x)))
            except (ValueError, IndexError):
                pass        # line cut by a crash
        elif l.startswith("O "):
            k2 = l.split()[1]
            ops[k2] = ops.get(k2, 0) + 1
    r["ops"] = ops
    r["nthreads"] = 1 + sum(1 for l in trace if " create t" in l)
    if want_enabled or bad or d:
        r["choices"] = ch
    r["fin"] = next((l for l in trace if l.startswith("F ")), "")
    r["hooks"] = hooks_of(trace)
    r["pcs"] = pcs
    r["limit"] = limit_hit[0] if limit_hit else None
    r["cf"] = scn.cf
    r["create_failed"] = sum(1 for l in trace if " create-failed " in l)
    r["sfix"] = sfix_of(trace)
    return r


_EXE = None


def batch(args):
    global DRV
    exe, scn_key, specs, repaired, want_enabled, DRV = args
    scn = SCN_CACHE[scn_key] if scn_key in SCN_CACHE else parse_request("run " + scn_key)[0]
    reqs = [scn.request(sp[0], sp[1], sp[2], sp[3], devs=(sp[4] if len(sp) > 4 else ())) for sp in specs]
    traces, err = run_requests(exe, reqs)
    outs = run_driver([driver_lines(scn, tr, repaired) for tr in traces])
    return [summarize(scn, rq, tr, mo, want_enabled) for rq, tr, mo in zip(reqs, traces, outs)]


SCN_CACHE = {}


def exact_request(scn, r):
    """request line that replays a run deterministically (the full choice list as forced prefix)"""
    pre = [c for c, _ in (r["choices"] or [])]
    return scn.request("nps" if " split=1 " in r["req"] else "np", 1, 20000, pre, flush=1)


# ---- shrinking: ddmin over the deviation points of a failing schedule ----------------------------------------
def shrink_schedule(exe, scn, r, sig, repaired=True, max_batches=60):
    """r: summary of a failing run (with r['choices']).  The schedule is rewritten as `non-preemptive default policy +
    forced choices (step:thread)`; delta debugging removes forced choices while the same violation class persists.
    -> (request line, number of forced choices, steps) of the shortest failing schedule found"""
    split = " split=1 " in r["req"]
    pol = "nps" if split else "np"
    devs = [(k, c) for k, (c, _) in enumerate(r["choices"] or [])]
    calls = [0]

    def test_many(cands):
        """-> index of the first candidate that still fails with `sig` (and its summary), else None"""
        if calls[0] >= max_batches:
            return None
        calls[0] += 1
        res = batch((str(exe), scn.key(), [(pol, 1, 20000, (), tuple(d)) for d in cands], repaired, True, DRV))
        for i, x in enumerate(res):
            if x["sig"] == sig:
                return i, x
        return None

    SCN_CACHE[scn.key()] = scn
    first = test_many([devs])
    if first is None:
        return None
    best = first[1]
    # 1. drop the tail: shortest prefix of forced choices after which the default policy still fails
    lo, hi = 0, len(devs)
    while lo < hi and calls[0] < max_batches:
        cuts = sorted(set(lo + (hi - lo) * j // 8 for j in range(8)))
        got = test_many([devs[:c] for c in cuts])
        if got is None:
            lo = cuts[-1] + 1 if cuts[-1] + 1 <= hi else hi
            if cuts[-1] + 1 >= hi:
                break
        else:
            hi = cuts[got[0]]
            best = got[1]
    devs = devs[:hi]
    # 2. ddmin over the remaining forced choices
    n = 2
    while len(devs) >= 2 and calls[0] < max_batches:
        size = max(1, len(devs) // n)
        cands = [devs[:i] + devs[i + size:] for i in range(0, len(devs), size)]
        got = test_many(cands)
        if got is not None:
            devs = cands[got[0]]
            best = got[1]
            n = max(n - 1, 2)
        else:
            if size == 1:
                break
            n = min(len(devs), n * 2)
    # 3. keep only forced choices that really deviate from the default policy
    line = scn.request(pol, 1, 20000, (), flush=1, devs=devs)
    return line, len(devs), best["steps"], best


# ---- scenario generators ---------------------------------------------------------------------------------
def small_scenarios():
    """the exhaustively scheduled scope: <= 2 clients x <= 2 jobs, queue sizes 1, 2, 4"""
    out = []
    out.append(Scn([["s0:11:5", "r0", "q0"]], q=1))
    out.append(Scn([["s0:11:5", "s0:12:6", "r0"]], q=1))
    out.append(Scn([["s0:11:5", "j0", "q0"], ["S1:21:6", "A1", "J1", "Q1"]], q=1))
    out.append(Scn([["s0:11:5", "s1:12:6", "r1", "r0"], ["s2:21:7", "r2"]], q=1))
    out.append(Scn([["s0:11:5", "s0:12:6"], ["s1:21:7", "s1:22:8"]], q=1))
    out.append(Scn([["s0:11:5", "r0", "d0"], ["s1:21:7", "a1", "r1", "q1"]], q=2))
    out.append(Scn([["s0:11:5", "s1:12:6", "j0", "j1"], ["s2:21:7", "s3:22:8", "j3", "j2"]], q=2, tick=1100, mn=0))
    out.append(Scn([["s0:11:5", "j0"], ["S1:21:7", "J1"]], q=4, lazy=1))
    out.append(Scn([["s0:11:5", "s1:12:6", "j0", "j1"], ["s2:21:7", "s3:22:8", "j3", "j2"]], q=1, tick=1100, mn=1, mx=3))
    # round 3: a Future<A> destroyed (and re-created, re-started) while its call is still running: ~Future<A> must wait for the result store
    out.append(Scn([["s0:11:5", "d0", "s0:12:6"], ["S1:21:6", "D1"]], q=2))
    # round 3: the environment refuses worker threads (cf = bit mask over the pool's thread creations)
    out.append(Scn([["s0:11:5", "s1:12:6", "j0", "j1"]], q=2, cf=1))          # first creation fails, the second start creates the worker
    out.append(Scn([["s0:11:5", "j0", "s0:12:6", "r0"], ["s1:21:1", "j1"]], q=1, cf=6))   # 2nd and 3rd fail: leaked _threadCount, ~ThreadPool may wait forever
    return out


NCPU_CHOICES = [4]      # processor counts reported to the lazily created pool


def random_scenario(rng):
    nclients = rng.choice([1, 2, 2, 2, 3])
    scripts, nextf, cid = [], 0, 10
    for ci in range(nclients):
        nf = rng.choice([1, 1, 2, 3])
        futs = []
        for _ in range(nf):
            if nextf >= 8:
                break
            futs.append((rng.choice("fffg"), nextf))
            nextf += 1
        if not futs:
            futs = [("f", 7)]
        sc, started = [], set()
        for _ in range(rng.choice([2, 3, 4, 6, 8])):
            kind, f = rng.choice(futs)
            up = kind == "g"
            k = rng.random()
            if k < 0.45 or f not in started:
                cid += 1
                sc.append(f"{'S' if up else 's'}{f}:{cid}:{rng.randrange(0, 10)}")
                started.add(f)
            elif k < 0.62:
                sc.append(f"{'J' if up else 'j'}{f}")
            elif k < 0.75 and not up:
                sc.append(f"r{f}")
            elif k < 0.85:
                sc.append(f"{'A' if up else 'a'}{f}")
            elif k < 0.95:
                sc.append(f"{'J' if up else 'j'}{f}")
                sc.append(f"{'Q' if up else 'q'}{f}")
            else:
                sc.append(f"{'D' if up else 'd'}{f}")
                started.discard(f)      # reading the result of a future that was never started is the caller's error
        scripts.append(sc)
    return Scn(scripts, q=rng.choice([1, 1, 2, 2, 4, 8]), mn=rng.choice([0, 0, 1, 2]), mx=rng.choice([2, 3, 3, 4]),      # 2: the constructor raises _maxThreads to 3
               lazy=1 if rng.random() < 0.15 else 0, tick=rng.choice([0, 0, 300, 700, 1100, 2100]), sp=rng.choice([0, 0, 0, 1, 2]),
               ncpu=rng.choice(NCPU_CHOICES), cf=rng.choice([0] * 17 + [1, 2, 5]))


# ---- exploration -----------------------------------------------------------------------------------------
def explore(ctx, exe, pool, repaired, stats, on_result):
    quick = ctx.tier == "quick"
    rng = ctx.rng
    jobs = []

    def submit(scn, specs, want_enabled=False, chunk=60):
        SCN_CACHE[scn.key()] = scn
        for i in range(0, len(specs), chunk):
            jobs.append((scn, pool.submit(batch, (str(exe), scn.key(), specs[i:i + chunk], repaired, want_enabled, DRV)), want_enabled))

    # corpus: exact replays of past failures
    for h in C.load_corpus(ctx.prop):
        for line in h:
            if line.startswith("run "):
                scn, pol, seed, bound, pre, devs = parse_request(line)
                submit(scn, [(pol, seed, bound, tuple(pre), tuple(devs))])
                stats["corpus"] += 1
    # deviation-bounded exhaustive schedules of the small scope
    smalls = small_scenarios()
    depth = 1 if quick else 2
    budget2 = 0 if quick else 6000          # per scenario cap of the second wave (sampled beyond)
    wave = []
    for scn in smalls:
        submit(scn, [("np", 1, 6000, ()), ("nps", 1, 12000, ())], want_enabled=True)
    exhaustive_runs = 0
    level = 0
    pending = list(jobs)
    jobs.clear()
    frontier = []
    while pending:
        nxt = []
        for scn, fut, we in pending:
            for r in fut.result():
                on_result(scn, r, "exhaustive" if we else "corpus")
                if we:
                    exhaustive_runs += 1
                    frontier.append((scn, r))
        pending = []
        if level < depth and frontier:
            level += 1
            per_scn = {}
            for scn, r in frontier:
                ch = r["choices"] or []
                base = len(parse_request(r["req"])[4])
                split = " split=1 " in r["req"]
                if split and level >= 2:
                    continue              # split-mode schedules: first wave only
                alts = [(k, u) for k in range(base, len(ch)) for u in ch[k][1] if u != ch[k][0]]
                ent = per_scn.setdefault(scn.key() + (" split" if split else ""), (scn, [], [0], split))
                ent[1].append((ch, alts))
                ent[2][0] += len(alts)
            frontier = []
            for key, (scn, traces_alts, total, split) in per_scn.items():
                total = total[0]
                keep = None
                if level == 2 and total > budget2:
                    stats["exhaustive_sampled"] = True
                    keep = set(rng.sample(range(total), budget2))
                specs, n = [], 0
                for ch, alts in traces_alts:
                    for (k, u) in alts:
                        if keep is None or n in keep:
                            specs.append(("nps" if split else "np", 1, 12000 if split else 6000, tuple(x for x, _ in ch[:k]) + (u,)))
                        n += 1
                submit(scn, specs, want_enabled=(level < depth))
            pending = list(jobs)
            jobs.clear()
    stats["exhaustive_runs"] = exhaustive_runs
    stats["exhaustive_depth"] = depth
    # random schedules: fixed stress scenarios + generated scenarios
    stress = [
        Scn([["s0:11:5", "s0:12:5", "s0:13:5"], ["s1:21:6", "s1:22:6", "s1:23:6"]], q=1),
        Scn([["s0:11:5", "s0:12:7", "r0", "d0", "s0:13:1", "q0", "r0", "q0"], ["S1:21:6", "Q1", "J1", "Q1", "s2:31:2", "a2", "r2", "q2"]], q=2, lazy=1),
        Scn([["s0:11:5", "s1:12:7", "s2:13:1", "j0", "j1", "j2"], ["s3:21:6", "s4:22:1", "j3", "j4"]], q=1, tick=1100, sp=1, mn=1, mx=4),
        Scn([["s0:11:5", "s1:12:7", "s2:13:1", "j0", "j1", "j2"], ["s3:21:6", "s4:22:1", "j3", "j4"], ["s5:31:1", "r5"]], q=4, tick=700, sp=2, mx=3),
    ]
    # spawn-failure stream (round 3): the same kind of client scripts with failing creations of pool workers
    spawnfail = [
        Scn([["s0:11:5", "j0"]], q=1, cf=1),
        Scn([["s0:11:5", "s1:12:6", "r0", "r1", "s0:13:1", "d0"], ["S2:21:6", "J2", "s3:22:2", "a3", "r3", "q3"]], q=2, cf=5),
        Scn([["s0:11:5", "j0", "s0:12:6", "j0"], ["s1:21:1", "j1"], ["s2:31:1", "j2", "s2:32:2"]], q=1, cf=6, tick=1100),
        Scn([["s0:11:5", "s1:12:7", "j0", "j1"], ["s3:21:6", "s4:22:1", "j3", "j4"]], q=4, cf=2, lazy=1),
    ]
    nsf = 30 if quick else 600
    for scn in spawnfail:
        submit(scn, [("rand" if i % 2 else "rands", rng.randrange(1, 10 ** 9), 12000, ()) for i in range(nsf)] + [("np", 1, 6000, ()), ("nps", 1, 12000, ())])
    # full-queue family (round 7b): several clients start calls back to back into a queue of 1 or 2 slots, so that the first push of run()
    # fails and a worker frees a slot between that push and the re-check after `_dequeuedSignal.reset()` (the re-check succeeds): the path on
    # which seeded C10-7 queues the same job twice
    fullq = [
        Scn([["s0:11:5", "s1:12:5", "s2:13:5", "j0", "j1", "j2"], ["s3:21:6", "s4:22:6", "s5:23:6", "j3", "j4", "j5"]], q=1),
        Scn([["s0:11:5", "s1:12:5", "s2:13:5"], ["s3:21:6", "s4:22:6", "s5:23:6"], ["s6:31:1", "s7:32:1"]], q=1, mx=3),
        Scn([["s0:11:5", "s1:12:5", "s2:13:5", "s3:14:5"], ["s4:21:6", "s5:22:6", "s6:23:6", "s7:24:6"]], q=2),
    ]
    nfull = 100 if quick else 1500
    for scn in fullq:
        submit(scn, [("rand" if i % 2 else "rands", rng.randrange(1, 10 ** 9), 12000, ()) for i in range(nfull)])
    nstress = 200 if quick else 3000
    for scn in stress:
        submit(scn, [("rand" if i % 2 else "rands", rng.randrange(1, 10 ** 9), 12000, ()) for i in range(nstress)])
    nscn = 160 if quick else 1500
    per = 12 if quick else 20
    for _ in range(nscn):
        scn = random_scenario(rng)
        submit(scn, [("rand" if i % 2 else "rands", rng.randrange(1, 10 ** 9), 12000, ()) for i in range(per)] + [("np", 1, 6000, ())], chunk=per + 1)
    for scn, fut, we in jobs:
        for r in fut.result():
            on_result(scn, r, "random")
    jobs.clear()


# ---- exhaustive exploration of the MODEL (micro-step granularity; a test of small configurations) -------------
def explore_cfgs(quick):
    small = [("q=1 min=0 max=3 lazy=0 tick=0 sp=0", "s0:11:5 r0", 400000),
             ("q=1 min=0 max=3 lazy=1 tick=0 sp=1", "s0:11:5 a0 j0 q0", 400000),
             ("q=2 min=0 max=3 lazy=0 tick=1100 sp=0", "S0:11:5 J0 s1:12:6 r1", 1500000),
             ("q=1 min=0 max=3 lazy=0 tick=0 sp=0", "s0:11:5 s1:12:6 j0 j1", 1500000)]
    big = [("q=1 min=0 max=3 lazy=0 tick=0 sp=0", "s0:11:5 | s1:21:6", 4000000),
           ("q=1 min=1 max=3 lazy=0 tick=1100 sp=0", "s0:11:5 s1:12:6 s0:13:7 j0 j1", 4000000),
           ("q=2 min=0 max=3 lazy=1 tick=0 sp=1", "s0:11:5 d0 | S1:21:6", 4000000)]
    return small if quick else small + big


def explore_one(args):
    global DRV
    cfg, scripts, cap, rep, DRV = args
    line = f"X {cap} {cfg} rep={rep} | {scripts}"
    t = time.time()
    try:
        p = subprocess.run([drv()], input=line + "\n", timeout=900, stdout=subprocess.PIPE, stderr=subprocess.PIPE, text=True)
        out = p.stdout.strip().splitlines()[-1] if p.stdout.strip() else "X lost " + p.stderr[-200:]
    except subprocess.TimeoutExpired:
        out = "X timeout"
    kv = dict(x.split("=", 1) for x in out.split()[1:] if "=" in x)
    return {"config": f"{cfg} | {scripts}", "repaired": rep, "states": int(kv.get("states", 0)), "transitions": int(kv.get("transitions", 0)),
            "terminal": int(kv.get("terminal", 0)), "deadlocks": int(kv.get("deadlocks", -1)), "faults": int(kv.get("faults", -1)),
            "double": int(kv.get("double", -1)), "exhausted": kv.get("truncated") == "0", "first_bad": kv.get("first-bad"),
            "schedule": kv.get("schedule", "")[:2000], "wall_s": round(time.time() - t, 1), "raw": out[:200]}


def walk_cfgs(quick):
    n = 4000 if quick else 150000
    return [("q=1 min=0 max=3 lazy=0 tick=1100 sp=1", "s0:11:5 s1:12:6 j0 j1 | s2:21:5 j2 s2:22:1 | s3:31:1 r3", n),
            ("q=2 min=0 max=4 lazy=1 tick=700 sp=0", "s0:11:5 r0 d0 s0:12:1 | S1:21:6 A1 J1 Q1 | s2:31:1 s3:32:2 j3 j2 | s4:41:0", n),
            ("q=1 min=1 max=3 lazy=0 tick=2100 sp=2", "s0:11:5 s0:12:6 s0:13:7 | s1:21:5 s2:22:6 s1:23:1 | S3:31:1 S3:32:1", n),
            ("q=4 min=0 max=3 lazy=0 tick=300 sp=0", "s0:11:5 j0 s0:12:6 j0 s0:13:7 j0 | s1:21:5 j1 s1:22:6 j1 | s2:31:1 j2 s2:32:1 j2 | s3:41:1 j3", n)]


def walk_one(args):
    global DRV
    cfg, scripts, n, seed, rep, DRV = args
    line = f"W {n} {seed} {cfg} rep={rep} | {scripts}"
    t = time.time()
    try:
        p = subprocess.run([drv()], input=line + "\n", timeout=1200, stdout=subprocess.PIPE, stderr=subprocess.PIPE, text=True)
        out = p.stdout.strip().splitlines()[-1] if p.stdout.strip() else "W lost " + p.stderr[-200:]
    except subprocess.TimeoutExpired:
        out = "W timeout"
    kv = dict(x.split("=", 1) for x in out.split()[1:] if "=" in x)
    return {"config": f"{cfg} | {scripts}", "repaired": rep, "walks": int(kv.get("walks", 0)), "done": int(kv.get("done", 0)),
            "deadlocks": int(kv.get("deadlocks", -1)), "faults": int(kv.get("faults", -1)), "bound": int(kv.get("bound", 0)),
            "steps": int(kv.get("steps", 0)), "first_bad": kv.get("first-bad"), "schedule": kv.get("schedule", "")[:2000],
            "wall_s": round(time.time() - t, 1)}


ASSUMPTIONS = [
    "sequentially consistent atomics (the controlled scheduler and the model interleave whole atomic operations; weak-memory effects on the plain volatile reads are outside)",
    "scheduling points of the implementation run are the atomic operations and POSIX calls (plain volatile reads happen together with the preceding scheduling point); the Lean theorems quantify over the finer interleaving of every single shared access",
    "simulated POSIX semantics of harness/future/sched.cpp = the model's: non-recursive mutex ownership, condition variable wait set with broadcast waking all current waiters and budgeted spurious wake-ups, thread create/join/exit, virtual monotone clock",
    "each Future object is used by one client thread (the class is not thread-safe for concurrent clients of one object); started functions terminate and do not wait on other futures",
    "LIVENESS theorems (no_stuck, join_eventually, terminate_jobs_balance ...) assume that thread creation succeeds; with a failing Thread::start (environment choice of the extended system XReach, SpawnFail.lean, run on the real code with request option cf) the SAFETY theorems still hold (PropsSpawnFail.lean) and the liveness clause is false (kernel-checked witnesses: join() never returns when no worker can be created; ~ThreadPool waits forever because _threadCount is not decremented when the start fails); allocation succeeds",
    "Call.hpp is abstracted: a call record is two integer arguments and a fixed body a*100+b (Args2); the other arities (Args0..5, Member Args0..4) with by-value capture are run on the real code by the harness request `arity` (tie only)",
    "the result object of Future<A> is a tracked non-trivial type in the harness (store into / read of a destroyed instance is a violation); in the model its lifetime is the program counter destroyF (theorem result_store_before_destroy)",
    "tie by translation (tools/gen_future.py): C++ subset semantics of the translator — usize/ssize as Nat/Int (no wrap-around), mask arithmetic on a power-of-two capacity, (usize)-1 in node->head as `none`, the destructor of the trivially destructible Job as no access, Atomic::compareAndSwap/swap/testAndSet/increment/load with their documented meaning, one micro-step per shared access with the thread-local run-on after it",
    "virtual clock of the controlled scheduler: every reading advances it by `tick`, except readings taken while a ThreadPool is being constructed (the model's constructor has no clock step; the initial value of _idleResetTime is never read before run() stored it)",
    "the translator drops ASSERT(...) statements (debug checks that write nothing) and treats a const local with a thread-local initialiser as a name for that value",
    "liveness under weak fairness is not decided by schedules of bounded length: the scheduler verdict is deadlock (no enabled thread) or step bound; usize ticket wrap-around at 2^64 is outside the model",
]


def check(ctx):
    ctx.assumptions += ASSUMPTIONS
    proof_ok = C.proof_stage(ctx, PROPS, [DRIVER], gen=gen, leanchecker=(ctx.tier == "thorough"))
    exe = build(ctx)
    if exe is None or not C.driver_path(DRIVER).exists():
        return
    global DRV
    import shutil
    DRV = C.BUILD / f"drv_future_{os.getpid()}"
    shutil.copy2(C.driver_path(DRIVER), DRV)
    repaired = True
    stats = {"corpus": 0, "runs": 0, "steps": 0, "verdicts": {}, "diffs": 0, "classes": {}, "ops": {}, "maxthreads": 0, "exhaustive_sampled": False,
             "pcs": {}, "spawn_failure": {"runs": 0, "failed_creations": 0, "done": 0, "limit_client_waits_forever": 0, "limit_destructor_waits_forever": 0}}
    found = {}       # signature -> (steps, scn, r)
    diffs = []
    distinct = set()
    samples = []

    def on_result(scn, r, stream):
        stats["runs"] += 1
        stats["steps"] += r["steps"]
        stats["verdicts"][r["verdict"]] = stats["verdicts"].get(r["verdict"], 0) + 1
        stats["maxthreads"] = max(stats["maxthreads"], r.get("nthreads", 0))
        for k, v in r["ops"].items():
            stats["ops"][k] = stats["ops"].get(k, 0) + v
        for k in r.get("pcs", ()):
            stats["pcs"][k] = stats["pcs"].get(k, 0) + 1
        if r.get("create_failed"):
            sf = stats["spawn_failure"]
            sf["runs"] += 1
            sf["failure_branch_of_the_library"] = "repaired (fixes/future/0006: reservation undone)" if r.get("sfix") else "original (_threadCount stays incremented)"
            sf["failed_creations"] += r["create_failed"]
            if r.get("limit"):
                sf["limit_" + r["limit"] + "_waits_forever"] += 1
            elif r["verdict"] == "DONE":
                sf["done"] += 1
        if r["steps"] >= 20:
            distinct.add((scn.key(), r["steps"], r["fin"], tuple(sorted(r["ops"].items()))))
        if len(samples) < 6 and stats["runs"] % 997 == 1:
            samples.append(r["req"][:300])
        if r["sig"]:
            stats["classes"][r["sig"]] = stats["classes"].get(r["sig"], 0) + 1
            if r["sig"] not in found or r["steps"] < found[r["sig"]][0]:
                found[r["sig"]] = (r["steps"], scn, r)
        if r["diff"] and not r["sig"]:
            stats["diffs"] += 1
            if len(diffs) < 3:
                diffs.append((scn, r))
        elif r["diff"]:
            stats["diffs_with_violation"] = stats.get("diffs_with_violation", 0) + 1

    xres, wres = [], []
    try:
        with cf.ProcessPoolExecutor(C.NCPU) as pool:
            xf = [pool.submit(explore_one, (c, sc, cap, 1, DRV)) for c, sc, cap in explore_cfgs(ctx.tier == "quick")]
            if ctx.tier != "quick":     # sanity witness (the explorer still finds the D17 deadlock in the model of the ORIGINAL code): thorough tier only; the quick tier keeps the random walk of the original model
                xf.append(pool.submit(explore_one, ("q=1 min=0 max=3 lazy=0 tick=0 sp=0", "s0:11:5 s1:12:6 j0 j1", 1500000, 0, DRV)))
            wf = [pool.submit(walk_one, (c, sc, n, ctx.seed * 7 + k, 1, DRV)) for k, (c, sc, n) in enumerate(walk_cfgs(ctx.tier == "quick"))]
            c0, sc0, n0 = walk_cfgs(True)[0]
            wf.append(pool.submit(walk_one, (c0, sc0, n0, ctx.seed, 0, DRV)))
            explore(ctx, exe, pool, repaired, stats, on_result)
            arity_stream(ctx, exe, stats)
            xres = [f.result() for f in xf]
            wres = [f.result() for f in wf]
    except Exception:
        for f in (exe, DRV):
            try:
                f.unlink()
            except OSError:
                pass
        raise
    try:
        report(ctx, exe, repaired, stats, found, diffs, distinct, samples, xres, wres)
    finally:
        for f in (exe, DRV):
            try:
                f.unlink()
            except OSError:
                pass


def report(ctx, exe, repaired, stats, found, diffs, distinct, samples, xres, wres):
    ctx.cov["evaluations"] = stats["steps"]
    ctx.cov["traces_validated_against_impl"] = stats["runs"]
    ctx.cov["distinct_nontrivial"] = len(distinct)
    ctx.cov["op_histogram"] = stats["ops"]
    ctx.cov["samples"] = samples
    ctx.cov["verdicts"] = stats["verdicts"]
    ctx.cov["violation_classes"] = stats["classes"]
    ctx.cov["max_threads_in_a_run"] = stats["maxthreads"]
    ctx.cov["exhaustive"] = False
    ctx.cov["exhaustive_scope"] = (f"{len(small_scenarios())} scenarios (<= 2 clients x <= 2 calls, queue sizes 1/2/4, lazy pool, retire clock): every schedule with "
                                   f"<= {stats['exhaustive_depth']} deviation(s) from the non-preemptive default at any scheduling point (and, in scheduler split mode where the run-on after an operation is a step of its own, every schedule with <= 1 deviation)"
                                   f"{' (second wave sampled to 6000 per scenario)' if stats['exhaustive_sampled'] else ''}: {stats['exhaustive_runs']} runs")
    ctx.cov["rule"] = ("corpus replays + deviation-bounded exhaustive schedules of the small scope + random schedules (xorshift seeds from VERIF_SEED) of 4 stress scenarios, of 3 full-queue scenarios (queue of 1-2 slots, 2-3 clients starting 3-4 calls back to back: failed first push, successful re-check) "
                       "and of generated scenarios (1-3 clients, 1-3 futures each, start/join/result/abort/query/destroy, queue 1..8, min 0..2, max 3..4, lazy pool, clock ticks, "
                       "spurious wake-ups); evaluations = scheduler steps replayed on the model; distinct_nontrivial = distinct (scenario, step count, final summary, op histogram) of runs with >= 20 steps")
    ctx.cov["open_statements"] = OPEN_STATEMENTS
    # coverage of the MODEL by the replayed runs: program counters (frame constructors) and branch edges `pc>next pc` executed
    try:
        allpcs = subprocess.run([drv()], input="KALL\n", stdout=subprocess.PIPE, text=True, timeout=60).stdout.strip().split("\n")[-1][2:].split(",")
    except Exception:
        allpcs = []
    pcs_hit = {k: v for k, v in stats["pcs"].items() if ">" not in k}
    edges = {k: v for k, v in stats["pcs"].items() if ">" in k}
    ctx.cov["branch_hits"] = {"model_program_counters": len(allpcs), "reached_by_a_replayed_run": len([p for p in allpcs if p in pcs_hit]),
                              "unreached": sorted(p for p in allpcs if p not in pcs_hit),
                              "rarest_program_counters (runs)": dict(sorted(pcs_hit.items(), key=lambda kv: kv[1])[:12]),
                              "edges_taken": len(edges), "rarest_edges (runs)": dict(sorted(edges.items(), key=lambda kv: kv[1])[:25])}
    ctx.cov["call_arities"] = stats.get("arity")
    ctx.cov["faults_fired"] = {"failing creation of a pool worker (pthread_create -> EAGAIN, request option cf)": stats["spawn_failure"]}
    ctx.log(f"model coverage: {ctx.cov['branch_hits']['reached_by_a_replayed_run']}/{len(allpcs)} program counters, {len(edges)} edges; unreached {ctx.cov['branch_hits']['unreached']}; spawn failures {stats['spawn_failure']}")
    ctx.cov["model_exploration"] = xres
    for x in xres:
        if x["repaired"] == 1 and (x["deadlocks"] != 0 or x["faults"] != 0 or x["double"] != 0):
            ctx.broken.append(f"exhaustive exploration of the Lean model (repaired code) found {x['first_bad']} in {x['config']}: schedule {x['schedule'][:300]}")
        if x["repaired"] == 0 and x["deadlocks"] == 0:
            ctx.notes.append("sanity: the explorer no longer finds the D17 deadlock in the model of the ORIGINAL code")
    ctx.cov["model_random_walks"] = wres
    for w in wres:
        if w["repaired"] == 1 and (w["deadlocks"] != 0 or w["faults"] != 0):
            ctx.broken.append(f"random walk of the Lean model (repaired code) ended in {w['first_bad']} in {w['config']}: schedule {w['schedule'][:300]}")
    ctx.log("model random walks: " + "; ".join(f"{w['walks']} walks/{w['steps']} steps dl={w['deadlocks']} rep={w['repaired']}" for w in wres))
    ctx.log("model exploration: " + "; ".join(f"{x['states']} states{'' if x['exhausted'] else ' (capped)'} dl={x['deadlocks']} rep={x['repaired']}" for x in xres))
    ctx.log(f"{stats['runs']} runs, {stats['steps']} scheduler steps, verdicts {stats['verdicts']}, violation classes {stats['classes']}, model diffs {stats['diffs']}")
    shrunk = {}
    for sig, (steps, scn, r) in sorted(found.items()):
        try:
            sh = shrink_schedule(exe, scn, r, sig, repaired)
        except Exception as ex:        # the shrinker must never hide the finding
            sh = None
            ctx.notes.append(f"shrinker failed for {sig}: {ex}")
        if sh:
            shrunk[sig] = sh
    ctx.cov["shrunk_schedules"] = {k: {"forced_choices": v[1], "steps": v[2]} for k, v in shrunk.items()}
    for sig, (steps, scn, r) in sorted(found.items()):
        if sig in shrunk:
            line, nd, st, best = shrunk[sig]
            txt = (line + f"\n# minimised by delta debugging: {nd} forced scheduling choice(s) on top of the non-preemptive default policy, {st} steps"
                   + "\n# found as: " + r["req"][:300] + "\n# " + " ; ".join(f"{c}: {m}" for c, m in best["bad"]) + "\n# " + best["fin"] + "\n")
            ctx.violation(f"implementation violates C10 under the controlled scheduler: {sig} ({stats['classes'][sig]} of {stats['runs']} runs)", txt,
                          signature=sig)
            continue
        txt = exact_request(scn, r) + "\n# schedule found as: " + r["req"][:400] + "\n# " + " ; ".join(f"{c}: {m}" for c, m in r["bad"]) + "\n# " + r["fin"] + "\n"
        ctx.violation(f"implementation violates C10 under the controlled scheduler: {sig} ({stats['classes'][sig]} of {stats['runs']} runs)", txt,
                      signature=sig)
    for scn, r in diffs:
        k, a, b, ia, ma = r["diff"]
        txt = (exact_request(scn, r) + f"\n# first disagreement at trace line {k}\n# impl : {a}\n# model: {b}\n# impl context : {ia}\n# model context: {ma}\n")
        ctx.broken.append("correspondence future-sched: implementation trace and Lean model differ")
        ctx.violation("correspondence stream 'future-sched' no longer checks (real thread pool under the controlled scheduler vs Lean model); the independent reference found no failing input on that run",
                      txt, no_input=True)
        break


ARITY_CHECKS = 26       # value checks printed by one `arity` request of the harness (every start() overload of Future.hpp + flag queries)


def arity_stream(ctx, exe, stats):
    """every start() overload of Future<A> / Future<void> (Call.hpp Args0..5, Member Args0..4) once on the real pool under random
    schedules; by-value capture (the caller overwrites its variables right after start()) and the converted result are checked by the harness"""
    seeds = [ctx.rng.randrange(1, 10 ** 6) for _ in range(6 if ctx.tier == "quick" else 40)]
    reqs = [f"arity q={q} pol={pol} seed={sd}" for sd in seeds for q, pol in ((2, "rand"), (1, "np"))]
    traces, err = run_requests(exe, reqs)
    ok = 0
    for rq, tr in zip(reqs, traces):
        n = sum(1 for l in tr if l.startswith("E 0 arity ") and " ok " in l)
        xs = [l for l in tr if l.startswith("X ")]
        v = next((l.split()[1] for l in tr if l.startswith("V ")), "none")
        leak = not any(l.startswith("E 0 arity-total") and l.endswith("live=0") for l in tr)
        if n == ARITY_CHECKS and not xs and v == "DONE" and tr[-1] == "end 0" and not leak:
            ok += 1
        else:
            ctx.violation(f"Call.hpp / Future.hpp start() overloads: {n}/{ARITY_CHECKS} value checks passed, verdict {v}, {xs[:2]}",
                          rq + "\n# " + " ; ".join(xs[:3] + [tr[-1]]) + "\n", signature="call-arity:" + (xs[0].split()[1] if xs else v))
            break
    stats["arity"] = {"requests": len(reqs), "passed": ok, "value_checks_per_request": ARITY_CHECKS}


OPEN_STATEMENTS = ["PropsSpawnFail.lean: safety theorems with refused thread creations are proved for the ORIGINAL failure branch (XReach ⊆ Reach); the REPAIRED branch (fixes/future/0006, XReachFix) is modelled, replayed and kernel-evaluated on three runs, its safety is not transferred (runs leave Reach while _threadCount is transiently too high; needs the handler pcs in Frame)",
                   "PropsSpawnFail.lean: worker steps after the tail rule of the original branch fired (the rule itself is proved safety-neutral); positive liveness (join_eventually under 'a worker exists or a creation eventually succeeds'): only finite progress is proved",
                   "PropsGen.lean: NOT translated (hand translation, tied by the replay only): the spawn / retire effect statements of ThreadPool::run, ~ThreadPool; the translated bodies are proved equal to the model steps, the C++ subset semantics of the translator is an assumption",
                   "PropsCall.lean: the pool model carries the Args2 instance of the generic capture record (CallModel.lean, all arities); the header -> CallModel translation is tied by the harness request `arity`"]      # join_eventually is proved outright (Props.lean) since round 2 / fix 0005


def replay(ctx, path):
    lines = [l for l in C.parse_replay(path) if l.startswith("run ")]
    exe = build(ctx)
    C.lake_build([DRIVER])
    if exe is None:
        return
    for line in lines:
        scn = parse_request(line)[0]
        traces, err = run_requests(exe, [line])
        mo = run_driver([driver_lines(scn, traces[0], True)])[0]
        r = summarize(scn, line, traces[0], mo, False)
        print("\n".join(impl_view(traces[0])[-40:]))
        if r.get("limit"):
            why = ("~ThreadPool queued terminate jobs for threads that were never created: _threadCount leak of the original failure branch, repaired by fixes/future/0006"
                   if r["limit"] == "destructor" else "no worker thread can be created: documented limit of the liveness clause")
            print(f"# spawn failure: no worker thread left, {r['limit']} waits forever ({why}; not a C10 violation)")
        print(f"verdict={r['verdict']} steps={r['steps']} reference={r['bad']} model-diff={r['diff']}")
        if r["sig"]:
            ctx.violation(f"replay: {r['sig']}", line + "\n# " + " ; ".join(f"{c}: {m}" for c, m in r["bad"]) + "\n", signature=r["sig"])
        elif r["diff"]:
            ctx.violation("replay: implementation vs model", line + f"\n# {r['diff'][:3]}\n", no_input=True)
    exe.unlink()
