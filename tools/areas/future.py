"""C10  Every Future call runs exactly once and join waits for its result.

Controlled-scheduler correspondence: the REAL thread pool of src/Future.cpp (compiled unmodified with
`-include harness/future/shim.h`, every atomic operation / POSIX call a scheduling point) is run on
client scenarios under schedules chosen by this module (bounded-preemption exhaustive + random); each
trace is replayed step by step on the Lean model (`drv_future`), whose predicted trace (enabled sets,
operation kinds, objects, returned values, events) must be identical; an independent Python reference
checks the property on the implementation's trace (exactly-once, join-after-completion, result,
flags, record freed once, no deadlock)."""
import concurrent.futures as cf
import os
import re
import subprocess
import sys
import time
from pathlib import Path

import common as C

PROPERTIES = ["C10"]
PROPS = ["Nstd.Future.Props"]
DRIVER = "drv_future"
LEAN_TARGETS = PROPS + [DRIVER]
MANIFEST = {
    "C10": {
        "technique": "Lean 4 proof over a micro-step transition-system model of Future/ThreadPool/LockFreeQueue/FastSignal/Signal (all schedules, any number of threads, any capacity) + controlled-scheduler correspondence on the real thread pool",
        "text": "TODO",
        "note": "TODO",
        "design_ref": "DESIGN.md 3/C10",
    }
}

HSRC = ["future.cpp", "future/sched.cpp"]
REPO_SRC = ["Signal.cpp", "Thread.cpp", "Mutex.cpp", "Time.cpp", "String.cpp", "Memory.cpp"]


def build(ctx):
    return C.build_harness(ctx, "future", HSRC + [C.REPO / "src" / f for f in REPO_SRC],
                           extra_flags=["-include", str(C.VERIF / "harness/future/shim.h"), f"-I{C.REPO}/src", "-pthread"])


# ---- scenarios ---------------------------------------------------------------------------------------
class Scn:
    """q,min,max,lazy,tick,sp + client scripts (lists of op tokens)"""
    def __init__(self, scripts, q=2, mn=0, mx=3, lazy=0, tick=0, sp=0):
        self.scripts, self.q, self.mn, self.mx, self.lazy, self.tick, self.sp = scripts, q, mn, mx, lazy, tick, sp

    def cfg(self):
        return f"q={self.q} min={self.mn} max={self.mx} lazy={self.lazy} tick={self.tick} sp={self.sp}"

    def scripts_txt(self):
        return " | ".join(" ".join(s) for s in self.scripts)

    def request(self, pol="np", seed=1, bound=4000, prefix=(), flush=0):
        pre = ",".join(map(str, prefix)) if prefix else "-"
        return f"run {self.cfg()} pol={pol} seed={seed} bound={bound} flush={flush} pre={pre} | {self.scripts_txt()}"

    def model_cfg(self, repaired):
        return f"cfg {self.cfg()} rep={1 if repaired else 0} | {self.scripts_txt()}"

    def key(self):
        return self.cfg() + " | " + self.scripts_txt()


def parse_request(line):
    """inverse of Scn.request (replay files)"""
    head, _, rest = line.partition("|")
    kv = dict(t.split("=", 1) for t in head.split()[1:] if "=" in t)
    scripts = [s.split() for s in rest.split("|")]
    s = Scn(scripts, int(kv.get("q", 2)), int(kv.get("min", 0)), int(kv.get("max", 3)), int(kv.get("lazy", 0)),
            int(kv.get("tick", 0)), int(kv.get("sp", 0)))
    pre = [] if kv.get("pre", "-") == "-" else [int(x) for x in kv["pre"].split(",")]
    return s, kv.get("pol", "np"), int(kv.get("seed", 1)), int(kv.get("bound", 4000)), pre


# ---- running -----------------------------------------------------------------------------------------
def run_requests(exe, reqs, timeout=600):
    """-> list of traces (list of lines, last = `end ...`)"""
    e = dict(os.environ)
    e.update(C.SAN_ENV)
    try:
        p = subprocess.run([str(exe)], input="\n".join(reqs) + "\n", env=e, timeout=timeout,
                           stdout=subprocess.PIPE, stderr=subprocess.PIPE, text=True, errors="replace")
        out, err = p.stdout, p.stderr
    except subprocess.TimeoutExpired as ex:
        out = (ex.stdout or b"").decode(errors="replace") if isinstance(ex.stdout, (bytes, type(None))) else ex.stdout
        err = "TIMEOUT"
    traces, cur = [], []
    for l in out.splitlines():
        cur.append(l)
        if l.startswith("end "):
            traces.append(cur)
            cur = []
    while len(traces) < len(reqs):
        traces.append(cur + ["end lost " + err[-300:].replace("\n", " / ")])
        cur = []
    return traces, err


def driver_lines(scn, trace, repaired):
    out = [scn.model_cfg(repaired)]
    for l in trace:
        if l.startswith("S "):
            out.append("S " + l.split()[1])
        elif l.startswith("V "):
            out.append("V")
        elif l.startswith("F "):
            out.append("F")
    return out


def run_driver(inputs, timeout=600):
    """inputs: list of line lists (one per run) -> list of output line lists"""
    flat = [l for x in inputs for l in x]
    p = subprocess.run([str(C.driver_path(DRIVER))], input="\n".join(flat) + "\n", timeout=timeout,
                       stdout=subprocess.PIPE, stderr=subprocess.PIPE, text=True, errors="replace")
    res, cur = [], None
    for l in p.stdout.splitlines():
        if l == "ok" or l == "bad-op" and cur is None:
            if cur is not None:
                res.append(cur)
            cur = []
        elif cur is not None:
            cur.append(l)
    if cur is not None:
        res.append(cur)
    while len(res) < len(inputs):
        res.append(["<driver output lost> " + p.stderr[-200:]])
    return res


KEEP = ("S ", "O ", "E ", "X ", "D ", "V ", "F ")


def impl_view(trace):
    v = [l for l in trace if l.startswith(KEEP)]
    return [re.sub(r"^V BOUND", "V RUNNING", l) for l in v]


def first_diff(a, b):
    for i in range(max(len(a), len(b))):
        x = a[i] if i < len(a) else None
        y = b[i] if i < len(b) else None
        if x != y:
            return i, x, y
    return None


# ---- independent reference over the implementation trace ---------------------------------------------------
def reference(scn, trace):
    """-> list of (class, message) violations of C10 visible in the implementation's own trace"""
    bad = []
    starts = {}      # call id a -> (fut, b, client index)
    for ci, sc in enumerate(scn.scripts):
        for op in sc:
            if op[0] in "sS":
                f, a, b = op[1:].split(":")
                starts[int(a)] = (("f" if op[0] == "s" else "g") + f, int(b), ci + 1)
    execs, news, dels, bodydone, completed = {}, {}, {}, {}, {}
    cur = {}          # future -> call id of the latest start that has returned to the client / record creation
    pending = {}      # future -> call id whose start is in progress or done and not yet joined
    abort_since = {}  # future -> abort requested since the latest start returned
    step_thread = None
    n = 0
    verdict = None
    clients = set()
    for l in trace:
        n += 1
        t = l.split()
        if l.startswith("S "):
            step_thread = int(t[1])
        elif l.startswith("X "):
            bad.append(("posix-misuse:" + t[1], l))
        elif l.startswith("O body body "):
            bodydone[int(t[3])] = n
        elif l.startswith("O xchg ") and t[2].endswith(".state") and t[2][0] in "fg" and t[2][1].isdigit():
            fut = t[2].split(".")[0]
            if fut in pending:
                completed[pending[fut]] = n
        elif l.startswith("E "):
            tid, ev = int(t[1]), t[2]
            if ev == "create" and tid == 0:
                clients.add(int(t[3][1:]))
            elif ev == "rec-new":
                a = int(t[3])
                news[a] = news.get(a, 0) + 1
                if a in starts:
                    fut = starts[a][0]
                    # a re-start joins the previous call first: it must be complete before the new one is queued
                    pending[fut] = a
                    cur[fut] = a
            elif ev == "rec-del":
                a = int(t[3])
                dels[a] = dels.get(a, 0) + 1
                if a not in bodydone:
                    bad.append(("record-freed-before-body", l))
                if dels[a] > 1:
                    bad.append(("record-freed-twice", l))
            elif ev == "exec":
                a, b = int(t[3]), int(t[4])
                execs.setdefault(a, []).append((b, tid))
                if a not in starts:
                    bad.append(("exec-of-unknown-call", l))
                else:
                    if starts[a][1] != b:
                        bad.append(("wrong-arguments", l))
                    if tid in clients or tid == 0:
                        bad.append(("body-run-by-non-worker", l))
                if len(execs[a]) > 1:
                    bad.append(("executed-twice", l))
            elif ev == "started":
                abort_since[t[3]] = False
            elif ev == "abort":
                abort_since[t[3]] = True
            elif ev in ("joined", "result", "destroyed"):
                fut = t[3]
                a = pending.get(fut)
                if a is not None:
                    if a not in completed:
                        bad.append((f"{ev}-before-completion", l))
                    pending.pop(fut, None)
                if ev == "result":
                    a = cur.get(fut)
                    exp = (a * 100 + starts[a][1]) if a in starts else None
                    if exp is None or int(t[4]) != exp if t[4].lstrip("-").isdigit() else True:
                        bad.append(("wrong-result", l + f" expected={exp}"))
            elif ev == "query":
                fut = t[3]
                kv = dict(x.split("=") for x in t[4:])
                if fut in cur and fut not in pending:      # after join
                    if kv["aborted"] == "1" and not abort_since.get(fut, False):
                        bad.append(("aborted-without-abort", l))
                    if kv["aborted"] == "0" and kv["finished"] != "1":
                        bad.append(("not-finished-after-join", l))
        elif l.startswith("V "):
            verdict = t[1]
    end = trace[-1] if trace else "end lost"
    if verdict == "DEADLOCK":
        d = next((x for x in trace if x.startswith("D ")), "D ?")
        f = next((x for x in trace if x.startswith("F ")), "")
        bad.append(("deadlock", d + " ; " + f))
    elif verdict == "DONE":
        for a in starts:
            if len(execs.get(a, [])) != 1 and news.get(a, 0) >= 1:
                bad.append(("not-executed-exactly-once", f"call {a}: {len(execs.get(a, []))} executions"))
            if news.get(a, 0) >= 1 and dels.get(a, 0) != 1:
                bad.append(("record-not-freed-once", f"call {a}: {dels.get(a, 0)} deletes"))
        f = next((x for x in trace if x.startswith("F ")), "")
        if "live=0" not in f:
            bad.append(("records-leaked", f))
    elif verdict in ("BOUND", "RUNNING"):
        pass
    if end != "end 0" and not (verdict == "DEADLOCK" and end == "end 5") and not (verdict == "BOUND" and end == "end 6"):
        if not any(c.startswith("posix-misuse") for c, _ in bad) or "signal" in end or end.split()[1] in ("86", "87"):
            bad.append(("crash", end))
    return bad


def classify(bad, trace):
    """signature of a violation class (for known findings)"""
    cls = bad[0][0]
    if cls == "deadlock":
        f = next((x for x in trace if x.startswith("F ")), "")
        m = re.search(r"enq=(\d)/(\d) deq=(\d)/(\d)", f)
        if m and ((m.group(1), m.group(2)) == ("1", "0") or (m.group(3), m.group(4)) == ("1", "0")):
            side = "enq" if (m.group(1), m.group(2)) == ("1", "0") else "deq"
            return f"D17:fastsignal-state1-unsignaled:{side}"
        return "deadlock:other"
    return cls


if __name__ == "__main__":
    # ad-hoc experiment:  python3 tools/areas/future.py <harness exe> <n>
    exe, n = sys.argv[1], int(sys.argv[2])
    scn = Scn([["s0:11:5", "j0", "r0", "q0"], ["s1:12:6", "a1", "j1", "q1"]], q=2)
    reqs = [scn.request("rand", s) for s in range(1, n + 1)]
    t0 = time.time()
    traces, err = run_requests(exe, reqs)
    print("harness", time.time() - t0)
    t0 = time.time()
    outs = run_driver([driver_lines(scn, tr, False) for tr in traces])
    print("driver", time.time() - t0)
    nd = 0
    for tr, mo in zip(traces, outs):
        d = first_diff(impl_view(tr), mo)
        b = reference(scn, tr)
        if b:
            print("REF", b[:2])
        if d:
            nd += 1
            if nd <= 3:
                i = d[0]
                print("DIFF at", d)
                print("  impl :", impl_view(tr)[max(0, i - 6):i + 2])
                print("  model:", mo[max(0, i - 6):i + 2])
    print("diffs", nd, "of", len(traces))
