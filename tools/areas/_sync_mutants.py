#!/usr/bin/env python3
"""Self-test of the C11 check (not a registered command): seeds nineteen bugs into scratch copies of the
synchronisation sources / headers and runs the quick check on each.  Every mutant must be reported with a concrete failing
input by the independent reference (impl-vs-reference), otherwise the oracle has a hole.

    python3 tools/areas/_sync_mutants.py [mutant-name ...]        (NSTD_REPO = tree to mutate, default /repo)

Nothing under /verif/evidence or /verif/replays is touched (both are redirected to a scratch directory)."""
import os
import shutil
import sys
import tempfile
from pathlib import Path

# the script's own directory holds area modules named json.py, xml.py ...: keep it off the import path
sys.path = [p for p in sys.path if p and Path(p).resolve() != Path(__file__).resolve().parent]
sys.path.insert(0, str(Path(__file__).resolve().parents[1]))
import common as C          # noqa: E402
from areas import sync      # noqa: E402

MUTANTS = {
    "signal-wait-no-recheck": ("src/Signal.cpp",
        "    VERIFY(pthread_cond_wait((pthread_cond_t*)cdata, (pthread_mutex_t*)mdata) == 0);\n  }",
        "    VERIFY(pthread_cond_wait((pthread_cond_t*)cdata, (pthread_mutex_t*)mdata) == 0);\n"
        "    VERIFY(pthread_mutex_unlock((pthread_mutex_t*)mdata) == 0); return true;\n  }"),
    "signal-set-no-broadcast": ("src/Signal.cpp", "  VERIFY(pthread_cond_broadcast((pthread_cond_t*)cdata) == 0);\n", "\n"),
    "monitor-set-no-signal": ("src/Monitor.cpp", "  VERIFY(pthread_cond_signal((pthread_cond_t*)cdata) == 0);\n", "\n"),
    "monitor-wait-no-consume": ("src/Monitor.cpp",
        "    VERIFY(pthread_cond_wait((pthread_cond_t*)cdata, (pthread_mutex_t*)mdata) == 0);\n    if(signaled)\n    {\n      signaled = false;",
        "    VERIFY(pthread_cond_wait((pthread_cond_t*)cdata, (pthread_mutex_t*)mdata) == 0);\n    if(signaled)\n    {\n      "),
    "signal-deadline-no-carry": ("src/Signal.cpp",
        "  ts.tv_sec += timeout / 1000 + ts.tv_nsec / 1000000000;\n  ts.tv_nsec %= 1000000000;", "  ts.tv_sec += timeout / 1000;"),
    "sem-deadline-seconds-lost": ("src/Semaphore.cpp",
        "  ts.tv_sec += timeout / 1000 + ts.tv_nsec / 1000000000;", "  ts.tv_sec += ts.tv_nsec / 1000000000;"),
    "sem-eintr-returns-false": ("src/Semaphore.cpp", "      if(errno == EINTR)\n        continue;", "      "),
    "mutex-not-recursive": ("src/Mutex.cpp", "PTHREAD_MUTEX_RECURSIVE", "PTHREAD_MUTEX_NORMAL"),
    "thread-join-truncates-result": ("src/Thread.cpp", "  return (uint)(intptr_t)retval;", "  return (uint)(intptr_t)retval & 0x7fffffff;"),
    "thread-start-ignores-create-failure": ("src/Thread.cpp",
        "  if(pthread_create(&thread, 0, (void* (*) (void *)) proc, param) != 0)\n    return false;",
        "  if(pthread_create(&thread, 0, (void* (*) (void *)) proc, param) != 0)\n    return true;"),
    "thread-dtor-does-not-join": ("src/Thread.cpp", "  if(thread)\n    join();", "  thread = 0;"),
    "monitor-set-does-not-store-flag": ("src/Monitor.cpp", "  signaled = true;\n", "\n"),
    # round 7: the ENOSYS polling fallback, Thread::sleep, Monitor::tryLock, the Guards
    "sem-poll-sleeps-too-short": ("src/Semaphore.cpp", "    usleep(10 * 1000);", "    usleep(1 * 1000);"),
    "sem-poll-step-too-big": ("src/Semaphore.cpp", "i < timeout; i += 10)", "i < timeout; i += 20)"),
    "sem-poll-start-late": ("src/Semaphore.cpp", "for(int i = 0; i < timeout;", "for(int i = 5; i < timeout;"),
    "thread-sleep-wrong-unit": ("src/Thread.cpp", "  usleep(milliseconds * 1000);", "  usleep(milliseconds * 100);"),
    "monitor-trylock-blocks": ("src/Monitor.cpp", "  return pthread_mutex_trylock((pthread_mutex_t*)mdata) == 0;",
        "  return pthread_mutex_lock((pthread_mutex_t*)mdata) == 0;"),
    "mutex-guard-dtor-no-unlock": ("include/nstd/Mutex.hpp", "    ~Guard() { _mutex.unlock(); }", "    ~Guard() { }"),
    "monitor-guard-twait-returns-true": ("include/nstd/Monitor.hpp", "    bool wait(int64 timeout) {return _monitor.wait(timeout);}",
        "    bool wait(int64 timeout) {_monitor.wait(timeout); return true;}"),
}


def main():
    base = Path(os.environ.get("NSTD_REPO", "/repo"))
    names = sys.argv[1:] or list(MUTANTS)
    scratch = Path(tempfile.mkdtemp(prefix="sync-mutants-"))
    C.EVIDENCE, C.REPLAYS, C.BUILD = scratch / "evidence", scratch / "replays", scratch / "build"
    sync.stress = lambda ctx: None            # the mutants are to be caught by the controlled runs
    missed = []
    try:
        for name in names:
            f, old, new = MUTANTS[name]
            d = scratch / name
            shutil.copytree(base, d, ignore=shutil.ignore_patterns(".git", "_build"))
            src = (d / f).read_text()
            if old not in src:
                print(f"{name}: pattern not found in {f} (source changed) - skipped")
                continue
            (d / f).write_text(src.replace(old, new, 1))
            C.REPO = d
            ctx = C.Ctx("C11", "quick", 1)
            ctx.log = lambda msg: None
            sync.check(ctx)
            concrete = [v for v in ctx.violations if not v["no_input"]]
            what = ""
            if concrete:
                txt = Path(concrete[0]["replay"]).read_text().splitlines()
                what = " | ".join(l for l in txt if l.startswith(("scen", "run", "rrun", "# ref")))[:400]
            print(f"{name}: {'CAUGHT' if concrete else 'MISSED'} {what}")
            if not concrete:
                missed.append(name)
    finally:
        shutil.rmtree(scratch, ignore_errors=True)
    print(f"{len(names) - len(missed)}/{len(names)} mutants caught with a concrete failing input")
    return 1 if missed else 0


if __name__ == "__main__":
    sys.exit(main())
