"""C09  Shared payloads are released exactly once, after their last handle (single-threaded histories
and interleavings of threads owning distinct handles to common payloads)."""
import itertools
import common as C
import gen_rc

PROPERTIES = ["C09"]
MANIFEST = {
    "C09": {
        "technique": "Lean 4 proof (inductive invariant over all reachable states of an interleaving transition system of "
                     "the atomic reference-count steps, any number of threads/handles/schedules; single-threaded API "
                     "histories as the special case) + differential correspondence of the model with the real String / "
                     "Variant / Xml::Variant / RefCount::Ptr code under a ledger allocator and a controlled scheduler + tie by "
                     "translation: tools/gen_rc.py re-translates 25 acquire / release / exchange bodies of the current headers on "
                     "every run and Lean proves their interpretation equal to the model's step lists (PropsTie.lean)",
        "text": "Theorems (Props.lean) over every reachable state of the Lean model (heap of counted blocks, handle slots owned by "
                "threads - top-level variables/temporaries and a FAMILY of handle slots embedded in every payload block -, atomic steps "
                "inc / dec-and-test / plain counter read / alloc / in-place write / free, and on embedded handles incE / takeE / putE / takeF / "
                "adoptF): mt_safe, mt_ref_inflight, mt_safe_nested, mt_step_safe, mt_write_sole, mt_view_stable, mt_sched_safe, "
                "mt_quiescent_no_leak for all thread counts, programs and schedules the step guards admit; for every slot of the embedded "
                "family: mt_embedded_write_sole, mt_embedded_take_on_release, mt_embedded_stable, mt_embedded_owner_stable, "
                "mt_embedded_access_live (embedded handles are replaced only by the sole owner, taken out only by the releasing thread, "
                "read-only while shared, never accessed inside a released block); enabledness under interleaving (mt_frame, "
                "mt_plan_stable, mt_step_enabled, mt_call_enabled_pre/post/done) for the String/Variant/Xml::Variant calls; "
                "single-threaded ref_counts_handles, freed_once_after_last, no_inplace_write_while_shared, st_write_sole, st_quiet for all "
                "accepted API histories, and nested_st_quiet, nested_ref_counts_handles, nested_ref_split, nested_freed_once_after_last, "
                "nested_no_inplace_write_while_shared, nested_states_reachable, and cascade completeness nested_no_leak (no handle is left "
                "inside a released block, no live block without a handle; all calls except d->next = s) for all accepted histories of the "
                "calls on payloads with "
                "SEVERAL embedded handles (list payloads holding shared Variants: append of a Variant variable, element read incl. from "
                "the own payload, clone on mutable access = one increment per inner payload, in-place operator=(List) releasing the old "
                "elements; the same for Array<Variant> payloads; Xml elements with children: append, child read, clone; all executed with "
                "the destructor cascade runC: the "
                "releasing thread adopts the embedded handles, deletes the block, releases each of them, recursively); for ANY interleaving "
                "of any number of threads running such step lists with the cascade (SReach): mt_orphans_pending (every handle left in a "
                "released block has its decrement pending in the list of the thread that adopted it) and mt_no_leak_quiescent (when no "
                "thread is inside a call no released block contains a handle); totality: "
                "apiRun_total_partial / apiRun_total_noNext (String/Variant/Xml::Variant calls and Ptr calls on objects WITHOUT a next "
                "handle are never rejected; calls that create or walk next handles and the nested calls: acceptance is a hypothesis, "
                "validated by examples and by the correspondence run); no_use_after_drop now for ALL calls of Model.lean incl. every "
                "RefCount::Ptr call and the cascade relP (ptr_stale_ok: for every object graph the step list never reads a handle between "
                "the decrement through it and the store that overwrites it = the order of Ptr::operator= repaired by D37). Round 7: (a) TIE BY TRANSLATION: tools/gen_rc.py "
                "parses (tokenizer + recursive-descent parser, refusing everything outside its subset) the CURRENT bodies of String(), "
                "String(const char(&)[N]), String(const String&), ~String(), String::operator=, String::attach; Variant(), Variant(const "
                "Variant&), ~Variant(), Variant::clear(), Variant::operator=(const Variant&); the same five of Xml::Variant; RefCount::Ptr(), "
                "Ptr(const Ptr&), Ptr(D*), Ptr(const Ptr<D>&), ~Ptr(), the three Ptr::operator= and Ptr::swap into values of a small statement "
                "language (Ir.lean: bind / increment / release / store / allocate-copy / fill-inline / if over counted, static, not-self) in "
                "lean/Nstd/Generated/RcBodies.lean; PropsTie.lean (theorems tie_*) proves for EVERY state that the interpretation Ir.sem of "
                "these bodies is the step list pre of the model's call (sCopy, sAssign, sDel, sLit, sLitU, vCopy, vClear, vAssign, xCopy, xClear, "
                "xAssign, pCopy, pAssign, pClear, pSwap) up to the no-op marker clr, and that every Ptr body treats obj like refObj "
                "(tie_Ptr_fields_mirror): an increment moved behind the release, a missing increment, a release through the wrong handle, a "
                "one-field swap changes the generated value and the equalities no longer check. (b) New calls in model, theorems and "
                "correspondence: String(usize capacity), attach to unterminated memory + operator const char*() (both overloads), toUpperCase, "
                "Variant(const String&/List&/Array&/HashMap&), Xml::Variant(const String&/Element&) as calls of the model (ApiOp gNew / gEdit, see below; covered by all "
                "nested_* theorems; mt_calls_admitted: every call may be started by any thread of SReach); "
                "String(literal), append(const String&), append(char), operator+=, prepend(const String&), detach() are driven on the real "
                "class and resolved by the driver, in the state in which the call starts, to the model calls sLit / sAppend / sPrepend / sEdit "
                "whose step lists they share. Second leg: the bodies WITH the plain counter read are translated too (37 bodies: String::clear, "
                "detach, the four mutable accessors and operator=(T) of Variant, Xml::Variant operator=(String) and toElement; the allocation is "
                "followed to its copy statement, so clear() before the copy changes the translation; a local holding the counter is refused) and "
                "tie_String_detach / _detach_edit / _prepend / _clear, tie_Variant_toString_toMap, tie_Variant_toList_toArray, tie_assignT, "
                "tie_XmlVariant_toElement prove pre = body up to the read and post = body from the read on (decided by isWriting) for every state; "
                "the round-7 calls are ApiOp constructors gNew / gEdit with flatOp = true, so totality, mt_call_enabled_*, no_use_after_drop "
                "quantify over them; the String inside a box as a real embedded handle (tagVStrN; vSetS, sFromV, vAppS = in-place write through "
                "the embedded handle built from takeE / String call / putE) is MODELLED and under the nested_* / Reach theorems but not tied "
                "to the code (no harness op). NOT covered "
                "by any C09 theorem: in-place writes through an embedded handle, the String inside a Variant/Xml::Variant box (flat "
                "content, hence the cross-kind calls Variant = String variable / String = variant.toString()), boxed elements of "
                "map payloads and Xml attributes, cascade completeness for d->next = s on a shared object. The model is tied to the current headers on every run: identical op lines are executed by "
                "the compiled model and by a harness over the real classes whose allocator is a ledger (per payload: live flag, white-box "
                "counter, number of releases, embedded handles; per handle: designated payload and content), single-threaded (exhaustive "
                "small scope + random histories) and multi-threaded (2-3 threads with random programs over their own handles, atomics and "
                "hooked counter reads as scheduling points - including every element decrement of a destructor cascade -, random "
                "schedules and all schedules of the first 10 points), comparing per-step counter values and final states; an independent "
                "Python oracle checks value semantics (nested values through the embedded handles), the object graph and ledger "
                "consistency on the implementation's output.",
        "note": "Trusted: Lean kernel + the three standard axioms; the hand translation of the API calls into step sequences "
                "(Model.lean pre/post, Nested.lean preN/postN/runC), validated by the correspondence run only EXCEPT for the 15 calls whose "
                "pre lists PropsTie.lean proves equal to the interpretation of the translated bodies; for those the trusted part is the "
                "translator's statement patterns (tools/gen_rc.py) and the generic interpretation Ir.exec/Ir.sem (what a pointer variable "
                "denotes; increment through `data` after `data = other.data` = inc d s, through a local = inc T s and the later store = move; "
                "release = dec; free, for Ptr the model's relP incl. the destructor of the harness' Node; allocation = alloc with the measured "
                "capacity; the position of clr is not compared). Variant::swap is translated as a sequence of calls of translated members (tie_Variant_swap). Measured parameters of the "
                "model (harness --probe on the real class, recorded in the evidence, used by no theorem about the property): the capacity tables, "
                "growTab (growth of a sole owner's block), assignEmptyStatic and assignSameSkip (policies of String::operator=; tie_String_assign "
                "holds for the policies the translated body has). STILL hand-translated and only tied by the correspondence run: "
                "the callers' byte copies around detach, the container code behind embedded handles, the resolution constSkip of operator const "
                "char*() in the driver, and the mapping of the resolved op lines "
                "(append(const String&) etc.) to model calls; sequentially consistent "
                "atomics (__sync_* are full barriers) - TSO/compiler reordering of the plain counter reads is not modelled; payload "
                "content is flat except for the embedded handles of RefCount objects (next), Variant list payloads (boxed elements) and "
                "Xml elements (children); the String inside a Variant/Xml::Variant block, element type/attributes and the list/array/map "
                "nodes are internal allocations, checked only by the ledger's leak/double-free accounting at the end of each history; "
                "the model deletes a dying container before it releases its elements (the real code after: the place of the plain "
                "delete[] is not observable); at most 4 boxed elements / children per payload and no null element in the drivers' "
                "layout (the calls are rejected alike by harness, model and oracle beyond that); String::printf, resize and the writes to "
                "next handles (plink) are exercised single-threaded only; allocation never fails; the controlled "
                "interleavings of plain counter reads need the add-only hook patch fixes/rc/hook-01 (without it those reads "
                "execute together with the preceding atomic step, and the model is run the same way). Partial: apiRun_total_partial, "
                "apiStep_total_partial (no totality for next-walking and nested calls; the cross-kind calls vSetS / sFromV / vAppS are model-only: "
                "no tie, and the read of the inner counter is decided at the read of the box counter).",
        "design_ref": "DESIGN.md 3/C09",
    }
}
PROPS = ["Nstd.Rc.Props", "Nstd.Rc.PropsTie"]
DRIVER = "drv_rc"
LEAN_TARGETS = PROPS + [DRIVER]


def gen(ctx):
    """tie by translation: the acquire / release / exchange bodies of the CURRENT String.hpp, Variant.hpp, Document/Xml.hpp and
    RefCount.hpp -> lean/Nstd/Generated/RcBodies.lean (tools/gen_rc.py); a body outside the understood subset is refused"""
    ok, msg = gen_rc.run(C.REPO)
    if ctx is not None:
        ctx.cov.setdefault("translated", msg)
        ctx.log("translator: " + msg)
    return ok, msg


def setup():
    ok, msg = gen_rc.run(C.REPO)
    if not ok:
        print("rc translate:", msg)
SOURCES = ["rc.cpp", C.REPO / "src/String.cpp", C.REPO / "src/Variant.cpp", C.REPO / "src/Memory.cpp"]
MAXLEN = 24          # payload strings stay short (line length only; payloads are not recognised by size)


def hexs(bs):
    return "-" if not bs else "".join(f"{b:02x}" for b in bs)


def unhex(t):
    return [] if t == "-" else [int(t[i:i + 2], 16) for i in range(0, len(t), 2)]


# ---- reference: value semantics per handle + ledger consistency (the property's oracle) -------------
import json
LITS = [b"", b"ab", b"abcd"]    # the literals of `slitc` (harness / Driver.lean `lits`: the same table)
FAMK = 4    # boxed elements / children per payload in the slot layout of the model (harness: FAMK)


def vboxed(v):
    return v[0] in ("s", "l", "a", "m")


def ival(x):
    return ("i", x)


class Ref:
    """Variant values: ("n",) ("i",x) ("s",bytes) ("l",(values..)) ("a",(ints..)) ("m",(k,v,..));
    Xml values: ("n",) ("t",bytes) ("e",type bytes,(children values..))"""

    def __init__(self):
        self.S = [[] for _ in range(4)]
        self.V = [("n",)] * 4
        self.X = [("n",)] * 4
        self.P = [None] * 4
        self.objs = {}          # id -> [val, next id or None, number of handles, alive]
        self.nobj = 0

    # reference counting on the object graph (cycles stay alive: that is what counted handles mean)
    def _acq(self, o):
        if o is not None:
            self.objs[o][2] += 1

    def _rel(self, o):
        while o is not None:
            ob = self.objs[o]
            ob[2] -= 1
            if ob[2] > 0:
                return
            ob[3] = False
            o, ob[1] = ob[1], None

    def _set(self, d, o):
        self._acq(o)
        self._rel(self.P[d])
        self.P[d] = o

    def apply(self, t):
        op = t[0]
        d = int(t[1])
        a = t[2] if len(t) > 2 else None
        S, V, X, P = self.S, self.V, self.X, self.P
        if op in ("snew", "slit", "sset", "slitu"): S[d] = unhex(a)
        elif op == "slitc":
            if int(a) >= len(LITS):
                return False
            S[d] = list(LITS[int(a)])
        elif op == "scap": S[d] = []
        elif op in ("sconst", "sconstm", "sdetach"): pass
        elif op in ("sapps", "spluss"): S[d] = S[d] + S[int(a)]
        elif op in ("sappc", "splusc"): S[d] = S[d] + [int(a)]
        elif op == "spreps": S[d] = S[int(a)] + S[d]
        elif op == "supper": S[d] = [c - 32 if 97 <= c <= 122 else c for c in S[d]]
        elif op == "sprepend": S[d] = unhex(a) + S[d]
        elif op == "sresize":
            if int(a) > len(S[d]):
                return False
            S[d] = S[d][:int(a)]
        elif op == "sreplace": S[d] = [int(t[3]) if c == int(a) else c for c in S[d]]
        elif op == "slower": S[d] = [c + 32 if 65 <= c <= 90 else c for c in S[d]]
        elif op == "schar": pass
        elif op == "sprintf": S[d] = list(str(int(a)).encode())
        elif op in ("scopy", "sassign"): S[d] = list(S[int(a)])
        elif op in ("sclear", "sdel"): S[d] = []
        elif op == "sappend": S[d] = S[d] + unhex(a)
        elif op == "sreserve": pass
        elif op in ("vcopy", "vassign"): V[d] = V[int(a)]
        elif op == "vclear": V[d] = ("n",)
        elif op == "vseti": V[d] = ("i", int(a))
        elif op in ("vsets", "vctors"): V[d] = ("s", tuple(unhex(a)))
        elif op == "vapp":
            v = V[d]
            base = v[1] if v[0] == "s" else tuple(str(v[1]).encode()) if v[0] == "i" else ()
            V[d] = ("s", tuple(base) + tuple(unhex(a)))
        elif op == "vpush":
            v = V[d]
            V[d] = ("l", (v[1] if v[0] == "l" else ()) + (("i", int(a)),))
        elif op in ("vsetl", "vctorl"): V[d] = ("l", (("i", int(a)),))
        elif op == "vpushv":
            s_ = int(a)
            cur = V[d][1] if V[d][0] == "l" else ()
            if d == s_ or V[s_][0] == "n" or (vboxed(V[s_]) and len(cur) >= FAMK):
                return False
            V[d] = ("l", cur + (V[s_],))
        elif op == "vgetv":
            v = V[int(a)]
            if v[0] != "l" or int(t[3]) >= len(v[1]):
                return False
            V[d] = v[1][int(t[3])]
        elif op == "vpusha":
            v = V[d]
            V[d] = ("a", (v[1] if v[0] == "a" else ()) + (("i", int(a)),))
        elif op in ("vseta", "vctora"): V[d] = ("a", (("i", int(a)),))
        elif op == "apushv":
            s_ = int(a)
            cur = V[d][1] if V[d][0] == "a" else ()
            if d == s_ or V[s_][0] == "n" or (vboxed(V[s_]) and len(cur) >= FAMK):
                return False
            V[d] = ("a", cur + (V[s_],))
        elif op == "agetv":
            v = V[int(a)]
            if v[0] != "a" or int(t[3]) >= len(v[1]):
                return False
            V[d] = v[1][int(t[3])]
        elif op in ("vputm", "vsetm", "vctorm"):
            v = V[d]
            cur = list(v[1]) if v[0] == "m" and op == "vputm" else []
            k, x = int(a), int(t[3])
            for i in range(0, len(cur), 2):
                if cur[i] == k:
                    cur[i + 1] = x
                    break
            else:
                cur += [k, x]
            V[d] = ("m", tuple(cur))
        elif op == "vswap": V[d], V[int(a)] = V[int(a)], V[d]
        elif op in ("xcopy", "xassign"): X[d] = X[int(a)]
        elif op == "xclear": X[d] = ("n",)
        elif op in ("xsets", "xctors"): X[d] = ("t", tuple(unhex(a)))
        elif op == "xctore": X[d] = ("e", tuple(unhex(a)), ())
        elif op == "xelem": X[d] = ("e", tuple(unhex(a)), X[d][2] if X[d][0] == "e" else ())
        elif op == "xaddc":
            s_ = int(a)
            cur = X[d][2] if X[d][0] == "e" else ()
            if d == s_ or X[s_][0] == "n" or len(cur) >= FAMK:
                return False
            X[d] = ("e", X[d][1] if X[d][0] == "e" else (), cur + (X[s_],))
        elif op == "xgetc":
            x = X[int(a)]
            if x[0] != "e" or int(t[3]) >= len(x[2]):
                return False
            X[d] = x[2][int(t[3])]
        elif op == "pnew":
            self.nobj += 1
            self.objs[self.nobj] = [int(a), None, 0, True]
            self._set(d, self.nobj)
        elif op in ("pcopy", "passign", "praw", "pctor"):
            if d >= 2 and int(a) < 2:
                return False
            self._set(d, P[int(a)])
        elif op == "pclear": self._set(d, None)
        elif op == "pswap":
            if (d < 2) != (int(a) < 2):
                return False
            P[d], P[int(a)] = P[int(a)], P[d]
        elif op == "plink":
            if P[d] is None:
                return False
            o, new = self.objs[P[d]], P[int(a)]
            self._acq(new)
            old, o[1] = o[1], new
            self._rel(old)
        elif op in ("pnext", "prawnext"):
            if d >= 2 or P[d] is None:
                return False
            self._set(d, self.objs[P[d]][1])
        elif op == "pnextof":
            if d >= 2 or P[int(a)] is None:
                return False
            self._set(d, self.objs[P[int(a)]][1])
        else:
            return False
        return True

    def clear_all(self):
        for d in range(4):
            self._set(d, None)
        alive = sum(1 for o in self.objs.values() if o[3])
        self.__init__()
        return alive

    def line(self):
        ps = [None if p is None else [p, self.objs[p][0]] for p in self.P]
        g = {str(i): [o[0], o[1], o[2]] for i, o in sorted(self.objs.items()) if o[3]}
        return "V " + json.dumps({"S": self.S, "V": self.V, "X": self.X, "P": ps, "G": g}, separators=(",", ":"))


def reference(hist):
    r = Ref()
    out = []
    progs = {}
    for line in hist:
        t = line.split()
        if t[0] == "end":
            out.append(f"end live={r.clear_all()} bad=0")
        elif t[0] in ("hooks", "give"):
            out.append("ok")
        elif t[0] == "prog":
            progs.setdefault(t[1], []).append(t[2:])
            out.append("ok")
        elif t[0] == "run":
            # threads own disjoint handles and every handle is an independent value: the result does
            # not depend on the interleaving
            for k in sorted(progs):
                for o in progs[k]:
                    r.apply(o)
            progs = {}
            out.append(r.line())
        elif r.apply(t):
            out.append(r.line())
        else:
            out.append("bad-op")
    return out


def parse_obs(impl):
    """observation -> (handle tokens, {pid: (state, ref, tag, bytes, embedded handle tokens or None)}, live, bad) or None"""
    if " # " in impl:
        impl = impl.split(" # ", 1)[1]
    parts = impl.split(" | ")
    if len(parts) != 3:
        return None
    hs = parts[0].split(" ")
    if len(hs) != 16:
        return None
    table = {}
    if parts[1] != "-":
        for tok in parts[1].split(" "):
            f = tok.split(":")
            if len(f) == 2:
                table[int(f[0])] = (f[1], 0, -1, [], None)
            elif len(f) == 5:
                c = f[4].split(">")
                embs = None if len(c) < 2 else [] if c[1] == "-" else c[1].split(",")
                table[int(f[0])] = (f[1], int(f[2]), int(f[3]), unhex(c[0]), embs)
            else:
                return None
    tail = dict(x.split("=") for x in parts[2].split(" "))
    return hs, table, int(tail["live"]), int(tail["bad"])


_EQ_CACHE = {}


def ref_eq(impl, ref):
    """the property evaluated on the implementation's observation line (memoised: the exhaustive scopes share prefixes and
    the schedules of one scenario mostly share their final observation)"""
    if not ref.startswith("V "):
        return impl == ref
    if " # " in impl:
        impl = impl.split(" # ", 1)[1]
    key = (impl, ref)
    r = _EQ_CACHE.get(key)
    if r is None:
        if len(_EQ_CACHE) > 300000:
            _EQ_CACHE.clear()
        r = _EQ_CACHE[key] = ref_eq_uncached(impl, ref)
    return r


def ref_eq_uncached(impl, ref):
    try:
        p = parse_obs(impl)
    except (ValueError, KeyError, IndexError):
        return False
    if p is None:
        return False
    hs, table, live, bad = p
    want = json.loads(ref[2:])
    if bad != 0:
        return False
    count = {}
    objpid = {}

    def pid_of(tok, counted):
        """handle token -> pid / None; raises on dangling or inconsistent handles"""
        if tok == "n":
            return None
        if not (tok.startswith("b") and tok[1:].isdigit()):
            raise ValueError(tok)                   # `X`, `b1!b2`
        pid = int(tok[1:])
        if pid not in table or table[pid][0] != "L":
            raise ValueError(tok)                   # designates a released payload
        if counted:
            count[pid] = count.get(pid, 0) + 1
        return pid

    def chk_v(tok, v, top):
        """a Variant handle (variable or list element) holds the value v"""
        if v[0] == "n":
            return tok == "n"
        if v[0] == "i":
            return tok == ("i11." + hexs([v[1]])) if top else tok == "n"
        pid = pid_of(tok, False)
        if pid is None:
            return False
        _, _, tag, val, embs = table[pid]
        if v[0] in ("s", "m"):
            return tag == {"s": 12, "m": 15}[v[0]] and val == list(v[1])
        if tag != {"l": 13, "a": 14}[v[0]] or embs is None or len(embs) != len(v[1]) or len(val) != len(v[1]):
            return False
        for e, byte, tk in zip(v[1], val, embs):
            if byte != (e[1] if e[0] == "i" else 0):
                return False
            if not chk_v(tk, e, False):
                return False
        return True

    def chk_x(tok, x):
        if x[0] == "n":
            return tok == "n"
        pid = pid_of(tok, False)
        if pid is None:
            return False
        _, _, tag, val, embs = table[pid]
        if x[0] == "t":
            return tag == 22 and val == list(x[1])
        if tag != 23 or val != list(x[1]) or embs is None or len(embs) != len(x[2]):
            return False
        return all(chk_x(tk, c) for tk, c in zip(embs, x[2]))

    try:
        # every handle designates a live payload: the 16 variables and, once per live payload, its embedded handles
        tops = []
        for h in hs:
            tops.append(None if (h.startswith("i") and "." in h) else pid_of(h, True))
        emb = {}
        for pid, e in table.items():
            if e[0] == "L" and e[4] is not None:
                emb[pid] = [pid_of(tk, True) for tk in e[4]]
        for k in range(4):
            h, w = hs[k], want["S"][k]
            if h.startswith(("i0.", "i1.")):      # inline: attached memory / literal (i1 = not terminated)
                val = unhex(h[3:])
            elif tops[k] is None:
                if h != "n":
                    return False
                val = []
            else:
                if table[tops[k]][2] != 0:
                    return False
                val = table[tops[k]][3]
            if val != w:
                return False
        for k in range(4):
            if not chk_v(hs[4 + k], want["V"][k], True):
                return False
            if not chk_x(hs[8 + k], want["X"][k]):
                return False
        for k in range(4):
            w, h, pid = want["P"][k], hs[12 + k], tops[12 + k]
            if w is None:
                if h != "n":
                    return False
            elif pid is None or objpid.setdefault(str(w[0]), pid) != pid:
                return False                        # copies of one Ptr designate different objects
        # the object graph: same shape, values and counters as the reference graph
        objs = want["G"]
        todo = list(objpid)
        while todo:
            oid = todo.pop()
            pid = objpid[oid]
            v, nxt, rc = objs[oid]
            if table[pid][2] != 30 or table[pid][3] != [v] or table[pid][1] != rc or len(emb.get(pid, [])) != 1:
                return False
            if nxt is None:
                if emb[pid][0] is not None:
                    return False
            else:
                if emb[pid][0] is None:
                    return False
                if str(nxt) in objpid:
                    if objpid[str(nxt)] != emb[pid][0]:
                        return False
                else:
                    objpid[str(nxt)] = emb[pid][0]
                    todo.append(str(nxt))
        if len(set(objpid.values())) != len(objpid):
            return False                            # distinct objects share a payload
    except (ValueError, KeyError, IndexError, TypeError):
        return False
    # ledger: counter = number of handles (variables + handles embedded in live payloads), released exactly once
    # after the last handle, no leak
    nlive = 0
    for pid, e in table.items():
        state, ref_ = e[0], e[1]
        if state == "L":
            nlive += 1
            if ref_ != count.get(pid, 0) or ref_ < 1:
                return False
        elif state == "F":
            if pid in count:
                return False
        else:
            return False                            # released more than once
    return live == nlive


reference.eq = ref_eq


# ---- generators -------------------------------------------------------------------------------------
KINDS = "svxp"
OPS = {
    "s": ["snew", "slit", "scopy", "sassign", "sclear", "sappend", "sreserve", "sdel", "sset",
          "sprepend", "sresize", "sreplace", "slower", "schar", "sprintf",
          "slitc", "scap", "slitu", "sconst", "sconstm", "sdetach", "sapps", "spluss", "sappc", "splusc", "spreps", "supper"],
    "v": ["vcopy", "vassign", "vclear", "vseti", "vsets", "vapp", "vpush", "vswap", "vsetl", "vpusha", "vseta", "vputm", "vsetm",
          "vpushv", "vgetv", "apushv", "agetv", "vctors", "vctorl", "vctora", "vctorm"],
    "x": ["xcopy", "xassign", "xclear", "xsets", "xelem", "xaddc", "xgetc", "xctors", "xctore"],
    "p": ["pnew", "pcopy", "passign", "pclear", "pswap", "praw", "pctor", "plink", "pnext", "pnextof", "prawnext"],
}
ST_ONLY = {"sprintf", "sresize", "plink", "apushv", "agetv"}   # Array growth re-copies the elements: single-threaded only   # not in thread programs (see docs/rc.md)
W = {
    "s": [3, 1, 4, 4, 2, 5, 2, 2, 2, 2, 2, 2, 2, 2, 1] + [1, 1, 2, 2, 2, 1, 3, 2, 2, 2, 2, 2],
    "v": [4, 4, 2, 2, 3, 4, 3, 2, 2, 3, 1, 3, 1, 6, 4, 4, 3] + [2, 1, 1, 1], "x": [4, 4, 2, 3, 4, 5, 3] + [2, 2],
    "p": [3, 4, 4, 2, 3, 2, 2, 4, 3, 2, 2],
}
TWO = {"scopy", "sassign", "vcopy", "vassign", "vswap", "xcopy", "xassign", "pcopy", "passign", "pswap", "praw", "pctor",
       "plink", "pnextof", "vpushv", "xaddc", "apushv", "sapps", "spluss", "spreps"}
GET = {"vgetv", "xgetc", "agetv"}
ONE = {"sclear", "sdel", "vclear", "xclear", "pclear", "slower", "schar", "pnext", "prawnext", "sconst", "sconstm", "sdetach", "supper"}
NUM = {"sreserve", "vseti", "vpush", "vsetl", "pnew", "sresize", "sprintf", "vpusha", "vseta", "vctorl", "vctora"}
NUM2 = {"sreplace", "vputm", "vsetm", "vctorm"}
assert all(len(OPS[k]) == len(W[k]) for k in OPS)


def rbytes(rng, n):
    return hexs([rng.choice([0x61, 0x62, 0x63, 0x7a, 0x30, 0x20, 0xe4, 0x41, 0x5a]) for _ in range(n)])


def cur_len(r, kind, d):
    if kind == "s":
        return len(r.S[d])
    v = r.V[d] if kind == "v" else r.X[d]
    if kind == "v" and v[0] == "i":
        return 3
    if kind == "v" and v[0] in ("l", "a"):
        return len(v[1])
    return len(v[1]) if len(v) > 1 and isinstance(v[1], tuple) else 0


def gen_op(rng, r, kind, handles, mt=False, setup=False):
    """one op of `kind` over the given handle indices, keeping payload strings short and the call well-typed
    (a rejected candidate is not emitted: Ref.apply returns False for it)"""
    for _ in range(40):
        op = rng.choices(OPS[kind], W[kind])[0]
        if mt and op in ST_ONLY and not (setup and op == 'plink'):
            continue
        d = rng.choice(handles)
        grow = 0
        if op in TWO:
            s_ = rng.choice(handles)
            grow = len(r.S[s_]) if op in ("sapps", "spluss", "spreps") else 0      # d == s doubles the value
            line = f"{op} {d} {s_}"
        elif op in ONE:
            line = f"{op} {d}"
        elif op in GET:
            line = f"{op} {d} {rng.choice(handles)} {rng.choice([0, 0, 1, 2, 3])}"
        elif op == "sresize":
            line = f"{op} {d} {rng.randrange(len(r.S[d]) + 1)}"
        elif op in ("sreserve", "scap"):
            line = f"{op} {d} {rng.choice([0, 1, 3, 4, 7, 8, 20])}"
        elif op == "slitc":
            line = f"{op} {d} {rng.choice([0, 1, 2])}"
        elif op in ("sappc", "splusc"):
            grow = 1
            line = f"{op} {d} {rng.choice([0x61, 0x62, 0x41, 0x7a, 0x30])}"
        elif op in NUM:
            grow = 1 if op in ("vpush", "vpusha") else 0
            line = f"{op} {d} {rng.choice([0, 1, 2, 7, 9, 16, 40, 255])}"
        elif op in NUM2:
            grow = 2 if op == "vputm" else 0
            a, b = (rng.choice([0x61, 0x62, 0x41, 0x7a]), rng.choice([0x61, 0x62, 0x58])) if op == "sreplace" else \
                   (rng.choice([0x61, 0x62, 0x63]), rng.choice([0, 1, 7, 200]))
            line = f"{op} {d} {a} {b}"
        else:
            n = rng.choice([0, 1, 1, 2, 3])
            grow = n if op in ("sappend", "vapp", "sprepend") else 0
            line = f"{op} {d} {rbytes(rng, n)}"
        if grow and cur_len(r, kind, d) + grow > MAXLEN:
            continue
        if r.apply(line.split()):
            return line
    line = f"{kind}clear {d}"
    r.apply(line.split())
    return line


def gen_history(rng, length):
    r = Ref()
    h = []
    kinds = rng.choice(["s", "v", "x", "p", "sv", "xp", "svxp", "svxp"])
    nh = rng.choice([2, 3, 4])
    for _ in range(length):
        h.append(gen_op(rng, r, rng.choice(kinds), list(range(nh))))
    h.append("end")
    return h


SMALL = {
    "s": ["snew 0 6162", "slit 0 61", "scopy 1 0", "scopy 0 1", "sassign 1 0", "sassign 0 1", "sassign 0 0", "sclear 0", "sclear 1",
          "sappend 0 63", "sappend 1 6465", "sreserve 0 8", "sdel 0", "sdel 1", "sset 0 67",
          "sprepend 0 41", "sresize 0 1", "sreplace 0 97 88", "slower 0", "schar 0", "sprintf 1 7"],
    "v": ["vsets 0 61", "vseti 0 7", "vcopy 1 0", "vassign 1 0", "vassign 0 1", "vassign 0 0", "vclear 0", "vclear 1", "vapp 0 62",
          "vapp 1 63", "vpush 0 1", "vpush 1 2", "vswap 0 1", "vswap 0 0", "vsets 1 -", "vsetl 0 3",
          "vpusha 0 4", "vpusha 1 5", "vseta 0 6", "vputm 0 97 1", "vputm 1 97 2", "vsetm 0 98 3",
          "vpushv 0 1", "vpushv 1 0", "vgetv 1 0 0", "vgetv 0 0 0", "vgetv 0 0 1"],
    "x": ["xsets 0 61", "xelem 0 62", "xcopy 1 0", "xassign 1 0", "xassign 0 1", "xassign 0 0", "xclear 0", "xclear 1", "xsets 1 63",
          "xelem 1 64", "xelem 1 -", "xaddc 0 1", "xaddc 1 0", "xgetc 1 0 0", "xgetc 0 0 0"],
    "a": ["vsets 0 61", "vseti 1 7", "apushv 0 1", "apushv 1 0", "agetv 1 0 0", "agetv 0 0 0", "vpusha 0 4", "vseta 0 6",
          "vcopy 1 0", "vclear 0", "vclear 1", "vassign 0 1"],
    # round 7: the remaining String constructors / conversion operators / append-prepend overloads, and the box constructors
    "t": ["snew 0 6162", "scopy 1 0", "sclear 0", "sappend 0 63", "sdel 0", "slitc 0 1", "scap 0 8", "slitu 0 6162", "sconst 0",
          "sconstm 0", "sdetach 0", "sapps 0 1", "sapps 0 0", "sappc 1 99", "spreps 1 0", "supper 0"],
    "w": ["vctors 0 61", "vctorl 0 3", "vctora 0 4", "vctorm 0 97 1", "vcopy 1 0", "vctors 1 62", "vclear 0", "vapp 0 62",
          "vpush 0 1", "vassign 1 0", "xctors 0 61", "xctore 0 62", "xcopy 1 0", "xelem 1 64", "xclear 0", "xassign 0 1"],
    "p": ["pnew 0 1", "pnew 1 2", "pcopy 1 0", "pcopy 2 0", "passign 1 0", "passign 0 1", "passign 0 0", "pclear 0", "pclear 1",
          "pswap 0 1", "pswap 0 0", "pnew 2 3", "passign 0 2", "pctor 1 2", "praw 0 2", "plink 0 1", "plink 1 0", "plink 0 0",
          "plink 0 2", "pnext 0", "pnext 1", "pnextof 1 0", "pclear 2", "prawnext 0"],
}


def exhaustive(depth, rng, limit):
    hs = []
    for k in SMALL:
        for dd in range(1, depth + 1):
            for p in itertools.product(SMALL[k], repeat=dd):
                hs.append(list(p) + ["end"])
    if limit and len(hs) > limit:
        rng.shuffle(hs)
        hs = hs[:limit]
    return hs


def slot(kind, i):
    return KINDS.index(kind) * 4 + i


def gen_mt_scenario(rng, hooks, nt=None, nkinds=None):
    """setup by the main thread (payloads shared over the handles of one or two kinds), hand-over,
    2-3 thread programs over their own handles"""
    r = Ref()
    kinds = rng.sample(KINDS, nkinds or rng.choice([1, 1, 1, 2]))
    h = [f"hooks {hooks}"]
    nt = nt or rng.choice([2, 2, 3])
    own = {t: [] for t in range(1, nt + 1)}       # thread -> [(kind, handle)]
    for kind in kinds:
        seed_ops = {"s": ["snew 0 6162", "snew 0 61626364", "snew 0 -", "slit 0 6162", "slitu 0 6162", "scap 0 8"],
                    "v": ["vsets 0 6162", "vpush 0 5", "vseti 0 7", "vctors 0 6162", "vctorl 0 5"],
                    "x": ["xsets 0 6162", "xelem 0 61", "xctors 0 6162", "xctore 0 61"], "p": ["pnew 3 3"]}[kind]
        first = rng.choice(seed_ops)
        h.append(first)
        r.apply(first.split())
        cp = kind + "copy"
        asg = kind + "assign"
        src = int(first.split()[1])
        done = [src]
        for i in [x for x in range(4) if x != src]:
            c = rng.random()
            if c < 0.5 and r.apply(f"{cp} {i} {src}".split()):
                line = f"{cp} {i} {src}"
            elif c < 0.8 and r.apply(f"{asg} {i} {done[-1]}".split()):
                line = f"{asg} {i} {done[-1]}"
            else:
                line = gen_op(rng, r, kind, done + [i], mt=True, setup=True)
            done.append(i)
            h.append(line)
        hl = [0, 1, 2, 3]
        rng.shuffle(hl)
        off = rng.randrange(nt)
        for i, v in enumerate(hl):
            own[1 + (i + off) % nt].append((kind, v))
    for t in sorted(own):
        for kind, v in own[t]:
            h.append(f"give {slot(kind, v)} {t}")
    progs = {t: [] for t in own}
    total = rng.choice([2, 3, 4, 5, 6])
    for _ in range(total):
        t = rng.choice(sorted(own))
        if not own[t]:
            continue
        kind = rng.choice(sorted(set(k for k, _ in own[t])))
        progs[t].append(gen_op(rng, r, kind, [v for k, v in own[t] if k == kind], mt=True))
    for t in sorted(progs):
        for o in progs[t]:
            h.append(f"prog {t} {o}")
    return h, sorted(own)


def with_schedule(scen, sched):
    return scen + ["run " + " ".join(map(str, sched)), "end"]


def gen_mt_random(rng, hooks):
    scen, tids = gen_mt_scenario(rng, hooks)
    n = rng.choice([8, 12, 20, 30, 50])
    # runs of one thread and fine-grained alternation both occur
    sched = []
    while len(sched) < n:
        t = rng.choice(tids)
        sched += [t] * rng.choice([1, 1, 1, 2, 3])
    return with_schedule(scen, sched[:n])


def gen_mt_exhaustive(rng, hooks, nscen, depth, nt=2):
    """scenarios with few API calls under EVERY schedule prefix of the given length"""
    hs = []
    for _ in range(nscen):
        while True:
            scen, tids = gen_mt_scenario(rng, hooks, nt=nt, nkinds=1)
            if nt <= sum(1 for l in scen if l.startswith("prog")) <= nt + 1:
                break
        for sched in itertools.product(tids, repeat=depth):
            hs.append(with_schedule(scen, list(sched)))
    return hs


# fixed two-thread scenarios on payloads with several embedded handles, run under EVERY schedule prefix: clone of a shared list
# (element increments) against the release that may run the destructor cascade; the same for an Xml element with children;
# two assignments from elements of the own shared payload (increment inner, release outer, the last one cascades)
NESTED_SCEN = [
    ["vsets 0 61", "vpushv 1 0", "vpushv 1 0", "vclear 0", "vcopy 2 1", "give 5 1", "give 6 2",
     "prog 1 vpush 1 3", "prog 1 vclear 1", "prog 2 vclear 2"],
    ["xsets 0 61", "xsets 3 63", "xaddc 1 0", "xaddc 1 0", "xclear 0", "xcopy 2 1", "give 9 1", "give 10 2", "give 11 2",
     "prog 1 xelem 1 62", "prog 2 xaddc 2 3", "prog 2 xclear 2"],
    ["vsets 0 61", "vsets 3 62", "vpushv 1 0", "vpushv 1 3", "vclear 0", "vclear 3", "vcopy 2 1", "give 5 1", "give 6 2",
     "prog 1 vgetv 1 1 0", "prog 2 vgetv 2 2 1"],
]


def gen_nested_exhaustive(hooks, depth):
    hs = []
    for scen in NESTED_SCEN:
        for sched in itertools.product([1, 2], repeat=depth):
            hs.append(with_schedule([f"hooks {hooks}"] + scen, list(sched)))
    return hs


BRANCH = {}
import re
EMB_RE = re.compile(r"[>,]b(\d+)")


def count_branches(out):
    """branch-hit counters measured on the implementation's output (evidence only)"""
    B = BRANCH
    for o in out:
        if " # " not in o:
            continue
        toks = o.split(" # ")[0].split(" ")
        foreign_dec = set()
        for t in toks:
            f = t.split(".")
            if len(f) < 2:
                continue
            k = f[1]
            if k == "wr":
                B["mt in-place write steps"] = B.get("mt in-place write steps", 0) + 1
            elif k == "ref":
                key = "mt counter read = 1" if f[2] == "1" else "mt counter read > 1 (clone)"
                B[key] = B.get(key, 0) + 1
                if f[2] == "1" and any(x != f[0] for x in foreign_dec):
                    B["mt sole owner only after another thread released"] = B.get("mt sole owner only after another thread released", 0) + 1
            elif k == "dec":
                if f[2] == "0":
                    B["mt decrement reached zero (thread frees)"] = B.get("mt decrement reached zero (thread frees)", 0) + 1
                else:
                    B["mt decrement > 0"] = B.get("mt decrement > 0", 0) + 1
                    foreign_dec.add(f[0])
            elif k == "inc":
                B["mt increment"] = B.get("mt increment", 0) + 1
    prev = None
    for o in out:
        if ">b" in o or ",b" in o:
            B["nested: observations with handles embedded in list / element payloads or next"] = \
                B.get("nested: observations with handles embedded in list / element payloads or next", 0) + 1
            inner = EMB_RE.findall(o)
            if len(inner) != len(set(inner)):
                B["nested: inner payload held by >= 2 embedded handles (clone of the outer incremented it)"] = \
                    B.get("nested: inner payload held by >= 2 embedded handles (clone of the outer incremented it)", 0) + 1
        if " | " in o:
            nf = o.count(":F")
            if prev is not None and nf > prev:
                if " # " not in o:
                    B["st release of a payload"] = B.get("st release of a payload", 0) + nf - prev
                if nf - prev >= 2:
                    B["cascade: one call / run released >= 2 payloads"] = B.get("cascade: one call / run released >= 2 payloads", 0) + 1
            prev = nf


def nontrivial(h, out):
    """distinct = distinct (op kinds, final observation before `end`); non-trivial = some payload was shared"""
    count_branches(out)
    if len(h) < 3 or len(out) < 2:
        return None
    if not any((":L:2:" in o or ":L:3:" in o or ":L:4:" in o) for o in out):
        return None
    return (frozenset(l.split()[0] if not l.startswith("prog") else l.split()[2] for l in h), out[-2])


def probe(harness):
    """(hooks present?, driver arguments = the capacity tables of the String allocation sites measured on the real class)"""
    rc, out = C.sh([str(harness), "--probe"], env=C.SAN_ENV)
    hooks = 1 if "hooks=1" in out else 0
    tabs = {}
    for line in out.splitlines():
        t = line.split()
        if t and t[0].startswith("cap") and t[0][3:].isdigit():
            tabs[int(t[0][3:])] = ",".join(t[1:])
    grow = {}
    flags = {}
    for line in out.splitlines():
        t = line.split()
        if t and t[0].startswith("grow") and t[0][4:].isdigit():
            grow[int(t[0][4:])] = ",".join(t[1:])
        elif t and "=" in t[0] and t[0].split("=")[0] in ("assignEmptyStatic", "assignSameSkip"):
            flags[t[0].split("=")[0]] = t[0].split("=")[1]
    # 5th argument: growth table rows (old capacity 0..64), 6th: the two operator= policies
    return hooks, [tabs.get(i, "") for i in range(4)] + [";".join(grow.get(i, "") for i in range(65)),
                                                          flags.get("assignEmptyStatic", "0") + flags.get("assignSameSkip", "0")]


def probe_hooks(harness):
    return probe(harness)[0]


def build(ctx):
    return C.build_harness(ctx, "rc", SOURCES, libs=["-lpthread"])


def check(ctx):
    ctx.assumptions += [
        "sequentially consistent atomics: the __sync_* builtins of Atomic.hpp are full barriers; reordering of the plain "
        "counter reads (TSO, compiler) is not modelled",
        "threads own disjoint handle objects; a handle object is used by one thread at a time (hand-over is a step of the owner)",
        "payload content is flat except for embedded handles (next of counted objects, boxed elements of Variant lists, children of Xml "
        "elements): the inner String of a box and list nodes are internal allocations (only their leak / double-release accounting at "
        "the end of a history is checked)",
        "at most 4 boxed elements / children per container payload and no null elements in the drivers' slot layout (famK)",
        "allocation never fails; block ids are never reused (the ledger allocator of the harness keeps released memory)",
    ]
    proof_ok = C.proof_stage(ctx, PROPS, [DRIVER], gen=gen, leanchecker=(ctx.tier == "thorough"))
    harness = build(ctx)
    driver = C.driver_path(DRIVER)
    if harness is None or not driver.exists():
        return
    try:
        rng = ctx.rng
        quick = ctx.tier == "quick"
        hooks, dargs = probe(harness)
        ctx.cov["hooks_present"] = bool(hooks)
        ctx.cov["capacity_policy_measured"] = [a.split(",")[:9] for a in dargs[:4]]
        ctx.cov["growth_policy_measured"] = [r.split(",")[:12] for r in dargs[4].split(";")[:8]]
        ctx.cov["assign_policy_measured"] = {"assignEmptyStatic": dargs[5][:1], "assignSameSkip": dargs[5][1:2]}
        corpus = C.load_corpus(ctx.prop)
        corpus = [[l if not l.startswith("hooks ") else f"hooks {hooks}" for l in h] for h in corpus]
        depth = 3 if quick else 4
        ex = exhaustive(depth, rng, None if quick else 250000)
        mult = 1 if proof_ok else 5
        rnd = [gen_history(rng, rng.choice([6, 12, 24, 40])) for _ in range((6000 if quick else 80000) * mult)]
        mtr = [gen_mt_random(rng, hooks) for _ in range((6000 if quick else 150000) * mult)]
        d2, d3 = (10, 7) if quick else (11, 8)
        mte = gen_mt_exhaustive(rng, hooks, 12 if quick else 100, d2)
        mte3 = gen_mt_exhaustive(rng, hooks, 3 if quick else 20, d3, nt=3)
        st = corpus + ex + rnd
        mtn = gen_nested_exhaustive(hooks, d2)
        mt = mtr + mte + mte3 + mtn
        ctx.cov["rule"] = (
            f"single-threaded: corpus ({len(corpus)}) + all op sequences of length <= {depth} per scope ({len(SMALL)} scopes: one per handle kind, Array payloads, "
            f"the String constructors / conversion operators / append-prepend overloads, the Variant and Xml::Variant constructors) over "
            f"{sum(len(v) for v in SMALL.values())} ops (2-3 handles; self/other arguments; {len(ex)} histories"
            f"{'' if quick else ', sampled'}) + {len(rnd)} random histories of 6..40 ops over up to 4 handles of each kind; "
            f"multi-threaded: {len(mtr)} random scenarios (setup sharing payloads over the 4 handles of 1-2 kinds, 2-3 threads, 2-6 API calls) "
            f"each under one random schedule of 8..50 entries + {len(mte) // 2 ** d2} scenarios of 2 threads under all {2 ** d2} "
            f"schedules of their first {d2} scheduling points + {len(mte3) // 3 ** d3} scenarios of 3 threads under all {3 ** d3} schedules "
            f"of their first {d3} points + {len(NESTED_SCEN)} fixed nested-payload scenarios (shared list / Xml element with two boxed elements: clone vs release "
            f"with destructor cascade, assignments from own elements) under all {2 ** d2} schedules; a thread is descheduled before and after every atomic operation on a payload counter (counter-read hooks {'present' if hooks else 'ABSENT: plain reads are not scheduling points'}); "
            "distinct_nontrivial = distinct (op-kind set, final observation) among histories in which a payload was shared")
        ctx.cov["exhaustive"] = False
        ctx.cov["open_statements"] = ["in-place writes through an embedded handle and the cross-kind calls Variant = String variable / String = "
                                      "variant.toString(): modelled (vSetS / sFromV / vAppS on tagVStrN boxes) and under the theorems, but not driven on the real "
                                      "code (the String inside a box is an internal allocation of the harness); boxed values of map payloads, Xml attributes (Props.lean OPEN block)",
                                      "totality of the RefCount::Ptr calls that create or walk `next` handles and of the nested calls (fuel of the cascade), "
                                      "cascade completeness for d->next = s on a shared object (Props.lean OPEN blocks)"]
        ctx.cov["exhaustive_scope"] = (f"single-threaded length<={depth} per scope ({' '.join(f'{k}:{len(v)}' for k, v in SMALL.items())} ops): {len(ex)} histories; "
                                       f"schedules: all of {{t1,t2}}^{d2} for {len(mte) // 2 ** d2} scenarios, all of {{t1,t2,t3}}^{d3} for {len(mte3) // 3 ** d3} scenarios")
        ops = {}
        for h in st + mt:
            for l in h:
                t = l.split()
                k = t[2] if t[0] == "prog" else t[0]
                ops[k] = ops.get(k, 0) + 1
        ctx.cov["op_histogram"] = ops
        ctx.cov["samples"] = [" ; ".join(h) for h in (rnd[:2] + mtr[:3] + mte[:1])]
        d1 = C.differential(ctx, harness, driver, st, reference, C.default_eq, nontrivial=nontrivial, driver_args=dargs)
        ctx.log(f"single-threaded: {len(st)} histories, {len(d1)} disagreement(s)")
        C.report_diffs(ctx, d1, harness, driver, reference, C.default_eq, "rc-single-threaded", driver_args=dargs)
        d2 = C.differential(ctx, harness, driver, mt, reference, C.default_eq, nontrivial=nontrivial, driver_args=dargs)
        ctx.cov["branch_hits"] = dict(sorted(BRANCH.items()))
        ctx.log(f"multi-threaded: {len(mt)} scheduled runs, {len(d2)} disagreement(s); {ctx.cov['evaluations']} lines in total")
        C.report_diffs(ctx, d2, harness, driver, reference, C.default_eq, "rc-controlled-schedules", driver_args=dargs)
    finally:
        try:
            harness.unlink()
        except OSError:
            pass


def replay(ctx, path):
    h = C.parse_replay(path)
    harness = build(ctx)
    C.lake_build([DRIVER])
    hooks, dargs = probe(harness)
    h = [l if not l.startswith("hooks ") else f"hooks {hooks}" for l in h]
    diffs = C.differential(ctx, harness, C.driver_path(DRIVER), [h], reference, C.default_eq, driver_args=dargs)
    for d in diffs:
        print(d.text())
        ctx.violation(f"replay: {d.kind}", d.text())
    harness.unlink()
