"""C11  Mutex, Semaphore, Signal, Monitor and Thread keep their contracts under every interleaving.

Proof stage: lean/Nstd/Sync/Props.lean (invariants over all schedules of the transition systems in
Model.lean, any number of threads).  Correspondence stage: the unmodified libnstd sources run over a
simulated POSIX layer under a controlled scheduler (harness/sync.cpp + harness/sync/sched.cpp); every run
is a scenario (2-4 threads, one primitive) + a schedule; the same schedule is replayed on the Lean model
and the traces (chosen step, enabled candidates, returned values, verdict) must be identical.  The
independent reference evaluates the contracts of the property directly on the implementation's trace.
A second, uncontrolled stress run on real pthreads (a TEST) guards the shim."""
import hashlib
import common as C

PROPERTIES = ["C11"]
MANIFEST = {
    "C11": {
        "technique": "Lean 4 proof (inductive invariants over all schedules of interleaving models of Mutex/Semaphore/Signal/"
                     "Monitor/Thread over an assumed POSIX layer, any number of threads) + tie by translation (control-flow tables of the member "
                     "functions of Mutex/Signal/Monitor, deadline arithmetic incl. C's 64-bit semantics, constants and shapes regenerated from the "
                     "current sources on every run and proved equal to what the model does) + controlled-scheduler correspondence "
                     "(real sources over a simulated POSIX layer, identical schedules replayed on the model)",
        "text": "65 theorems (Props.lean 42, PropsLock.lean 3, PropsCfg.lean 12, PropsDeadline.lean 8), none partial.  SAFETY over every reachable state of the Lean transition systems (a schedule is the universally quantified list "
                "of (thread, action) choices; spurious wake-ups, EINTR, ENOSYS, time-outs and clock ticks at any moment; unboundedly many "
                "threads): mutex_exclusive_reentrant, mutex_recursion_depth_counted, trylock_nonblocking_succeeds_when_free, sem_conservation, "
                "sem_trywait_never_blocks, sem_wait_step_accounting (a call consumes at most one unit and exactly when it returns true; false = nothing consumed and for the timed wait not before its deadline; "
                "covers the ENOSYS polling fallback of wait(timeout), which is part of the model since round 7), sem_enosys_fallback_never_blocks_and_terminates, "
                "signal_true_only_if_set_since_reset, signal_no_waiter_stuck_while_set, signal_set_releases_all_current_waiters, signal_future_waiter_returns_true_while_set, "
                "signal_mutex_holder_can_step, monitor_exclusive + monitor_lock_trylock_unlock (Monitor::lock/tryLock/unlock and the lock side of wait/set: one holder at a time, tryLock never blocks, wait gives the monitor up and has it back at every return, set() is never a holder), "
                "monitor_waits_le_sets, monitor_conservation, monitor_set_consumed_by_exactly_one_true_return, monitor_false_return_after_deadline_keeps_flag, "
                "monitor_set_after_take_releases_a_waiter (all Monitor theorems for both orders of set()), deadline_exact (model), deadline_record, "
                "timed_false_only_after_deadline_{signal,monitor,semaphore} (semaphore: incl. the polling fallback for every ENOSYS budget), join_returns_result, "
                "thread_join_exactly_once, thread_start_refused_while_attached (fixes/sync/0002), thread_runs_started_function, Thr.finished_stable, "
                "thread_dtor_waits_and_failed_start_is_clean, sleep_not_early, driver_stays_within_model.  LIVENESS over infinite runs: "
                "sem_waiter_eventually_returns, sem_waiter_returns_if_enough_signals, sem_closed_system_all_waiters_return (weak fairness; sem_timedwait not reporting ENOSYS to that waiter), sem_poller_eventually_returns (a thread inside the ENOSYS fallback returns: weak fairness + virtual time diverges), signal_waiter_eventually_returns, signal_every_waiter_eventually_returns and "
                "monitor_set_eventually_releases_a_waiter (weak fairness + starvation-free mutex [+ clients release the monitor]); "
                "whatif_signal_consumed_by_timed_out_waiter_loses_a_wakeup, monitor_two_sets_may_release_only_one_waiter (reachable counter-example states).  "
                "VARIANTS THE CONTRACT LEAVES OPEN are parameters of the transition systems (constant state fields; Reach quantifies over them; every theorem holds for all values; the driver takes the values of the current source from Generated/SyncMonitorOrder + SyncShape): the order of unlock and signal in Monitor::set; Signal::set skipping store + broadcast when the flag is already set (signal_set_may_skip_the_broadcast_when_already_set: nobody is blocked then); Signal::wait(timeout) reading the clock only after its lock; Semaphore::wait(timeout) beginning with a sem_trywait fast path.  "
                "TRANSLATED FROM THE CURRENT SOURCES ON EVERY RUN (a source the translators do not recognise is a broken tie): "
                "(a) tools/areas/_sync_cfg.py parses 20 member functions — all of Mutex, Signal, Monitor, Semaphore::signal/wait/tryWait, Thread::start (both overloads; start(proc,param) inlined into the member overload), join, ~Thread (join inlined) — (POSIX branch; small C++ subset) and executes them symbolically into canonical POSIX-level control-flow tables (Generated/SyncCfg.lean: pending call; per call result x flag value [Thread: handle set?] the flag store, whether the functor is stored, and the next call / returned value; equivalent control flow gives the same table); "
                "mutex/signal/monitor/thread_step_is_translated_code, sem_simple_step_is_translated_code and signal/monitor_reachable_steps_follow_translated_code prove that EVERY step of Mutex.step / Signal.step / Monitor.step / Thr.step (and the three simple Sem program points) that completes a POSIX call or begins an API call does exactly what the table prescribes (Thread: on an attached object start returns false without storing the functor - fixes/sync/0002), translated_tables_have_no_other_program_points that the tables have no further program points; "
                "(b) the deadline statements of the three timed waits (Generated/SyncDeadline.lean): deadline_exact_{signal,monitor,semaphore}, deadline_model_is_translated_code over unbounded Int, and deadline_64bit_no_overflow_exact_{signal,monitor,semaphore} over the same statements with C's LP64 semantics (truncating / %, every arithmetic node range-checked): for EVERY 64-bit time-out and clock < 9e18 s no signed overflow / division by zero, result = clock + timeout ms exactly, |tv_nsec| < 1e9, and for time-outs >= 0 normalised and equal to the unbounded version; "
                "(c) Semaphore::wait(timeout) after the deadline statements: its own table type (calls ending with an errno class ok/EINTR/ENOSYS/other, continue, goto, usleep, one counted loop whose test i < timeout is symbolic: decision trees with a counter operation) - sem_timed_wait_step_is_translated_code / _entry_: every step at twait / pollTry / pollSleep follows the table (a goto-free rewrite gives the identical table); the constants start / stepMs / sleepUs of the model are read off that table (Generated/SyncSemPoll.lean; Sem.poll_sleep_covers_step, poll_start_zero, poll_step_pos are proved about them); "
                "(d) what the Guards forward to, mutex kinds, initial flag / count of the constructors, the unit factor of Thread::sleep (Generated/SyncApi.lean; guards_and_constructors_as_modelled, Sleep.sleep_unit_covers_ms; the model's Mutex.init, Sleep.step and the driver's Guard mapping USE these values); destructors, Thread::Thread/~Thread, yield, getCurrentThreadId are shape-pinned; (e) the order of Monitor::set (Generated/SyncMonitorOrder.lean).  "
                "CORRESPONDENCE RUN: the unmodified Mutex/Semaphore/Signal/Monitor/Thread.cpp are compiled against a simulated POSIX layer (-include shim) and driven by "
                "a controlled scheduler; all schedules of generated 2-4 thread scenarios up to N scheduling points (every candidate "
                "incl. spurious wake-up / EINTR / ENOSYS / time-out / clock tick at each point), all schedules with a bounded number of "
                "deviations from the default policy at any depth, and random schedules are replayed on the model step by step (chosen "
                "step, enabled set, return values, verdict), and an independent Python oracle evaluates the contracts of the property "
                "on the implementation's trace (mutual exclusion, conservation, wait-true-only-if-set, stuck waiters, "
                "timed-false-only-after-deadline in virtual time, join results, use of destroyed POSIX objects).  Mutex::Guard / Monitor::Guard, both start overloads, "
                "Thread::getCurrentThreadId / yield / sleep and the ENOSYS polling fallback (scenario option N:<n>) are driven on both sides; branch-hit counters of the fallback are required in the evidence.",
        "note": "ASSUMED, not verified: the POSIX semantics of lean/Nstd/Sync/Posix.lean = harness/sync/sched.cpp (recursive/default "
                "mutex, condition variable with spurious wake-ups, signal wakes exactly one chosen waiter, timed-out waiter does not "
                "consume a signal, semaphore with EINTR / ENOSYS (budgeted), usleep returns once its time has passed, create/join, monotone virtual clock; no CLOCK_REALTIME jumps, "
                "time-outs >= 0 in the transition systems (negative ones only in deadline_64bit_*), pthread_create fails at most a budgeted number of times); glibc/kernel are not verified.  "
                "The control-flow tables tie WHICH call follows which result and what happens to the flag; the EFFECT of each POSIX call on mutex / wait set / semaphore / clock is the assumed layer, and the mapping program counter -> table node (Signal.at, Monitor.at, *.completes in PropsCfg.lean) is part of the statement.  "
                "HAND-TRANSLATED and only tied by the correspondence run: Thread::proc<T>; the representation of the functor; which POSIX call / which outcome a model alternative stands for (Sem.outcome, *.completes).  "
                "int overflow of the poll loop variable (`int i` against an int64 time-out > 2^31 ms, reached after 24 days of polling) is outside the model.  "
                "The liveness theorems for Semaphore exclude ENOSYS for the waiter in question (a poller needs the passage of time; its termination is sem_enosys_fallback_never_blocks_and_terminates, a per-step statement).  "
                "unlock() by a thread that does not hold the Mutex / Monitor is outside the contract: the model has no step for it.  "
                "One atomic step = one POSIX call + the library code up to the next one: the `signaled` flags are only accessed under "
                "the internal mutex (by inspection; data races are not detectable by a baton scheduler).  Clients respect the API "
                "preconditions (unlock / Monitor::wait by the holder; a Thread object is not restarted after join: in the model a thread id is used once).  Liveness is proved under weak fairness of every thread plus a "
                "starvation-free mutex (weak fairness alone does not exclude starvation at the mutex); the semaphore statements need weak fairness only.  "
                "The model mirrors Signal::set as repaired by fixes/sync/0001 (broadcast before "
                "unlock) and Thread::start(obj, member) as repaired by fixes/sync/0002.  A change of the generated constants that the model imports (SyncSemPoll, SyncApi) forces a rebuild of the whole area (3-4 min) inside the check.  The stress run on real pthreads (harness/sync_stress.cpp) is a test.",
        "design_ref": "DESIGN.md 3/C11, docs/sync.md",
    }
}
PROPS = ["Nstd.Sync.Props", "Nstd.Sync.PropsLock", "Nstd.Sync.PropsCfg", "Nstd.Sync.PropsDeadline"]
DRIVER = "drv_sync"
LEAN_TARGETS = PROPS + [DRIVER]
LIB_SOURCES = ["Mutex", "Semaphore", "Signal", "Monitor", "Thread", "Memory"]
NSEC = 1000000000


# ---- translator: the deadline arithmetic of the three timed waits, from the current sources ---------------
# `bool X::wait(int64 timeout)` (POSIX branch): struct timespec ts; clock_gettime(CLOCK_REALTIME, &ts); <statements that
# only update ts.tv_sec / ts.tv_nsec>; ... timedwait(..., &ts).  The statements are translated by symbolic execution into a
# Lean function (sec, nsec, timeout : Int) -> Int x Int (lean/Nstd/Generated/SyncDeadline.lean); PropsDeadline.lean proves
# deadline_exact_* about THAT function and that the model's `addTimeout` (Posix.lean) computes the same pair.
import re
from pathlib import Path

GEN_OUT = C.LEAN / "Nstd" / "Generated" / "SyncDeadline.lean"
DEADLINE_SOURCES = [("signal", "Signal", "src/Signal.cpp", "pthread_cond_timedwait"),
                    ("monitor", "Monitor", "src/Monitor.cpp", "pthread_cond_timedwait"),
                    ("semaphore", "Semaphore", "src/Semaphore.cpp", "sem_timedwait")]


class TransErr(Exception):
    pass


def _strip_comments(src):
    src = re.sub(r"/\*.*?\*/", " ", src, flags=re.S)
    return re.sub(r"//[^\n]*", "", src)


def _posix_branch(text):
    """resolve `#ifdef _WIN32 A #else B #endif` to B (`#ifndef _WIN32` to A); conditionals nested inside a dropped region are
    dropped with it; other directives in the kept text are refused"""
    out, stack = [], []          # stack of True / False (region active?) or None (a conditional nested in a dropped region)
    for line in text.split("\n"):
        t = line.strip()
        if t.startswith("#"):
            d = t[1:].split()
            active = all(x for x in stack)
            if d[:1] and d[0] in ("if", "ifdef", "ifndef") and not active:
                stack.append(None)
            elif d[:2] == ["ifdef", "_WIN32"]:
                stack.append(False)
            elif d[:2] == ["ifndef", "_WIN32"]:
                stack.append(True)
            elif d[:1] == ["else"] and stack:
                if stack[-1] is not None:
                    stack[-1] = not stack[-1]
            elif d[:1] == ["endif"] and stack:
                stack.pop()
            else:
                raise TransErr("unexpected preprocessor line inside the function: " + t)
            continue
        if all(x for x in stack):
            out.append(line)
    return "\n".join(out)


def _function_body(src, cls):
    m = re.search(r"\bbool\s+" + cls + r"\s*::\s*wait\s*\(\s*int64\s+(\w+)\s*\)\s*\{", src)
    if not m:
        raise TransErr(f"{cls}::wait(int64) not found")
    depth, i = 1, m.end()
    while i < len(src) and depth:
        depth += {"{": 1, "}": -1}.get(src[i], 0)
        i += 1
    if depth:
        raise TransErr(f"{cls}::wait(int64): unbalanced braces")
    return m.group(1), src[m.end():i - 1]


_TOK = re.compile(r"\s*(?:(\d+[uUlL]*)|(ts\s*\.\s*tv_nsec|ts\s*\.\s*tv_sec|[A-Za-z_]\w*)|(\+\+|--|\+=|-=|\*=|/=|%=|>=|<=|==|!=|&&|\|\||[-+*/%()<>=!{};]))")


def _tokens(text):
    """(kind, value, start offset); what cannot be tokenised ends the list (it is not deadline arithmetic)"""
    toks, i = [], 0
    text = text.rstrip()
    while i < len(text):
        m = _TOK.match(text, i)
        if not m or m.end() == i:
            break
        start = m.end() - len(m.group(0).lstrip())
        if m.group(1) is not None:
            if re.search(r"[uU]", m.group(1)):
                break                        # unsigned arithmetic is not in the translated subset
            toks.append(("num", (int(re.match(r"\d+", m.group(1)).group(0)), bool(re.search(r"[lL]", m.group(1)))), start))
        elif m.group(2) is not None:
            toks.append(("id", re.sub(r"\s", "", m.group(2)), start))
        else:
            toks.append(("op", m.group(3), start))
        i = m.end()
    toks.append(("eof", None, i))
    return toks


class _Sym:
    """symbolic execution of the statement list into Lean `let`s (SSA), twice:
    (u) over unbounded Int with Lean's `/` `%` (= C's on the non-negative operands of the intended use: clock value, time-out >= 0),
    (c) with C's semantics: `/` `%` truncate towards zero (`cdiv`, `cmod` of Nstd/Sync/CArith.lean), every arithmetic result is
        named and listed with the range of its C type (int for operands that are all `int`, else the 64-bit long / int64 / time_t of
        LP64) and every divisor with `≠ 0` — the obligations of "no signed overflow, no division by zero", guarded by the
        conditions of the enclosing `if`s."""

    def __init__(self, toks, param, consts=None):
        self.t, self.i, self.param = toks, 0, param
        self.consts = consts or {}         # `const long N = v;` (64-bit)
        self.env = {"ts.tv_sec": "sec", "ts.tv_nsec": "nsec"}
        self.cenv = {"ts.tv_sec": "sec", "ts.tv_nsec": "nsec"}
        self.lets, self.n = [], 0
        self.clets, self.cn, self.obl, self.guard = [], 0, [], []

    def peek(self):
        return self.t[self.i][:2] if self.i < len(self.t) else ("eof", None)

    def offset(self):
        return self.t[min(self.i, len(self.t) - 1)][2]

    def take(self, kind=None, val=None):
        k, v = self.peek()
        if (kind and k != kind) or (val is not None and v != val):
            raise TransErr(f"expected {val or kind}, found {v}")
        self.i += 1
        return v

    def fresh(self, var, node):
        """assign the value of the AST `node` to ts.tv_sec / ts.tv_nsec (both versions)"""
        cexpr, _ = self.emit_c(node)
        self.n += 1
        name = ("sec" if var == "ts.tv_sec" else "nsec") + str(self.n)
        self.lets.append(f"  let {name} : Int := {self.emit_u(node)}")
        self.clets.append(f"  let {name} : Int := {cexpr}")
        self.env[var] = name
        self.cenv[var] = name

    # ---- the two emitters over the expression AST --------------------------------------------------
    def emit_u(self, e):
        k = e[0]
        if k == "num":
            return str(e[1])
        if k == "var":
            return self.env[e[1]] if e[1] in self.env else "timeout"
        if k == "ssa":
            return e[1]
        if k == "cast64":
            return self.emit_u(e[1])
        if k == "bin":
            return f"({self.emit_u(e[2])} {e[1]} {self.emit_u(e[3])})"
        if k == "neg":
            return f"(-{self.emit_u(e[1])})"
        if k == "not":
            return f"(¬{self.emit_u(e[1])})"
        if k == "cmp":
            return f"({self.emit_u(e[2])} {e[1]} {self.emit_u(e[3])})"
        if k in ("and", "or"):
            return f"({self.emit_u(e[1])} {'∧' if k == 'and' else '∨'} {self.emit_u(e[2])})"
        raise TransErr("internal: " + k)

    def _g(self, prop):
        return prop if not self.guard else "(" + " ∧ ".join(self.guard) + " → " + prop + ")"

    def _tmp(self, expr, ty):
        self.cn += 1
        name = f"c{self.cn}"
        self.clets.append(f"  let {name} : Int := {expr}")
        self.obl.append(self._g(f"in{ty} {name}"))
        return name

    def emit_c(self, e):
        """returns (Lean term, C type width 32 | 64); conditions have width 0"""
        k = e[0]
        if k == "num":
            return str(e[1]), (64 if e[2] or e[1] > 2147483647 else 32)
        if k == "var":
            return (self.cenv[e[1]] if e[1] in self.cenv else "timeout"), 64
        if k == "ssa":
            return e[2], 64
        if k == "cast64":
            return self.emit_c(e[1])[0], 64
        if k == "bin":
            (a, ta), (b, tb) = self.emit_c(e[2]), self.emit_c(e[3])
            ty = max(ta, tb)
            if e[1] in ("/", "%"):
                self.obl.append(self._g(f"({b} : Int) ≠ 0"))
                q = self._tmp(f"cdiv {a} {b}", ty)          # INT_MIN / -1 overflows; the same operands make % undefined
                return (q, ty) if e[1] == "/" else (self._tmp(f"cmod {a} {b}", ty), ty)
            return self._tmp(f"{a} {e[1]} {b}", ty), ty
        if k == "neg":
            a, ta = self.emit_c(e[1])
            return self._tmp(f"-{a}", ta), ta
        if k == "not":
            return f"(¬{self.emit_c(e[1])[0]})", 0
        if k == "cmp":
            return f"({self.emit_c(e[2])[0]} {e[1]} {self.emit_c(e[3])[0]})", 0
        if k in ("and", "or"):
            return f"({self.emit_c(e[1])[0]} {'∧' if k == 'and' else '∨'} {self.emit_c(e[2])[0]})", 0
        raise TransErr("internal: " + k)

    # expressions: || && comparison additive multiplicative unary primary  ->  AST
    def expr(self):
        a = self.conj()
        while self.peek() == ("op", "||"):
            self.take()
            a = ("or", a, self.conj())
        return a

    def conj(self):
        a = self.cmp()
        while self.peek() == ("op", "&&"):
            self.take()
            a = ("and", a, self.cmp())
        return a

    def cmp(self):
        a = self.add()
        k, v = self.peek()
        if k == "op" and v in (">=", "<=", "==", "!=", "<", ">"):
            self.take()
            b = self.add()
            rel = {">=": "≥", "<=": "≤", "==": "=", "!=": "≠"}.get(v, v)
            return ("cmp", rel, a, b)
        return a

    def add(self):
        a = self.mul()
        while self.peek() in (("op", "+"), ("op", "-")):
            o = self.take()
            a = ("bin", o, a, self.mul())
        return a

    def mul(self):
        a = self.unary()
        while self.peek() in (("op", "*"), ("op", "/"), ("op", "%")):
            o = self.take()
            a = ("bin", o, a, self.unary())
        return a

    def unary(self):
        if self.peek() == ("op", "-"):
            self.take()
            return ("neg", self.unary())
        if self.peek() == ("op", "!"):
            self.take()
            return ("not", self.unary())
        k, v = self.peek()
        if k == "num":
            self.take()
            return ("num", v[0], v[1])
        if k == "id":
            self.take()
            if v in self.env or v == self.param:
                return ("var", v)
            if v in self.consts:
                return ("num", self.consts[v], True)
            raise TransErr("unknown identifier in the deadline arithmetic: " + v)
        if (k, v) == ("op", "("):
            self.take()
            if self.peek() in (("id", "long"), ("id", "int64"), ("id", "time_t")) and self.t[self.i + 1][:2] == ("op", ")"):
                self.take(); self.take()          # cast to a 64-bit signed type: value unchanged, the operation is done in 64 bits
                return ("cast64", self.unary())
            e = self.expr()
            self.take("op", ")")
            return e
        raise TransErr(f"unexpected token {v}")

    def is_stmt_start(self):
        k, v = self.peek()
        if k == "id" and v in self.env:
            return True
        if k == "id" and v == "if":
            return True
        if k == "op" and v in ("++", "--"):
            return True
        return False

    def stmt(self):
        k, v = self.peek()
        if (k, v) == ("id", "if"):
            self.take()
            self.take("op", "(")
            cnode = self.expr()
            self.take("op", ")")
            c, cc = self.emit_u(cnode), self.emit_c(cnode)[0]
            before, cbefore = dict(self.env), dict(self.cenv)
            self.guard.append(cc)
            self.block()
            self.guard.pop()
            then, cthen = dict(self.env), dict(self.cenv)
            self.env, self.cenv = dict(before), dict(cbefore)
            if self.peek() == ("id", "else"):
                self.take()
                self.guard.append(f"(¬{cc})")
                self.block()
                self.guard.pop()
            els, cels = dict(self.env), dict(self.cenv)
            self.env, self.cenv = dict(before), dict(cbefore)
            for var in ("ts.tv_sec", "ts.tv_nsec"):
                if then[var] != els[var]:
                    self.n += 1
                    name = ("sec" if var == "ts.tv_sec" else "nsec") + str(self.n)
                    self.lets.append(f"  let {name} : Int := if {c} then {then[var]} else {els[var]}")
                    self.clets.append(f"  let {name} : Int := if {cc} then {cthen[var]} else {cels[var]}")
                    self.env[var] = name
                    self.cenv[var] = name
            return
        if k == "op" and v in ("++", "--"):
            self.take()
            var = self.take("id")
            if var not in self.env:
                raise TransErr("increment of " + var)
            self.take("op", ";")
            self.fresh(var, ("bin", "+" if v == "++" else "-", ("var", var), ("num", 1, False)))
            return
        var = self.take("id")
        if var not in self.env:
            raise TransErr("assignment to " + var)
        k, o = self.peek()
        if k == "op" and o in ("++", "--"):
            self.take()
            self.take("op", ";")
            self.fresh(var, ("bin", "+" if o == "++" else "-", ("var", var), ("num", 1, False)))
            return
        if k != "op" or o not in ("=", "+=", "-=", "*=", "/=", "%="):
            raise TransErr(f"unsupported statement on {var}: {o}")
        self.take()
        e = self.expr()
        self.take("op", ";")
        self.fresh(var, e if o == "=" else ("bin", o[0], ("var", var), e))

    def block(self):
        if self.peek() == ("op", "{"):
            self.take()
            while self.peek() != ("op", "}"):
                self.stmt()
            self.take()
        else:
            self.stmt()


def translate_deadline(repo, cls, rel, call):
    src = _strip_comments((Path(repo) / rel).read_text())
    param, body = _function_body(src, cls)
    body = _posix_branch(body)
    m = re.search(r"struct\s+timespec\s+ts\s*;\s*(?:clock_gettime\s*\(\s*CLOCK_REALTIME\s*,\s*&\s*ts\s*\)|"
                  r"VERIFY\s*\(\s*clock_gettime\s*\(\s*CLOCK_REALTIME\s*,\s*&\s*ts\s*\)\s*==\s*0\s*\))\s*;", body)
    if not m:
        raise TransErr(f"{cls}::wait(int64): `struct timespec ts; clock_gettime(CLOCK_REALTIME, &ts);` not found")
    if "ts" in re.findall(r"\w+", body[:m.start()]):
        raise TransErr(f"{cls}::wait(int64): ts used before clock_gettime")
    # named constants `const long N = <number>;` declared before the clock is read
    consts = {n: int(v) for n, v in re.findall(r"\bconst\s+long\s+(\w+)\s*=\s*(\d+)\s*;", body[:m.start()])}
    if param in consts or "ts" in consts:
        raise TransErr(f"{cls}::wait(int64): a constant shadows {param} / ts")
    rest = body[m.end():]
    # the statement list ends at the first statement that is not about ts (the loop / the lock of the internal mutex)
    cut = re.search(r"\b(for|while|do|VERIFY|return|pthread_\w+|sem_\w+|goto)\b", rest)
    if not cut:
        raise TransErr(f"{cls}::wait(int64): end of the deadline computation not found")
    stmts, tail = rest[:cut.start()], rest[cut.start():]
    if re.search(r"ts\s*\.\s*tv_|\bts\s*=", tail):
        raise TransErr(f"{cls}::wait(int64): the deadline is modified after the computation that was translated")
    calls = re.findall(r"\b" + call + r"\s*\(([^;]*?)\)\s*(?:[!=]=|\))", tail)
    if not calls or not all(re.search(r",\s*&\s*ts\s*$", a) for a in calls):
        raise TransErr(f"{cls}::wait(int64): {call} is not called with &ts")
    sym = _Sym(_tokens(stmts), param, consts)
    while sym.is_stmt_start():          # the deadline arithmetic ends at the first statement that is not about ts ...
        sym.stmt()
    while sym.peek() == ("id", "ASSERT"):   # debug-build checks of the result: no effect (skipped up to their `;`)
        while sym.peek() != ("op", ";"):
            if sym.peek()[0] == "eof" or sym.peek() in (("op", "="), ("op", "+="), ("op", "-="), ("op", "++"), ("op", "--")):
                raise TransErr(f"{cls}::wait(int64): ASSERT with a side effect")
            sym.take()
        sym.take()
    if re.search(r"ts\s*\.\s*tv_|\bts\s*=|&\s*ts\b", stmts[sym.offset():]):
        raise TransErr(f"{cls}::wait(int64): ts is used again after the statements that were translated: {stmts[sym.offset():][:60].strip()}")
    stmts = stmts[:sym.offset()]        # ... (and ts is not touched again before the wait: checked above and on `tail`)
    text = " ".join(stmts.split())
    return text, sym.lets, sym.env["ts.tv_sec"], sym.env["ts.tv_nsec"], sym.clets, sym.obl, sym.cenv["ts.tv_sec"], sym.cenv["ts.tv_nsec"]


GEN_ORDER = C.LEAN / "Nstd" / "Generated" / "SyncMonitorOrder.lean"


def translate_monitor_order(repo):
    """Monitor::set() (POSIX branch): lock; signaled = true; then {pthread_cond_signal, pthread_mutex_unlock} in either order.
    Returns True when the signal is issued BEFORE the unlock (while the mutex is held).  The contract does not fix the
    order; the Lean system is parametric in it and the driver follows the one the current source has."""
    src = _strip_comments((Path(repo) / "src/Monitor.cpp").read_text())
    m = re.search(r"\bvoid\s+Monitor\s*::\s*set\s*\(\s*\)\s*\{", src)
    if not m:
        raise TransErr("Monitor::set() not found")
    depth, i = 1, m.end()
    while i < len(src) and depth:
        depth += {"{": 1, "}": -1}.get(src[i], 0)
        i += 1
    body = _posix_branch(src[m.end():i - 1])
    pos = {}
    for key, rx in (("lock", r"pthread_mutex_lock\s*\("), ("store", r"\bsignaled\s*=\s*true\s*;"),
                    ("unlock", r"pthread_mutex_unlock\s*\("), ("signal", r"pthread_cond_signal\s*\(")):
        hits = [x.start() for x in re.finditer(rx, body)]
        if len(hits) != 1:
            raise TransErr(f"Monitor::set(): expected exactly one {key}, found {len(hits)}")
        pos[key] = hits[0]
    if not (pos["lock"] < pos["store"] < min(pos["unlock"], pos["signal"])):
        raise TransErr("Monitor::set(): not of the form lock; signaled = true; {unlock, signal}")
    return pos["signal"] < pos["unlock"]


def translate_order(repo=None):
    try:
        first = translate_monitor_order(repo or C.REPO)
    except (OSError, TransErr) as e:
        return False, str(e)
    text = ("/- generated by tools/areas/sync.py (translate_order) from src/Monitor.cpp - do not edit -/\n"
            "namespace Nstd.Generated.SyncMonitorOrder\n\n"
            "/-- `Monitor::set()`: is `pthread_cond_signal` issued before `pthread_mutex_unlock` (while the mutex is held)? -/\n"
            f"def setSignalsFirst : Bool := {'true' if first else 'false'}\n\n"
            "end Nstd.Generated.SyncMonitorOrder\n")
    GEN_ORDER.parent.mkdir(parents=True, exist_ok=True)
    if not GEN_ORDER.exists() or GEN_ORDER.read_text() != text:
        GEN_ORDER.write_text(text)
    return True, "Monitor::set " + ("signals, then unlocks" if first else "unlocks, then signals")


def translate(repo=None):
    repo = repo or C.REPO
    out = ["import Nstd.Sync.CArith",
           "/- generated by tools/areas/sync.py (translate) from src/{Signal,Monitor,Semaphore}.cpp - do not edit -/",
           "namespace Nstd.Generated.SyncDeadline", "open Nstd.Sync.CArith", ""]
    summary = []
    try:
        for name, cls, rel, call in DEADLINE_SOURCES:
            text, lets, sec, nsec, clets, obl, csec, cnsec = translate_deadline(repo, cls, rel, call)
            out.append(f"/-- `{cls}::wait(int64 timeout)`, between `clock_gettime(CLOCK_REALTIME, &ts)` and `{call}(…, &ts)`:")
            out.append(f"    `{text}` -/")
            out.append(f"def {name} (sec nsec timeout : Int) : Int × Int :=")
            out += lets
            out.append(f"  ({sec}, {nsec})")
            out.append("")
            out.append(f"/-- the same statements with C's semantics on LP64 (`/` `%` truncate towards zero; every arithmetic result named) -/")
            out.append(f"def {name}C (sec nsec timeout : Int) : Int × Int :=")
            out += clets
            out.append(f"  ({csec}, {cnsec})")
            out.append("")
            out.append(f"/-- no undefined behaviour in those statements: every arithmetic result fits its C type, no divisor is zero -/")
            out.append(f"def {name}Safe (sec nsec timeout : Int) : Prop :=")
            out += clets
            out.append("  " + " ∧ ".join(obl or ["True"]))
            out.append("")
            summary.append(f"{cls}: {len(lets)} assignment(s), {len(obl)} range / divisor obligation(s)")
    except (OSError, TransErr) as e:
        return False, str(e)
    out.append("end Nstd.Generated.SyncDeadline")
    textall = "\n".join(out) + "\n"
    GEN_OUT.parent.mkdir(parents=True, exist_ok=True)
    if not GEN_OUT.exists() or GEN_OUT.read_text() != textall:
        GEN_OUT.write_text(textall)
    return True, "; ".join(summary)


GEN_POLL = C.LEAN / "Nstd" / "Generated" / "SyncSemPoll.lean"
_CTOK = re.compile(r"[A-Za-z_]\w*|\d+[uUlL]*|==|!=|\+=|-=|<=|>=|&&|\|\||->|\+\+|--|::|[^\s\w]")


def _norm(text):
    """the C tokens of `text` joined by single blanks (formatting does not matter)"""
    return " ".join(_CTOK.findall(text))


def _const_int(text):
    """value of a constant integer expression made of literals, + - * and parentheses; anything else is refused"""
    t = text.replace(" ", "")
    if not t or not re.fullmatch(r"[0-9+*()\-]+", t) or "**" in t:
        raise TransErr("not a constant integer expression: " + text)
    try:
        v = eval(t, {"__builtins__": {}}, {})
    except Exception:
        raise TransErr("not a constant integer expression: " + text)
    if not isinstance(v, int) or v < 0 or v >= 2 ** 31:
        raise TransErr("constant out of the range of int: " + text)
    return v


def _load_cfg():
    import importlib.util
    spec = importlib.util.spec_from_file_location("_sync_cfg", str(Path(__file__).with_name("_sync_cfg.py")))
    G = importlib.util.module_from_spec(spec)
    spec.loader.exec_module(G)
    return G


def sem_wait_table(repo):
    """the control-flow table of Semaphore::wait(int64) after the deadline arithmetic (tools/areas/_sync_cfg.py: sem_table)"""
    G = _load_cfg()
    se = _strip_comments((Path(repo) / "src/Semaphore.cpp").read_text())
    hm, body = _method_body(se, r"\bbool\s+Semaphore\s*::\s*wait\s*\(\s*int64\s+(\w+)\s*\)", "Semaphore::wait(int64)")
    try:
        body = G.strip_deadline(body, "Semaphore::wait(int64)")
        return body, G.sem_table(body, "Semaphore::wait(int64)", hm.group(1)), G
    except G.CfgErr as e:
        raise TransErr(str(e))


def translate_poll(repo=None):
    """the constants of the ENOSYS polling loop, read off the translated control-flow table of Semaphore::wait(int64): the loop
    variable's initial value (counter operation on the ENOSYS edge of sem_timedwait), its increment (counter operation after
    usleep) and the usleep argument.  A source without exactly that structure is refused."""
    try:
        text, (entry, nodes), _ = sem_wait_table(repo or C.REPO)
        inits = [es["ENOSYS"][0] for c, es in nodes if c == "semTimedWait" and es.get("ENOSYS") is not None]
        sleeps = [(c[1], es["ok"][0]) for c, es in nodes if isinstance(c, tuple) and es.get("ok") is not None]
        if len(inits) != 1 or inits[0] is None or inits[0][0] != "init":
            raise TransErr("Semaphore::wait(int64): no counted polling loop entered after ENOSYS")
        if len(sleeps) != 1 or sleeps[0][1] is None or sleeps[0][1][0] != "add":
            raise TransErr("Semaphore::wait(int64): the polling loop does not consist of one usleep followed by the loop increment")
        a, b, c = inits[0][1], sleeps[0][1][1], sleeps[0][0]
    except (OSError, TransErr) as e:
        return False, str(e)
    out = ("/- generated by tools/areas/sync.py (translate_poll) from src/Semaphore.cpp - do not edit -/\n"
           "namespace Nstd.Generated.SyncSemPoll\n\n"
           "/-- `Semaphore::wait(int64 timeout)`, the polling loop `for(int i = start; i < timeout; i += stepMs) { sem_trywait; usleep(sleepUs); }`:\n"
           "    constants read off the translated control-flow table (Generated/SyncCfg.lean `semaphore_waitT`; the source text is quoted there,\n"
           "    not here, so that this file - imported by Model.lean - only changes when a constant changes) -/\n"
           f"def start : Nat := {a}\n\n"
           "/-- the loop increment: milliseconds accounted per iteration -/\n"
           f"def stepMs : Nat := {b}\n\n"
           "/-- the argument of `usleep`: microseconds slept per iteration -/\n"
           f"def sleepUs : Nat := {c}\n\n"
           "end Nstd.Generated.SyncSemPoll\n")
    GEN_POLL.parent.mkdir(parents=True, exist_ok=True)
    if not GEN_POLL.exists() or GEN_POLL.read_text() != out:
        GEN_POLL.write_text(out)
    return True, f"Semaphore::wait(timeout) ENOSYS fallback: i = {a}; i < timeout; i += {b} ms, usleep({c} us)"


GEN_API = C.LEAN / "Nstd" / "Generated" / "SyncApi.lean"


def _method_body(src, head_rx, what):
    """body (POSIX branch, comments stripped, tokens normalised) of the function whose head matches `head_rx`"""
    m = re.search(head_rx + r"\s*\{", src)
    if not m:
        raise TransErr(what + " not found")
    depth, i = 1, m.end()
    while i < len(src) and depth:
        depth += {"{": 1, "}": -1}.get(src[i], 0)
        i += 1
    if depth:
        raise TransErr(what + ": unbalanced braces")
    return m, _norm(_posix_branch(src[m.end():i - 1]))


def _expect(rx, text, what):
    m = re.fullmatch(rx, text)
    if not m:
        raise TransErr(f"{what}: not of the transcribed form: {text[:140]}")
    return m


def _guard(repo, cls, hdr):
    """`class Guard` nested in `cls`: which calls on the guarded object do constructor / destructor / wait forward to"""
    src = _strip_comments((Path(repo) / hdr).read_text())
    m = re.search(r"\bclass\s+Guard\s*\{", src)
    if not m:
        raise TransErr(f"{cls}::Guard not found")
    depth, i = 1, m.end()
    while i < len(src) and depth:
        depth += {"{": 1, "}": -1}.get(src[i], 0)
        i += 1
    text = _norm(src[m.end():i - 1])
    text = re.sub(r"\b(public|private|protected) : ", "", text)
    ref = re.search(r"\b" + cls + r" & (\w+) ;", text)
    if not ref:
        raise TransErr(f"{cls}::Guard: reference member `{cls}& m;` not found")
    mem = ref.group(1)
    text = (text[:ref.start()] + text[ref.end():]).strip()
    out = {}

    def calls(body, names, where):
        res = []
        for st in [x.strip() for x in body.split(";") if x.strip()]:
            mm = re.fullmatch(r"(\w+) \. (lock|unlock|tryLock|set) \( \)", st)
            if not mm or mm.group(1) not in names:
                raise TransErr(f"{cls}::Guard {where}: statement is not a call on the guarded object: {st}")
            res.append(mm.group(2))
        return res
    c = re.search(r"\bGuard \( " + cls + r" & (\w+) \) : " + mem + r" \( (\w+) \) \{ ([^{}]*) \}", text)
    if not c or c.group(1) != c.group(2):
        raise TransErr(f"{cls}::Guard: constructor `Guard({cls}& x) : {mem}(x) {{...}}` not found")
    out["Ctor"] = calls(c.group(3), (mem, c.group(1)), "constructor")
    text = text[:c.start()] + text[c.end():]
    d = re.search(r"~ Guard \( \) \{ ([^{}]*) \}", text)
    if not d:
        raise TransErr(f"{cls}::Guard: destructor not found")
    out["Dtor"] = calls(d.group(1), (mem,), "destructor")
    text = (text[:d.start()] + text[d.end():]).strip()
    if cls == "Monitor":
        w = re.search(r"\bbool wait \( \) \{ return " + mem + r" \. wait \( \) ; \}", text)
        if not w:
            raise TransErr("Monitor::Guard::wait() is not `return m.wait();`")
        text = text[:w.start()] + text[w.end():]
        w = re.search(r"\bbool wait \( int64 (\w+) \) \{ return " + mem + r" \. wait \( (\w+) \) ; \}", text)
        if not w or w.group(1) != w.group(2):
            raise TransErr("Monitor::Guard::wait(int64 t) is not `return m.wait(t);`")
        text = text[:w.start()] + text[w.end():]
        out["Wait"], out["WaitTimeout"] = ["wait"], ["waitTimeout"]
    if text.strip():
        raise TransErr(f"{cls}::Guard has members the model does not know: {text.strip()[:100]}")
    return out


def translate_api_facts(repo):
    """Small facts of the anchored code the model writes down as constants, read from the CURRENT sources (shape-pinned:
    anything else is refused): what the Guards forward to, constructor initial values / mutex kinds, destructor call lists,
    the unit conversion of Thread::sleep, and that yield / getCurrentThreadId are plain system calls."""
    R = Path(repo)
    f = {}
    f["mutexGuard"] = _guard(repo, "Mutex", "include/nstd/Mutex.hpp")
    f["monitorGuard"] = _guard(repo, "Monitor", "include/nstd/Monitor.hpp")
    def stmts(body):
        """statements of a brace-free body: ASSERT(...) dropped, VERIFY(X == 0) / VERIFY(X != -1) unwrapped to X"""
        out = []
        for st in [x.strip() for x in body.split(" ;") if x.strip()]:
            if st.startswith("ASSERT ("):
                continue
            mm = re.fullmatch(r"VERIFY \( (.*) (?:== 0|!= - 1) \)", st)
            out.append(mm.group(1) if mm else st)
        return out
    CI, MI = "pthread_cond_init ( ( pthread_cond_t * ) cdata , 0 )", "pthread_mutex_init ( ( pthread_mutex_t * ) mdata , 0 )"
    mu = _strip_comments((R / "src/Mutex.cpp").read_text())
    _, b = _method_body(mu, r"\bMutex\s*::\s*Mutex\s*\(\s*\)", "Mutex::Mutex()")
    m = _expect(r"pthread_mutexattr_t (\w+) # pthread_mutexattr_init \( & \1 \) # pthread_mutexattr_settype \( & \1 , (PTHREAD_MUTEX_\w+) \) # "
                r"pthread_mutex_init \( \( pthread_mutex_t \* \) data , & \1 \)(?: # pthread_mutexattr_destroy \( & \1 \))?", " # ".join(stmts(b)), "Mutex::Mutex()")
    if m.group(2) not in ("PTHREAD_MUTEX_RECURSIVE", "PTHREAD_MUTEX_NORMAL", "PTHREAD_MUTEX_DEFAULT", "PTHREAD_MUTEX_ERRORCHECK"):
        raise TransErr("Mutex::Mutex(): unknown mutex type " + m.group(2))
    f["mutexRecursive"] = m.group(2) == "PTHREAD_MUTEX_RECURSIVE"
    _, b = _method_body(mu, r"\bMutex\s*::\s*~\s*Mutex\s*\(\s*\)", "Mutex::~Mutex()")
    if stmts(b) != ["pthread_mutex_destroy ( ( pthread_mutex_t * ) data )"]:
        raise TransErr("Mutex::~Mutex(): not of the transcribed form: " + b[:120])
    si = _strip_comments((R / "src/Signal.cpp").read_text())
    hm, b = _method_body(si, r"\bSignal\s*::\s*Signal\s*\(\s*bool\s+(\w+)\s*\)", "Signal::Signal(bool)")
    if sorted(stmts(b)) != sorted([CI, MI, "signaled = " + hm.group(1)]):      # three independent initialisations, any order
        raise TransErr("Signal::Signal(bool): not of the transcribed form: " + b[:160])
    sh = _norm(_strip_comments((R / "include/nstd/Signal.hpp").read_text()))
    dm = re.search(r"\bSignal \( bool \w+ = (true|false) \) ;", sh)
    if not dm:
        raise TransErr("Signal.hpp: `Signal(bool set = <default>);` not found")
    f["signalDefaultArg"] = dm.group(1) == "true"
    for cls, srcf in (("Signal", si), ("Monitor", _strip_comments((R / "src/Monitor.cpp").read_text()))):
        _, b = _method_body(srcf, r"\b" + cls + r"\s*::\s*~\s*" + cls + r"\s*\(\s*\)", f"{cls}::~{cls}()")
        if sorted(stmts(b)) != sorted(["pthread_cond_destroy ( ( pthread_cond_t * ) cdata )", "pthread_mutex_destroy ( ( pthread_mutex_t * ) mdata )"]):
            raise TransErr(f"{cls}::~{cls}(): not of the transcribed form: " + b[:160])
    mo = _strip_comments((R / "src/Monitor.cpp").read_text())
    hm = re.search(r"\bMonitor\s*::\s*Monitor\s*\(\s*\)\s*:\s*signaled\s*\(\s*(true|false)\s*\)", mo)
    if not hm:
        raise TransErr("Monitor::Monitor() : signaled(<bool>) not found")
    f["monitorInitFlag"] = hm.group(1) == "true"
    _, b = _method_body(mo, r"\bMonitor\s*::\s*Monitor\s*\(\s*\)\s*:\s*signaled\s*\(\s*\w+\s*\)", "Monitor::Monitor()")
    if sorted(stmts(b)) != sorted([CI, MI]):
        raise TransErr("Monitor::Monitor(): not of the transcribed form: " + b[:160])
    se = _strip_comments((R / "src/Semaphore.cpp").read_text())
    hm, b = _method_body(se, r"\bSemaphore\s*::\s*Semaphore\s*\(\s*uint\s+(\w+)\s*\)", "Semaphore::Semaphore(uint)")
    if stmts(b) != ["sem_init ( ( sem_t * ) data , 0 , " + hm.group(1) + " )"]:
        raise TransErr("Semaphore::Semaphore(uint): not of the transcribed form: " + b[:160])
    _, b = _method_body(se, r"\bSemaphore\s*::\s*~\s*Semaphore\s*\(\s*\)", "Semaphore::~Semaphore()")
    if stmts(b) != ["sem_destroy ( ( sem_t * ) data )"]:
        raise TransErr("Semaphore::~Semaphore(): not of the transcribed form: " + b[:160])
    th = _strip_comments((R / "src/Thread.cpp").read_text())
    if not re.search(r"\bThread\s*::\s*Thread\s*\(\s*\)\s*:\s*thread\s*\(\s*0\s*\)", th):
        raise TransErr("Thread::Thread() : thread(0) not found")
    _, b = _method_body(th, r"\bThread\s*::\s*~\s*Thread\s*\(\s*\)", "Thread::~Thread()")
    _expect(r"if \( thread \) join \( \) ;", b, "Thread::~Thread()")
    _, b = _method_body(th, r"\bvoid\s+Thread\s*::\s*yield\s*\(\s*\)", "Thread::yield()")
    _expect(r"sched_yield \( \) ;", b, "Thread::yield()")
    _, b = _method_body(th, r"\buint32\s+Thread\s*::\s*getCurrentThreadId\s*\(\s*\)", "Thread::getCurrentThreadId()")
    _expect(r"return \( uint32 \) syscall \( __NR_gettid \) ;", b, "Thread::getCurrentThreadId()")
    hm, b = _method_body(th, r"\bvoid\s+Thread\s*::\s*sleep\s*\(\s*int64\s+(\w+)\s*\)", "Thread::sleep(int64)")
    P = re.escape(hm.group(1))
    m = re.fullmatch(r"usleep \( (?:" + P + r" \* (?P<a>[0-9* ()]+?)|(?P<b>[0-9* ()]+?) \* " + P + r") \) ;", b)
    if not m:
        raise TransErr("Thread::sleep(int64 ms) is not `usleep(ms * <constant>);`: " + b[:100])
    f["sleepUsPerMs"] = _const_int(m.group("a") or m.group("b"))
    return f


def translate_api(repo=None):
    try:
        f = translate_api_facts(repo or C.REPO)
    except (OSError, TransErr) as e:
        return False, str(e)
    B = lambda b: "true" if b else "false"
    L = lambda l: "[" + ", ".join("." + x for x in l) + "]"
    g1, g2 = f["mutexGuard"], f["monitorGuard"]
    out = ("/- generated by tools/areas/sync.py (translate_api) from include/nstd/{Mutex,Monitor,Signal}.hpp, src/{Mutex,Signal,Monitor,Semaphore,Thread}.cpp - do not edit -/\n"
           "namespace Nstd.Generated.SyncApi\n\n"
           "/-- a call a Guard member forwards to the guarded object -/\n"
           "inductive Call | lock | tryLock | unlock | set | wait | waitTimeout\nderiving DecidableEq, Repr\n\n"
           "/-- `Mutex::Guard`: the calls on the guarded Mutex made by the constructor / the destructor, in order -/\n"
           f"def mutexGuardCtor : List Call := {L(g1['Ctor'])}\ndef mutexGuardDtor : List Call := {L(g1['Dtor'])}\n\n"
           "/-- `Monitor::Guard`: constructor, destructor, `wait()` and `wait(timeout)` (each returns the result of its last call) -/\n"
           f"def monitorGuardCtor : List Call := {L(g2['Ctor'])}\ndef monitorGuardDtor : List Call := {L(g2['Dtor'])}\n"
           f"def monitorGuardWait : List Call := {L(g2['Wait'])}\ndef monitorGuardWaitTimeout : List Call := {L(g2['WaitTimeout'])}\n\n"
           "/-- `Mutex::Mutex()` initialises its pthread mutex with the attribute PTHREAD_MUTEX_RECURSIVE -/\n"
           f"def mutexRecursive : Bool := {B(f['mutexRecursive'])}\n\n"
           "/-- `Signal::Signal(bool set)`: `signaled = set` (the flag starts as the argument), default argument; internal mutex: default attributes -/\n"
           "def signalInitFlag (set : Bool) : Bool := set\n"
           f"def signalDefaultArg : Bool := {B(f['signalDefaultArg'])}\n\n"
           "/-- `Monitor::Monitor() : signaled(...)`; internal mutex: default attributes (not recursive) -/\n"
           f"def monitorInitFlag : Bool := {B(f['monitorInitFlag'])}\n\n"
           "/-- `Semaphore::Semaphore(uint value)`: `sem_init(data, 0, value)` -/\n"
           "def semInitCount (value : Nat) : Nat := value\n\n"
           "/-- `Thread::sleep(int64 ms)`: `usleep(ms * sleepUsPerMs)` -/\n"
           f"def sleepUsPerMs : Nat := {f['sleepUsPerMs']}\n\n"
           "end Nstd.Generated.SyncApi\n")
    GEN_API.parent.mkdir(parents=True, exist_ok=True)
    if not GEN_API.exists() or GEN_API.read_text() != out:
        GEN_API.write_text(out)
    return True, (f"Mutex::Guard {g1['Ctor']}/{g1['Dtor']}, Monitor::Guard {g2['Ctor']}/{g2['Dtor']}/{g2['Wait']}/{g2['WaitTimeout']}, "
                  f"Mutex recursive={f['mutexRecursive']}, Monitor flag0={f['monitorInitFlag']}, sleep x{f['sleepUsPerMs']}; constructors / destructors / yield / getCurrentThreadId shape-pinned")


GEN_CFG = C.LEAN / "Nstd" / "Generated" / "SyncCfg.lean"
CFG_FUNCTIONS = [  # (Lean name, file, regex of the function head, strip the deadline prefix?)
    ("mutex_lock", "src/Mutex.cpp", r"\bvoid\s+Mutex\s*::\s*lock\s*\(\s*\)", False),
    ("mutex_tryLock", "src/Mutex.cpp", r"\bbool\s+Mutex\s*::\s*tryLock\s*\(\s*\)", False),
    ("mutex_unlock", "src/Mutex.cpp", r"\bvoid\s+Mutex\s*::\s*unlock\s*\(\s*\)", False),
    ("signal_set", "src/Signal.cpp", r"\bvoid\s+Signal\s*::\s*set\s*\(\s*\)", False),
    ("signal_reset", "src/Signal.cpp", r"\bvoid\s+Signal\s*::\s*reset\s*\(\s*\)", False),
    ("signal_wait", "src/Signal.cpp", r"\bbool\s+Signal\s*::\s*wait\s*\(\s*\)", False),
    ("signal_waitT", "src/Signal.cpp", r"\bbool\s+Signal\s*::\s*wait\s*\(\s*int64\s+\w+\s*\)", True),
    ("monitor_tryLock", "src/Monitor.cpp", r"\bbool\s+Monitor\s*::\s*tryLock\s*\(\s*\)", False),
    ("monitor_lock", "src/Monitor.cpp", r"\bvoid\s+Monitor\s*::\s*lock\s*\(\s*\)", False),
    ("monitor_unlock", "src/Monitor.cpp", r"\bvoid\s+Monitor\s*::\s*unlock\s*\(\s*\)", False),
    ("monitor_wait", "src/Monitor.cpp", r"\bbool\s+Monitor\s*::\s*wait\s*\(\s*\)", False),
    ("monitor_waitT", "src/Monitor.cpp", r"\bbool\s+Monitor\s*::\s*wait\s*\(\s*int64\s+\w+\s*\)", True),
    ("monitor_set", "src/Monitor.cpp", r"\bvoid\s+Monitor\s*::\s*set\s*\(\s*\)", False),
    ("semaphore_signal", "src/Semaphore.cpp", r"\bvoid\s+Semaphore\s*::\s*signal\s*\(\s*\)", False),
    ("semaphore_wait", "src/Semaphore.cpp", r"\bbool\s+Semaphore\s*::\s*wait\s*\(\s*\)", False),
    ("semaphore_tryWait", "src/Semaphore.cpp", r"\bbool\s+Semaphore\s*::\s*tryWait\s*\(\s*\)", False),
]


def translate_cfg(repo=None):
    """the POSIX-level control-flow tables of the member functions of Mutex / Signal / Monitor (tools/areas/_sync_cfg.py)"""
    G = _load_cfg()
    repo = Path(repo or C.REPO)
    out = ["import Nstd.Sync.Cfg",
           "/- generated by tools/areas/sync.py (translate_cfg, tools/areas/_sync_cfg.py) from src/{Mutex,Signal,Monitor}.cpp - do not edit -/",
           "namespace Nstd.Generated.SyncCfg", "open Nstd.Sync.Cfg", ""]
    n = 0
    try:
        for name, rel, head, timed in CFG_FUNCTIONS:
            src = _strip_comments((repo / rel).read_text())
            what = {"mutex": "Mutex", "signal": "Signal", "monitor": "Monitor", "semaphore": "Semaphore"}[name.split("_")[0]] + "::" + name.split("_")[1].replace("waitT", "wait(int64)")
            _, body = _method_body(src, head, what)
            if timed:
                body = G.strip_deadline(body, what)
            tab = G.table(body, what)
            n += len(tab[1])
            out.append(G.lean_fn(name, f"`{what}` (POSIX branch): `{body}`", tab))
    except (OSError, TransErr, G.CfgErr) as e:
        return False, str(e)
    try:
        # Thread: the handle `thread` plays the role of the flag; start(obj, member) = test, functor store, then the body of start
        th = _strip_comments((repo / "src/Thread.cpp").read_text())
        _, b_start = _method_body(th, r"\bbool\s+Thread\s*::\s*start\s*\(\s*uint\s*\(\s*\*\s*proc\s*\)\s*\(\s*void\s*\*\s*\)\s*,\s*void\s*\*\s*param\s*\)", "Thread::start(proc, param)")
        _, b_join = _method_body(th, r"\buint\s+Thread\s*::\s*join\s*\(\s*\)", "Thread::join()")
        _, b_dtor = _method_body(th, r"\bThread\s*::\s*~\s*Thread\s*\(\s*\)", "Thread::~Thread()")
        hp = _strip_comments((repo / "include/nstd/Thread.hpp").read_text())
        _, b_m = _method_body(hp, r"\btemplate\s*<\s*class\s+X\s*>\s*bool\s+start\s*\(\s*X\s*&\s*obj\s*,\s*uint\s*\(\s*X\s*::\s*\*\s*ptr\s*\)\s*\(\s*\)\s*\)", "Thread::start(obj, member)")
        subs = [(r"typename Call < uint > :: Member < X > :: Func0 func \( obj , ptr \) ; ", ""),
                (r"this -> func = \* \( Call < uint > :: Member < Thread > :: Func0 \* \) & func ;", "STOREFUNC ;"),
                (r"return start \( \( uint \( \* \) \( void \* \) \) & proc < typename Call < uint > :: Member < X > :: Func0 > , & this -> func \) ;", b_start)]
        for rx, rep in subs:
            if len(re.findall(rx, b_m)) != 1:
                raise TransErr("Thread::start(obj, member): statement not of the transcribed form: " + rx[:50])
            b_m = re.sub(rx, lambda _m, rep=rep: rep, b_m)
        if len(re.findall(r"\bjoin \( \) ;", b_dtor)) != 1:
            raise TransErr("Thread::~Thread(): no single `join();`")
        inl = re.sub(r"\breturn [^;]*;", "return ;", b_join)
        b_dtor = re.sub(r"\bjoin \( \) ;", lambda _m: "{ " + inl + " }", b_dtor)
        for name, what, body in (("thread_start", "Thread::start(proc, param)", b_start), ("thread_mstart", "Thread::start(obj, member) with start(proc, param) inlined", b_m),
                                 ("thread_join", "Thread::join()", b_join), ("thread_dtor", "Thread::~Thread() with join() inlined", b_dtor)):
            tab = G.table(body, what, G.ThreadParser)
            n += len(tab[1])
            out.append(G.lean_fn(name, f"`{what}` (POSIX branch; flag = the handle `thread` is set): `{body}`", tab))
        # Semaphore::wait(int64): errno classes, goto, the counted polling loop (decision trees over `i < timeout`)
        b_sw, stab, _ = sem_wait_table(repo)
        n += len(stab[1])
        out.append(G.lean_sem_fn("semaphore_waitT", f"`Semaphore::wait(int64)` after the deadline arithmetic (POSIX branch): `{b_sw}`", stab))
    except (OSError, TransErr, G.CfgErr) as e:
        return False, str(e)
    out.append("end Nstd.Generated.SyncCfg")
    text = "\n".join(out) + "\n"
    GEN_CFG.parent.mkdir(parents=True, exist_ok=True)
    if not GEN_CFG.exists() or GEN_CFG.read_text() != text:
        GEN_CFG.write_text(text)
    return True, f"{len(CFG_FUNCTIONS) + 5} member functions, {n} program points"


GEN_SHAPE = C.LEAN / "Nstd" / "Generated" / "SyncShape.lean"


def translate_shape(repo=None):
    """Which of the variants that the contract leaves open does the CURRENT source have (the transition systems are parametric
    in them and every theorem holds for all values; the driver instantiates the model with these, and the `*_is_translated_code`
    theorems check the instance against the translated tables): read off the control-flow tables."""
    repo = Path(repo or C.REPO)
    try:
        G = _load_cfg()
        si = _strip_comments((repo / "src/Signal.cpp").read_text())
        _, b = _method_body(si, r"\bvoid\s+Signal\s*::\s*set\s*\(\s*\)", "Signal::set()")
        entry, nodes = G.table(b, "Signal::set()")
        if not nodes or nodes[0][0] != "mutexLock" or nodes[0][1][0] is None or nodes[0][1][0][3][0] != "node":
            raise TransErr("Signal::set(): does not begin with the lock of the internal mutex")
        skips = nodes[nodes[0][1][0][3][1]][0] != "condBroadcast"        # what follows the lock when the flag is already set
        _, b = _method_body(si, r"\bbool\s+Signal\s*::\s*wait\s*\(\s*int64\s+\w+\s*\)", "Signal::wait(int64)")
        entry, nodes = G.table(G.strip_deadline(b, "Signal::wait(int64)"), "Signal::wait(int64)")
        if entry[1] is None:
            raise TransErr("Signal::wait(int64): traps at once")
        lazy = not entry[1][2]                                          # is the clock read before the first POSIX call?
        _, (sentry, snodes), _ = sem_wait_table(repo)
        if sentry is None or sentry[1][0] != "node":
            raise TransErr("Semaphore::wait(int64): no POSIX call")
        tryfirst = snodes[sentry[1][1]][0] == "semTryWait"
    except (OSError, TransErr, G.CfgErr) as e:
        return False, str(e)
    B = lambda x: "true" if x else "false"
    out = ("/- generated by tools/areas/sync.py (translate_shape) from the control-flow tables of src/Signal.cpp, src/Semaphore.cpp - do not edit -/\n"
           "namespace Nstd.Generated.SyncShape\n\n"
           "/-- `Signal::set()` on a flag that is already set goes straight to the unlock (no store, no broadcast) -/\n"
           f"def signalSetSkips : Bool := {B(skips)}\n\n"
           "/-- `Signal::wait(int64)` reads the clock only after its lock (when the flag is clear), not before the first POSIX call -/\n"
           f"def signalLazyDeadline : Bool := {B(lazy)}\n\n"
           "/-- `Semaphore::wait(int64)` begins with a `sem_trywait` fast path -/\n"
           f"def semTryFirst : Bool := {B(tryfirst)}\n\n"
           "end Nstd.Generated.SyncShape\n")
    GEN_SHAPE.parent.mkdir(parents=True, exist_ok=True)
    if not GEN_SHAPE.exists() or GEN_SHAPE.read_text() != out:
        GEN_SHAPE.write_text(out)
    return True, f"Signal::set skips when set: {skips}; Signal::wait(timeout) lazy deadline: {lazy}; Semaphore::wait(timeout) trywait first: {tryfirst}"


def gen(ctx):
    parts = [("deadline arithmetic of the timed waits -> Nstd/Generated/SyncDeadline.lean: ", translate()),
             ("order of Monitor::set -> Nstd/Generated/SyncMonitorOrder.lean: ", translate_order()),
             ("constants of the ENOSYS polling loop, read off the table of Semaphore::wait(int64) -> Nstd/Generated/SyncSemPoll.lean: ", translate_poll()),
             ("Guards, constructors, destructors, Thread::sleep/yield/getCurrentThreadId -> Nstd/Generated/SyncApi.lean: ", translate_api()),
             ("control-flow tables of the member functions of Mutex / Signal / Monitor / Semaphore / Thread -> Nstd/Generated/SyncCfg.lean: ", translate_cfg()),
             ("variants of Signal::set / Signal::wait(timeout) / Semaphore::wait(timeout) the model is instantiated with -> Nstd/Generated/SyncShape.lean: ", translate_shape())]
    if ctx is not None:
        ctx.cov["translated"] = "; ".join(h + m for h, (o, m) in parts)
    return all(o for _, (o, _) in parts), "; ".join(m for _, (o, m) in parts if not o)


def setup():
    for ok, msg in (translate(), translate_order(), translate_poll(), translate_api(), translate_cfg(), translate_shape()):
        if not ok:
            print("sync translate:", msg)


# ---- scenarios -----------------------------------------------------------------------------------
class Scen:
    def __init__(self, prim, init, sec, nsec, quantum, spur, eintr, progs, cfail=0, enosys=0):
        self.cfail = cfail                                      # how often pthread_create may fail
        self.enosys = enosys                                    # how often sem_timedwait may report ENOSYS (implementation-only runs)
        self.prim, self.init, self.sec, self.nsec, self.quantum = prim, init, sec, nsec, quantum
        self.spur, self.eintr, self.progs = spur, eintr, progs      # progs = [(ret, [op,...]), ...]

    def line(self):
        return (f"scen {self.prim} {self.init} {self.sec} {self.nsec} {self.quantum} {self.spur} {self.eintr} "
                + (f"F:{self.cfail} " if self.cfail else "") + (f"N:{self.enosys} " if self.enosys else "") + " ".join(f"T:{r}:{','.join(ops)}" for r, ops in self.progs))

    @staticmethod
    def parse(line):
        t = line.split()
        if len(t) < 9 or t[0] != "scen":
            return None
        progs, cfail, enosys = [], 0, 0
        for tok in t[8:]:
            if tok.startswith("F:"):
                cfail = int(tok[2:])
                continue
            if tok.startswith("N:"):
                enosys = int(tok[2:])
                continue
            _, r, ops = tok.split(":")
            progs.append((int(r), [o for o in ops.split(",") if o]))
        return Scen(t[1], int(t[2]), int(t[3]), int(t[4]), int(t[5]), int(t[6]), int(t[7]), progs, cfail, enosys)


def gen_body(rng, prim, budget):
    """a well-formed op list for one worker thread (whole blocks only)"""
    blocks = []
    tmo = lambda: rng.choice([0, 1, 2, 999, 1000, 1001, 1500])
    if prim == "mtx":
        for _ in range(rng.choice([1, 1, 2])):
            inner = []
            if rng.random() < 0.4:
                inner = rng.choice([["lock", "unlock"], ["try-1", "unlock"]])
            if rng.random() < 0.6:
                blocks.append(["lock"] + inner + ["unlock"])
            else:
                blocks.append([f"try-{len(inner) + 1}"] + inner + ["unlock"])
    elif prim == "sem":
        for _ in range(rng.choice([1, 2, 2, 3])):
            blocks.append([rng.choice(["signal", "signal", "wait", "wait", f"twait-{tmo()}", "trywait"])])
    elif prim == "semN":        # scenarios in which sem_timedwait may report ENOSYS: time-outs around the 10 ms poll step
        for _ in range(rng.choice([1, 2, 2, 3])):
            blocks.append([rng.choice(["signal", "signal", "wait", f"twait-{rng.choice([0, 1, 9, 10, 11, 20, 25, 30])}",
                                       f"twait-{rng.choice([0, 1, 9, 10, 11, 20, 25, 30])}", "trywait"])])
    elif prim == "sig":
        for _ in range(rng.choice([1, 1, 2, 3])):
            blocks.append([rng.choice(["set", "set", "reset", "wait", "wait", f"twait-{tmo()}"])])
    elif prim == "mon":
        for _ in range(rng.choice([1, 1, 2])):
            k = rng.random()
            if k < 0.4:
                blocks.append(["set"])
            else:
                inner = [rng.choice(["wait", "wait", f"twait-{tmo()}"]) for _ in range(rng.choice([1, 1, 2]))]
                if rng.random() < 0.04:
                    inner.append("set")          # set() while holding the (non-recursive) monitor: self-deadlock
                if k < 0.85:
                    blocks.append(["lock"] + inner + ["unlock"])
                else:
                    blocks.append([f"try-{len(inner) + 1}"] + inner + ["unlock"])
    ops = []
    for b in blocks:
        if prim in ("mtx", "mon") and b and b[0] == "lock" and not any(o.startswith("try") for o in b) and rng.random() < 0.3:
            # the same block through Mutex::Guard / Monitor::Guard
            ren = {"lock": "glock", "unlock": "gunlock", "wait": "gwait"}
            b = [ren.get(o, "gtwait-" + o.split("-")[1] if o.startswith("twait-") and prim == "mon" else o) for o in b]
        if len(ops) + len(b) <= budget:
            ops += b
    if rng.random() < 0.08:
        ops.insert(rng.randrange(len(ops) + 1) if not any(o.startswith("try") for o in ops) else 0, rng.choice(["tid", "yield"]))
    return ops


def gen_destroy_scen(rng):
    """Signal handshake in which the waiter owns the object: exactly one set() by one other thread, the waiter deletes the
    Signal after its untimed wait() returned (the pattern of Future: the joining thread destroys the future's signal).
    No correct implementation touches the object after that wait has returned."""
    k = rng.choice([1, 2])
    setter = rng.randrange(1, k + 1)
    main = [f"start-{j}" for j in range(1, k + 1)]
    rng.shuffle(main)
    main += ["wait", "destroy"] + [f"join-{j}" for j in range(1, k + 1)]
    progs = [(rng.randrange(2 ** 32), main)] + [(rng.randrange(2 ** 32), ["set"] if j == setter else []) for j in range(1, k + 1)]
    return Scen("sig", 0, rng.choice([0, 5]), rng.randrange(NSEC), 1, rng.choice([0, 1, 2]), 0, progs)


def gen_scen(rng, prim=None):
    if prim is None and rng.random() < 0.06:
        return gen_destroy_scen(rng)
    prim = prim or rng.choice(["mtx", "sem", "sem", "sig", "sig", "mon", "mon", "thr"])
    k = rng.choice([1, 2, 2, 3])                      # worker threads; 2..4 threads in total
    rets = [rng.choice([0, 1, 7, 2147483648, 4294967295, rng.randrange(2 ** 32)]) for _ in range(k + 1)]
    enosys = rng.choice([1, 1, 2, 3]) if prim == "sem" and rng.random() < 0.4 else 0
    workers = [gen_body(rng, "semN" if enosys else prim, 8) for _ in range(k)]
    main = [f"{rng.choice(['start', 'mstart'])}-{j}" for j in range(1, k + 1)]
    if prim != "thr" and rng.random() < 0.5:
        main += gen_body(rng, prim, 4)
    joins = [f"join-{j}" for j in range(1, k + 1)]
    rng.shuffle(joins)
    main += joins
    if prim == "thr" or rng.random() < 0.15:           # Thread edge cases: double start, join twice, join unstarted
        j = rng.randrange(1, k + 1)
        extra = rng.choice(["start", "join", "join0", "dtor", "dtor"])
        if extra == "start":
            at = [i for i, o in enumerate(main) if o in (f"start-{j}", f"mstart-{j}")][0]
            other = rng.randrange(1, k + 1)
            main.insert(at + 1, f"xstart-{8 * j + other}" if rng.random() < 0.5 else f"start-{j}")
        elif extra == "join":
            main.append(f"join-{j}")
        elif extra == "dtor":                      # ~Thread instead of join: joins a thread that is still attached
            main[main.index(f"join-{j}")] = f"dtor-{j}"
            if rng.random() < 0.5:
                main.append(f"join-{j}")
        else:
            main.insert(0, f"join-{j}")
    progs = [(rets[0], main)] + [(rets[i + 1], workers[i]) for i in range(k)]
    tmos = [int(o.split("-")[1]) for _, ops in progs for o in ops if o.startswith(("twait-", "gtwait-"))]
    mx = max(tmos) if tmos else 0
    if enosys:                  # the poll loop sleeps 10 ms per iteration
        quantum = rng.choice([10000000, 10000000, 5000000, 9999999, 3333334, 20000000])
    elif mx > 0:
        quantum = rng.choice([mx * 1000000, mx * 1000000 // 2, mx * 1000000 - 1, mx * 1000000 // 2 + 1, mx * 1000000 // 3 + 1])
    else:
        quantum = rng.choice([1, 1000000])
    if quantum >= 333334 and rng.random() < 0.15:      # Thread::sleep on the virtual clock (few ticks only)
        tgt = progs[rng.randrange(len(progs))][1]
        if not any(o.startswith("try") for o in tgt):
            tgt.insert(rng.choice([0, len(tgt)]) if tgt is not progs[0][1] else 0, f"sleep-{rng.choice([0, 1, 1, 2])}")
    nsec = rng.choice([0, 1, 999999999, 999000000, 500000000, 999999999 - (mx % 1000) * 1000000 if mx else 0, rng.randrange(NSEC)])
    nsec = min(max(nsec, 0), NSEC - 1)
    init = {"sem": rng.choice([0, 0, 1, 2]), "sig": rng.choice([0, 0, 1])}.get(prim, 0)
    cfail = rng.choice([0, 0, 0, 1, 2]) if prim == "thr" else rng.choice([0] * 9 + [1])
    if any(o.startswith("xstart-") for o in main):
        cfail = 0                                   # xstart is only defined on an attached object
    return Scen(prim, init, rng.choice([0, 5, 1700000000]), nsec, quantum, rng.choice([0, 1, 1, 2]), rng.choice([0, 1, 2]), progs, cfail, enosys)


# ---- trace parsing ----------------------------------------------------------------------------------
class Trace:
    def __init__(self, line):
        self.ok = False
        self.line = line
        if not line.startswith("init:") or " | " not in line:
            return
        body, verdict = line.rsplit(" | ", 1)
        vt = verdict.split()
        self.verdict = vt[0] if vt else ""
        self.stuck = [int(x) for x in vt[1:] if x.isdigit()]
        self.flags = [x for x in vt[1:] if x.startswith("!")]
        toks = body.split(" ")
        self.init_events = [e for e in toks[0][5:].split(",") if e]
        self.steps = []          # (t, a, cands[(t,a)], events[str])
        try:
            for tok in toks[1:]:
                head, evs = tok.split(":", 1)
                ch, cands = head.split("/", 1)
                t, a = ch.split(".")
                cl = [tuple(int(x) for x in c.split(".")) for c in cands.split(",") if c]
                self.steps.append((int(t), int(a), cl, [e for e in evs.split(",") if e]))
        except ValueError:
            return
        self.ok = True

    def choices(self):
        return [(t, a) for t, a, _, _ in self.steps]


def sched_str(choices):
    return ",".join(f"{t}.{a}" for t, a in choices) if choices else "-"


# ---- the independent reference: the contracts of C11 evaluated on the implementation's trace ----------
class Call:
    __slots__ = ("t", "k", "op", "arg", "b", "e", "val", "tb", "te", "enosys", "taken")

    def __init__(self, t, k, op, arg, b, tb):
        self.t, self.k, self.op, self.arg, self.b, self.tb = t, k, op, arg, b, tb
        self.e, self.val, self.te = None, None, None
        self.enosys = False            # sem_timedwait of this call reported ENOSYS: the call is in the polling fallback
        self.taken = 0                 # units this call took from the semaphore


def split_op(o):
    name, arg = (o.split("-")[0], int(o.split("-")[1])) if "-" in o else (o, None)
    if name == "xstart":                    # second start() on object arg // 8 (with the body of another program)
        return "start", arg // 8
    # Mutex::Guard / Monitor::Guard: constructor = lock, destructor = unlock, Guard::wait = wait
    name = {"mstart": "start", "glock": "lock", "gunlock": "unlock", "gwait": "wait", "gtwait": "twait"}.get(name, name)
    return name, arg


DLCOV = {}      # measured: timed waits by primitive x clock phase (tv_nsec carry or not) x time-out >= 1 s x result
STATS = {}      # measured: how often each call returned what, non-default alternatives taken, ticks (filled by `contracts`)


def bump(key, n=1):
    STATS[key] = STATS.get(key, 0) + n


def contracts(sc, tr):
    """returns None or a description of the first contract violation seen in the trace"""
    if not tr.ok:
        return None if tr.line.startswith("bad-op") else "unparsable trace: " + tr.line[:120]
    if tr.verdict in ("bad-schedule",):
        return None
    if tr.verdict not in ("done", "deadlock"):
        return "unexpected verdict " + tr.verdict
    if tr.flags:
        # !exclusion = the harness' own critical-section occupancy counter; !use-after-destroy:<call> = the library called the
        # POSIX layer on a mutex / condition variable that had been destroyed (undefined behaviour; the model assumes it away)
        return "flagged by the harness / simulated POSIX layer: " + " ".join(tr.flags)
    n = len(sc.progs)
    now = sc.sec * NSEC + sc.nsec
    pos = [0] * n                      # next op index per thread
    cur = [None] * n                   # call in progress
    calls = []
    started = [False] * n
    finished_at = [None] * n           # step index of the last step of a finished thread
    handle = [False] * n               # Thread object j holds a live handle
    errs = []
    nfail = [0]
    wait_entering = [False] * n

    def begin(t, b):
        ops = sc.progs[t][1]
        if pos[t] < len(ops):
            op, arg = split_op(ops[pos[t]])
            c = Call(t, pos[t], op, arg, b, now)
            cur[t] = c
            calls.append(c)
        else:
            cur[t] = None
            finished_at[t] = b

    # primitive state seen by the reference
    holder, depth = None, 0
    count = sc.init                    # semaphore
    posts = succ = 0
    sets_begun = wait_true = 0
    true_ends = []                     # step indices of successful monitor waits

    def acquire(t, where):
        nonlocal holder, depth
        if depth > 0 and holder != t:
            errs.append(f"mutual exclusion: thread {t} entered at step {where} while thread {holder} is inside")
        holder, depth = t, depth + 1

    def release(t, where):
        nonlocal holder, depth
        if holder != t or depth <= 0:
            errs.append(f"unlock by non-holder {t} at step {where}")
            return
        depth -= 1
        if depth == 0:
            holder = None

    def begun_hook(t, i):
        nonlocal sets_begun
        c2 = cur[t]
        if c2 is not None:
            if c2.op == "set" and sc.prim == "mon":
                sets_begun += 1
            if c2.op in ("wait", "twait") and sc.prim == "mon":
                wait_entering[t] = True        # the monitor is released by the first step of the wait call

    def on_event(t, ev, i):
        nonlocal count, posts, succ, wait_true
        k, v = ev.split("=")
        c = cur[t]
        if c is None or c.k != int(k):
            errs.append(f"event {ev} of thread {t} at step {i} does not match its program position")
            return
        c.e, c.val, c.te = i, v, now
        op = c.op
        bump(f"{sc.prim}.{op}={'result' if op == 'join' else v}")
        skip = 0
        if op in ("lock",):
            acquire(t, i)
        elif op == "try":
            # Monitor: a concurrent set() takes the monitor's own mutex for a moment, and a thread inside wait() owns it
            # between a wake-up and going back to sleep: then tryLock may legitimately fail (exact for Mutex)
            busy_set = sc.prim == "mon" and any(x is not None and x.op in ("set", "wait", "twait") and x.t != t for x in cur)
            free = (depth == 0 or (holder == t and sc.prim == "mtx")) and not busy_set
            if v == "1":
                acquire(t, i)
            elif free:
                errs.append(f"tryLock of thread {t} failed at step {i} although the lock was free / owned by the caller")
            if v != "1":
                skip = c.arg
        elif op == "unlock":
            release(t, i)
        elif op == "signal":
            count += 1
            posts += 1
        elif op in ("wait", "twait", "trywait") and sc.prim == "sem":
            if v == "1":
                succ += 1
                count -= 1
                if count < 0:
                    errs.append(f"semaphore: successful waits ({succ}) exceed initial ({sc.init}) + signals ({posts}) at step {i}")
            elif op == "trywait" and count > 0:
                errs.append(f"semaphore: tryWait failed at step {i} while the count is {count}")
        elif op in ("wait", "twait") and sc.prim == "mon":
            acquire(t, i)
            if v == "1":
                wait_true += 1
                true_ends.append(i)
                if wait_true > sets_begun:
                    errs.append(f"monitor: {wait_true} successful waits but only {sets_begun} set() calls begun at step {i}")
        elif op == "start":
            # false is legitimate when the object already holds a thread, or when pthread_create failed: the step that executed
            # the pending create took alternative 1 (budgeted by the scenario)
            create_failed = i >= 0 and c.b < i and tr.steps[i][1] == 1
            if create_failed:
                nfail[0] += 1
            if v == "1" and handle[c.arg]:
                errs.append(f"Thread::start-{c.arg} returned true at step {i} although the object already holds a thread")
            if v == "0" and not handle[c.arg] and not (create_failed and nfail[0] <= sc.cfail):
                errs.append(f"Thread::start-{c.arg} returned false at step {i} with a clear handle and no pthread_create failure")
            if v == "1" and create_failed:
                errs.append(f"Thread::start-{c.arg} returned true at step {i} although pthread_create failed")
            if v == "1":
                handle[c.arg] = True
        elif op == "dtor":
            j = c.arg
            if handle[j] and finished_at[j] is None:
                errs.append(f"~Thread of object {j} returned at step {i} before the thread function finished")
            handle[j] = False
        elif op == "join":
            j = c.arg
            if not handle[j]:
                if v != "0":
                    errs.append(f"Thread::join-{j} on a thread object without handle returned {v}")
            else:
                if finished_at[j] is None:
                    errs.append(f"Thread::join-{j} returned at step {i} before the thread function finished")
                if int(v) != sc.progs[j][0] % (2 ** 32):
                    errs.append(f"Thread::join-{j} returned {v}, the thread function returned {sc.progs[j][0]}")
                handle[j] = False
        if op == "twait":
            # clock phase of the call: does (ns within the second) + (timeout % 1000) ms cross a full second (tv_nsec carry)?
            carry = (c.tb % NSEC) + (c.arg % 1000) * 1000000 >= NSEC
            key = f"{sc.prim} nsec-carry={'yes' if carry else 'no'} timeout>=1000ms={'yes' if c.arg >= 1000 else 'no'} returned={v}"
            DLCOV[key] = DLCOV.get(key, 0) + 1
            if v == "0" and c.te == c.tb + c.arg * 1000000:
                DLCOV[f"{sc.prim} false exactly at the deadline"] = DLCOV.get(f"{sc.prim} false exactly at the deadline", 0) + 1
        if op == "sleep":
            bump("Thread::sleep returned")
            if c.te < c.tb + c.arg * 1000000:
                errs.append(f"Thread::sleep({c.arg}) of thread {t} returned at virtual time {c.te} < call time {c.tb} + {c.arg} ms")
        if op == "twait" and c.enosys:
            bump(f"polling fallback: wait(timeout) returned {v}" + (" with time-out 0" if c.arg == 0 else ""))
        if op == "twait" and v == "0":
            if c.te < c.tb + c.arg * 1000000:
                errs.append(f"timed wait of thread {t} (op {c.k}, {c.arg} ms) returned false at virtual time {c.te} < call time {c.tb} + time-out")
        if op == "wait" and v == "0" and sc.prim in ("sig", "mon"):
            errs.append(f"untimed wait of thread {t} returned false at step {i}")
        pos[t] = c.k + 1 + (skip or 0)
        # the next call begins in the same atomic step
        begin(t, i)
        begun_hook(t, i)

    started[0] = True
    begin(0, -1)
    begun_hook(0, -1)
    for ev in tr.init_events:
        on_event(0, ev, -1)
    for i, (t, a, cands, evs) in enumerate(tr.steps):
        cset = set(cands)
        # contracts that speak about enabledness, evaluated on the state BEFORE step i
        for u in range(n):
            c = cur[u]
            if c is None or not started[u]:
                continue
            if c.op == "try" and (u, 0) not in cset:
                errs.append(f"tryLock of thread {u} is not schedulable at step {i}: it blocks")
            # (the ENOSYS fallback of wait(timeout) polls: between two polls the waiter sleeps <= 10 ms although the count may be
            #  positive - it is not blocked as long as time can pass)
            if sc.prim == "sem" and c.op in ("wait", "twait", "trywait") and count > 0 and (u, 0) not in cset \
                    and not (sc.enosys and c.op == "twait" and (99, 0) in cset):
                errs.append(f"semaphore: thread {u} stays blocked in {c.op} at step {i} while the count is {count}")
            if sc.prim == "mtx" and c.op == "lock" and (depth == 0 or holder == u) and (u, 0) not in cset:
                errs.append(f"mutex: lock of thread {u} blocks at step {i} although the mutex is free / owned by the caller")
        if t == 99:
            now += sc.quantum
            bump("clock ticks taken")
            continue
        if a > 0:
            bump("alternative >= 1 taken (time-out / EINTR / n-th waiter signalled)")
        if a == 3 and sc.prim == "sem" and t < n and cur[t] is not None and cur[t].op == "twait":
            cur[t].enosys = True
            bump("sem_timedwait reported ENOSYS (polling fallback entered)")
        elif sc.prim == "sem" and t < n and cur[t] is not None and cur[t].enosys and not evs:
            bump("polling fallback: step that stays in the call (sem_trywait failed / usleep returned)")
        if t >= n:
            errs.append(f"unknown thread {t}")
            break
        if not started[t]:
            started[t] = True
            begin(t, i)
            begun_hook(t, i)
        if wait_entering[t]:
            wait_entering[t] = False
            release(t, i)
        for ev in evs:
            on_event(t, ev, i)
        if errs:
            break
    if errs:
        return errs[0]
    bump(f"verdict {sc.prim} {tr.verdict}")
    INF = 10 ** 9
    if sc.prim == "sig":
        sets = [c for c in calls if c.op == "set"]
        resets = [c for c in calls if c.op == "reset"]
        end = lambda c: INF if c.e is None else c.e
        for w in calls:
            if w.op in ("wait", "twait") and w.val == "1":
                cands = ([(-5, -5)] if sc.init else []) + [(s.b, end(s)) for s in sets if s.b <= w.e]
                okay = any(not any(se <= q.b and end(q) <= w.b for q in resets) for sb, se in cands)
                if not okay:
                    return (f"signal: wait of thread {w.t} (op {w.k}) returned true at step {w.e} but no set() since the last "
                            f"completed reset() can explain it")
        if tr.verdict == "deadlock":
            stuck_wait = [c for c in calls if c.e is None and c.op == "wait"]
            done_sets = [s for s in sets if s.e is not None]
            if stuck_wait:
                definitely_set = (bool(done_sets) or bool(sc.init)) and all(
                    q.e is not None and any(q.e <= s.b for s in done_sets) for q in resets)
                if definitely_set:
                    return f"signal: thread {stuck_wait[0].t} stays blocked in wait() although the signal remains set"
    # (a waiter that was woken still has to re-acquire the monitor: if a client keeps the monitor locked for ever - e.g. it
    #  dead-locked itself by calling set() while holding the non-recursive monitor - the waiter is stuck through no fault of
    #  set(); the rule therefore only applies when the monitor is free at the end)
    if sc.prim == "mon" and tr.verdict == "deadlock" and depth == 0:
        for w in calls:
            if w.e is None and w.op == "wait":
                for s in calls:
                    if s.op == "set" and s.e is not None and s.b > w.b and not any(x >= s.b for x in true_ends):
                        return (f"monitor: set() of thread {s.t} (begun at step {s.b}, after thread {w.t} entered wait at step {w.b}) "
                                f"released no waiter and thread {w.t} stays blocked")
    if tr.verdict == "deadlock":
        for c in calls:
            if c.e is None and started[c.t]:
                if sc.prim == "sem" and c.op in ("wait", "twait", "trywait") and count > 0:
                    return f"semaphore: thread {c.t} blocked in {c.op} at the end while the count is {count}"
                if c.op in ("try", "trywait", "signal", "sleep") or (c.op in ("twait", "set", "reset") and sc.prim in ("sig", "sem")):
                    return f"thread {c.t} is stuck in the non-blocking / timed call {c.op}"
                if sc.prim == "mtx" and c.op == "lock" and depth == 0:
                    return f"mutex: thread {c.t} blocked in lock() on a free mutex"
    return None


def reference(hist, impl_out):
    """one entry per op line: None (nothing to object) or the violated contract"""
    out, sc = [], None
    for k, line in enumerate(hist):
        if line.startswith("scen"):
            try:
                sc = Scen.parse(line)
            except (ValueError, IndexError):
                sc = None
            out.append(None)
        elif line.startswith(("run", "rrun")) and sc is not None and k < len(impl_out):
            out.append(contracts(sc, Trace(impl_out[k])))
        else:
            out.append(None)
    return out


reference.uses_impl = True
reference.eq = lambda impl, ref: False          # any reference entry is a complaint about the implementation's line


# ---- exploration -----------------------------------------------------------------------------------------
class Explorer:
    """stateless exhaustive enumeration in waves: a run follows its prefix and then the default policy; every
    candidate that was not taken at a point < depth spawns a new prefix.  Each maximal choice sequence of the
    first `depth` scheduling points is executed exactly once."""

    def __init__(self, ctx, harness, driver):
        self.ctx, self.harness, self.driver = ctx, harness, driver
        self.diffs = []
        self.captured = {}
        self.keys = set()
        self.runs = 0
        self.verdicts = {}
        self.max_points = 0

    def _capture(self, h, o):
        self.captured[id(h)] = o
        sc = h[0]
        for line in o[1:]:
            if " | " in line:
                tr = Trace(line)
                if tr.ok:
                    self.verdicts[tr.verdict] = self.verdicts.get(tr.verdict, 0) + 1
                    self.max_points = max(self.max_points, len(tr.steps))
                    obs = ";".join(f"{t}:{','.join(e)}" for t, a, c, e in tr.steps if e) + "|" + tr.verdict
                    if len({t for t, _, _, _ in tr.steps if t != 99}) >= 2:
                        self.keys.add(hashlib.sha1((sc + obs).encode()).hexdigest())
        return None

    def run(self, histories):
        if not histories:
            return {}
        self.captured = {}
        before = self.ctx.cov["distinct_nontrivial"]
        ds = C.differential(self.ctx, self.harness, self.driver, histories, reference, C.default_eq,
                            nontrivial=self._capture, timeout=600)
        self.ctx.cov["distinct_nontrivial"] = before       # counted once at the end from self.keys
        self.diffs += ds
        self.runs += sum(len(h) - 1 for h in histories)
        return {id(h): self.captured.get(id(h), []) for h in histories}

    def exhaustive(self, scens, depth, cap, batch=60, max_dev=None):
        """returns per scenario (runs, complete?).  With max_dev only choice sequences with at most that many deviations
        from the default policy are run (wave k = k deviations), at any depth < `depth`."""
        rng = self.ctx.rng
        pending = {i: [()] for i in range(len(scens))}
        total = {i: 0 for i in range(len(scens))}
        complete = {i: True for i in range(len(scens))}
        wave = 0
        while pending and (max_dev is None or wave <= max_dev):
            wave += 1
            hs, index = [], []
            for i, prefs in pending.items():
                for k in range(0, len(prefs), batch):
                    part = prefs[k:k + batch]
                    h = [scens[i].line()] + [f"run {sched_str(p)}" for p in part]
                    hs.append(h)
                    index.append((i, part))
            outs = self.run(hs)
            new = {}
            for h, (i, part) in zip(hs, index):
                o = outs.get(id(h), [])
                total[i] += len(part)
                for p, line in zip(part, o[1:]):
                    tr = Trace(line)
                    if not tr.ok:
                        continue
                    ch = tr.choices()
                    for pos in range(len(p), min(depth, len(tr.steps))):
                        t, a, cands, _ = tr.steps[pos]
                        for c in cands:
                            if c != (t, a) and pos < 500:          # the harness takes at most 512 explicit choices
                                new.setdefault(i, []).append(tuple(ch[:pos]) + (c,))
            pending = {}
            for i, prefs in new.items():
                room = cap - total[i]
                if room <= 0:
                    complete[i] = False
                    continue
                if len(prefs) > room:
                    complete[i] = False
                    rng.shuffle(prefs)
                    prefs = prefs[:room]
                pending[i] = prefs
        return total, complete

    def random(self, scens, per_scen, batch=60):
        rng = self.ctx.rng
        hs = []
        for sc in scens:
            seeds = [rng.randrange(1, 2 ** 63) for _ in range(per_scen)]
            for k in range(0, len(seeds), batch):
                hs.append([sc.line()] + [f"rrun {s} -" for s in seeds[k:k + batch]])
        self.run(hs)


def build(ctx):
    shim = str(C.VERIF / "harness" / "sync" / "shim.h")
    srcs = ["sync.cpp", "sync/sched.cpp"] + [C.REPO / "src" / f"{n}.cpp" for n in LIB_SOURCES]
    return C.build_harness(ctx, "sync", srcs, extra_flags=["-include", shim], libs=["-lpthread"])


def monitor_destroy_whatif(ctx, harness):
    """INFORMATION, not a verdict: Monitor::set() signals after it released the mutex, like Signal::set() did before
    fixes/sync/0001.  Here a waiter deletes the Monitor after a successful wait() while the setter has not signalled yet.
    All schedules of that scenario are run on the implementation only; reported: how many touch the destroyed condition
    variable with / without a spurious wake-up budget."""
    res = {}
    for spur in (0, 1):
        scen = f"scen mon 0 5 0 1 {spur} 0 T:0:start-1,lock,wait,unlock,destroy,join-1 T:1:set"
        pending, runs, flagged, example = [()], 0, 0, None
        while pending and runs < 4000:
            lines = ["reset", scen] + [f"run {sched_str(p)}" for p in pending]
            out, rc, err = C.run_lines(harness, lines, timeout=300)
            new = []
            for p, line in zip(pending, out[2:]):
                tr = Trace(line)
                runs += 1
                if not tr.ok:
                    continue
                if any("use-after-destroy" in f for f in tr.flags):
                    flagged += 1
                    example = example or sched_str(tr.choices())
                ch = tr.choices()
                for pos in range(len(p), len(tr.steps)):
                    t, a, cands, _ = tr.steps[pos]
                    new += [tuple(ch[:pos]) + (c,) for c in cands if c != (t, a)]
            pending = new
        res[f"spurious budget {spur}"] = {"scenario": scen, "schedules": runs, "touch the destroyed condition variable": flagged,
                                          "example schedule": example}
    ctx.cov["monitor_destroy_whatif"] = res
    ctx.log("what-if Monitor destroyed by a waiter while set() is in progress: " +
            "; ".join(f"{k}: {v['touch the destroyed condition variable']}/{v['schedules']} schedules" for k, v in res.items()))


def stress(ctx):
    """uncontrolled run on real pthreads — a TEST guarding the shim, not part of the proof-level claim"""
    srcs = ["sync_stress.cpp"] + [C.REPO / "src" / f"{n}.cpp" for n in LIB_SOURCES]
    exe = C.build_harness(ctx, "sync_stress", srcs, libs=["-lpthread"])
    if exe is None:
        return
    try:
        n = 2000 if ctx.tier == "quick" else 40000
        rc, out = C.sh([str(exe), str(n)], timeout=150, env={"ASAN_OPTIONS": "detect_leaks=0:exitcode=86", "UBSAN_OPTIONS": C.SAN_ENV["UBSAN_OPTIONS"]})
        ok = rc == 0 and "ok all" in out
        ctx.cov["stress_test_real_pthreads"] = {"iterations": n, "result": "ok" if ok else "FAILED", "lines": out.strip().splitlines()[-6:]}
        ctx.log(f"stress test on real pthreads ({n} iterations): {'ok' if ok else 'FAILED'}")
        if not ok:
            ctx.violation("stress test on real pthreads failed (uncontrolled run, harness/sync_stress.cpp)",
                          f"# command: sync_stress {n}\n# exit code {rc}\n" + "\n".join("# " + l for l in out.splitlines()[-30:]) + "\n",
                          signature="stress")
    except Exception as ex:      # time-out
        ctx.violation(f"stress test on real pthreads did not finish: {ex}", f"# sync_stress timed out / crashed: {ex}\n", signature="stress")
    finally:
        try:
            exe.unlink()
        except OSError:
            pass


FIXED_SCENARIOS = [
    # the handshakes of the four unit tests + the windows the property names
    "scen sig 0 5 999999999 1000000 1 0 T:0:start-1,start-2,set,join-1,join-2 T:1:wait T:2:twait-1",
    "scen sig 0 5 0 500001 1 0 T:0:start-1,start-2,join-1,join-2 T:1:wait T:2:set,reset",
    "scen mtx 0 0 0 1 0 0 T:0:start-1,start-2,join-1,join-2 T:1:lock,lock,unlock,unlock T:2:try-1,unlock,lock,unlock",
    "scen mon 0 5 999000000 1500000 1 0 T:0:start-1,start-2,join-1,join-2 T:1:lock,wait,unlock T:2:set",
    "scen mon 0 5 0 1000000 1 0 T:0:start-1,start-2,start-3,join-1,join-2,join-3 T:1:lock,wait,unlock T:2:lock,twait-2,unlock T:3:set",
    "scen sem 1 5 999999999 1000000 0 1 T:0:start-1,start-2,join-1,join-2 T:1:wait,twait-1 T:2:signal,trywait",
    "scen thr 0 0 0 1 0 0 T:0:join-1,start-1,start-1,join-1,join-1 T:4294967295:",
    "scen thr 0 0 0 1 0 0 T:7:mstart-1,mstart-1,join-1,join-1 T:2147483648:mstart-2,join-2 T:3:",
    "scen thr 0 0 0 1 0 0 F:1 T:7:start-1,start-2,dtor-1,join-2,join-1,dtor-2 T:5: T:6:",
    # a second start() with another body on an object that already runs a thread must fail and change nothing
    "scen thr 0 0 0 1 0 0 T:7:mstart-1,xstart-10,start-2,xstart-17,join-1,join-2 T:11: T:22:",
    "scen sig 0 5 0 1 0 0 F:1 T:0:start-1,start-2,wait,dtor-1,dtor-2 T:1:set T:2:set",
    "scen sig 0 5 0 1 1 0 T:0:start-1,wait,destroy,join-1 T:1:set",
    # Mutex::Guard / Monitor::Guard (nested; Guard::wait both forms), Thread::getCurrentThreadId / yield
    "scen mtx 0 0 0 1 0 0 T:0:start-1,mstart-2,tid,join-1,join-2 T:1:glock,glock,tid,gunlock,gunlock T:2:yield,try-2,glock,gunlock,unlock",
    "scen mon 0 5 999000000 1500000 1 0 T:0:start-1,start-2,yield,join-1,join-2 T:1:glock,gwait,gtwait-2,gunlock T:2:set,tid,set",
    # a set() while nobody waits leaves the flag raised; the NEXT set(), issued after a waiter has taken the monitor, must still wake it
    # (default schedule: main sets, thread 1 blocks in wait, thread 2 sets)
    "scen mon 0 5 0 1000000 0 0 T:0:set,start-1,start-2,join-1,join-2 T:1:lock,wait,unlock T:2:set",
    "scen mon 0 5 0 1000000 1 0 T:0:set,start-1,start-2,start-3,join-1,join-2,join-3 T:1:lock,twait-3,unlock T:2:set T:3:lock,wait,unlock",
    # the ENOSYS polling fallback of Semaphore::wait(timeout): for(i = 0; i < timeout; i += 10) { sem_trywait; usleep(10 ms) }
    "scen sem 0 5 995000000 5000000 0 1 N:2 T:0:start-1,start-2,signal,join-1,join-2 T:1:twait-25 T:2:twait-0,twait-10",
    "scen sem 1 5 0 10000000 0 0 N:3 T:0:start-1,start-2,join-1,join-2 T:1:twait-20,twait-15 T:2:twait-1,signal",
    "scen sem 0 1700000000 999999999 3000000 0 2 N:1 T:0:start-1,signal,join-1,trywait T:1:twait-31",
    "scen sem 2 5 0 10000000 0 0 N:2 T:0:start-1,twait-0,join-1 T:1:twait-11,twait-0",
    # Thread::sleep on the virtual clock: usleep(ms * 1000) returns only after the clock has advanced by ms
    "scen thr 0 5 999999000 400000 0 0 T:0:start-1,sleep-1,join-1,sleep-0 T:3:sleep-2",
    "scen sig 0 5 0 1000000 1 0 T:0:start-1,start-2,join-1,join-2 T:1:sleep-2,set T:2:twait-1,sleep-1,wait",
] + [
    # deadline arithmetic: timed waits of every primitive at clock phases where (ms within the second + timeout % 1000) does /
    # does not cross 1000, with time-outs below and above one second; the last one expires exactly at a tick
    l.replace("PRIM", p).replace("TW", tw).replace("GIVE", give)
    for p, tw, give in (("sig", "twait", "set"), ("sem", "twait", "signal"), ("mon", "lock,twait", "set"))
    for l in (
        "scen PRIM 0 5 600000000 500000000 0 0 T:0:start-1,start-2,start-3,GIVE,join-1,join-2,join-3 T:1:TW-1500UNL T:2:TW-999UNL T:3:TW-2400UNL",
        "scen PRIM 0 1700000000 100000000 500000000 0 0 T:0:start-1,start-2,start-3,join-1,join-2,join-3 T:1:TW-2400UNL T:2:TW-1000UNL T:3:TW-2UNL",
        "scen PRIM 0 5 999000000 500000 1 1 T:0:start-1,start-2,join-1,join-2 T:1:TW-1UNL,TW-1UNL T:2:TW-0UNL",
    )
]
FIXED_SCENARIOS = [l.replace("UNL", ",unlock" if l.startswith("scen mon") else "") for l in FIXED_SCENARIOS]


def check(ctx):
    quick = ctx.tier == "quick"
    STATS.clear()
    DLCOV.clear()
    ctx.assumptions += [
        "POSIX semantics as written in lean/Nstd/Sync/Posix.lean and implemented by harness/sync/sched.cpp (glibc / kernel are NOT verified): "
        "recursive and default mutexes, condition variables with spurious wake-ups, pthread_cond_signal wakes one waiter if any, a timed-out "
        "waiter does not consume a signal, counting semaphore with EINTR, pthread_create may fail (budgeted), join yields the function's result",
        "monotone virtual clock: no CLOCK_REALTIME jumps; time-outs are non-negative; no overflow of time_t/long; the theorems assume sem_timedwait never reports ENOSYS (the polling fallback is executed on the implementation only and judged by the oracle)",
        "liveness theorems: weak fairness for every thread's progress steps and a starvation-free (strongly fair) mutex; Monitor: clients do not keep the monitor locked for ever",
        "one atomic step = one POSIX call + the library code up to the next POSIX call (the `signaled` flags are only accessed under the internal mutex)",
        "clients respect the API preconditions: unlock / Monitor::wait only by the lock holder, a Thread object is used by one thread at a time and is not restarted after join",
    ]
    proof_ok = C.proof_stage(ctx, PROPS, [DRIVER], gen=gen, leanchecker=(ctx.tier == "thorough"))
    harness = build(ctx)
    driver = C.driver_path(DRIVER)
    if harness is None or not driver.exists():
        return
    try:
        ex = Explorer(ctx, harness, driver)
        # 1. corpus
        corpus = C.load_corpus(ctx.prop)
        ex.run(corpus)
        # 2. exhaustive schedules of the first `depth` scheduling points
        depth = 8 if quick else 12
        cap = 1200 if quick else 22000
        nscen = 24 if quick else 48
        scens = [Scen.parse(l) for l in FIXED_SCENARIOS] + [gen_scen(ctx.rng) for _ in range(nscen)]
        if not proof_ok:
            ctx.log("proof stage broken: searching harder for a failing input")
            scens += [gen_scen(ctx.rng) for _ in range(nscen)]
        total, complete = ex.exhaustive(scens, depth, cap)
        ncomplete = sum(1 for i in complete if complete[i])
        ctx.log(f"exhaustive depth {depth}: {sum(total.values())} runs over {len(scens)} scenarios ({ncomplete} enumerated completely), "
                f"{len(ex.diffs)} disagreement(s)")
        # 2b. bounded deviation at ANY depth: all schedules that leave the default policy at most `ndev` times
        ndev = 2 if quick else 3
        dcap = 1000 if quick else 20000
        dtotal, dcomplete = ex.exhaustive(scens, 10 ** 6, dcap, max_dev=ndev)
        ndcomplete = sum(1 for i in dcomplete if dcomplete[i])
        ctx.log(f"<= {ndev} deviations at any depth: {sum(dtotal.values())} runs ({ndcomplete} scenarios enumerated completely), "
                f"{len(ex.diffs)} disagreement(s)")
        # 3. random schedules over more scenarios
        rscens = scens + [gen_scen(ctx.rng) for _ in range(70 if quick else 340)]
        before = ex.runs
        ex.random(rscens, 80 if quick else 300)
        ctx.log(f"random schedules: {ex.runs - before} runs over {len(rscens)} scenarios, {len(ex.diffs)} disagreement(s) in total")
        prims = {}
        ops = {}
        for sc in rscens:
            prims[sc.prim] = prims.get(sc.prim, 0) + 1
            for _, p in sc.progs:
                for o in p:
                    ops[sc.prim + "." + o.split("-")[0]] = ops.get(sc.prim + "." + o.split("-")[0], 0) + 1
        ctx.cov["distinct_nontrivial"] += len(ex.keys)
        ctx.cov["op_histogram"] = ops
        ctx.cov["scenarios_per_primitive"] = prims
        ctx.cov["verdicts"] = ex.verdicts
        ctx.cov["branch_hits"] = dict(sorted(STATS.items()))
        ctx.cov["deadline_coverage"] = dict(sorted(DLCOV.items()))
        missing = [f"{p} carry={c} >=1000ms={b}" for p in ("sig", "mon", "sem") for c in ("yes", "no") for b in ("yes", "no")
                   if not any(k.startswith(f"{p} nsec-carry={c} timeout>=1000ms={b} ") for k in DLCOV)]
        ctx.log(f"deadline arithmetic: {sum(v for k, v in DLCOV.items() if 'nsec-carry' in k)} timed waits, classes missing: {missing or 'none'}")
        if missing:
            ctx.broken.append("deadline-arithmetic coverage of the correspondence run is incomplete: " + ", ".join(missing))
        ctx.cov["longest_run_scheduling_points"] = ex.max_points
        ctx.cov["exhaustive"] = False
        ctx.cov["exhaustive_scope"] = (f"all choice sequences (threads x alternatives incl. spurious wake-up, EINTR, time-out, clock tick) of the first "
                                       f"{depth} scheduling points, default policy afterwards: {sum(total.values())} runs over {len(scens)} scenarios; "
                                       f"{ncomplete} scenarios enumerated completely, {len(scens) - ncomplete} capped at {cap} runs (sampled); "
                                       f"plus all schedules with <= {ndev} deviations from the default policy at any depth: {sum(dtotal.values())} runs, "
                                       f"{ndcomplete} scenarios completely, the others capped at {dcap}")
        ctx.cov["rule"] = (f"corpus ({len(corpus)}) + {len(FIXED_SCENARIOS)} fixed + {len(scens) - len(FIXED_SCENARIOS)} generated scenarios (2-4 threads, one primitive, "
                           f"well-formed programs) x exhaustive schedules of the first {depth} points (cap {cap}/scenario) and all schedules with <= {ndev} deviations from the default policy at any depth (cap {dcap}) + {len(rscens)} scenarios x "
                           f"{80 if quick else 300} uniformly random schedules (xorshift64, all candidates); every run = one forked process of the real sources "
                           "over the simulated POSIX layer, replayed on the Lean model; distinct_nontrivial = distinct (scenario, per-step return events, verdict) "
                           "among runs in which at least two threads took steps")
        ctx.cov["samples"] = [scens[len(FIXED_SCENARIOS)].line(), scens[-1].line(), rscens[-1].line()] + FIXED_SCENARIOS[:2]
        if ex.diffs:
            C.report_diffs(ctx, ex.diffs, harness, driver, reference, C.default_eq, "sync-schedules")
        # 4. information: the Monitor::set() shape (see docs/sync.md)
        monitor_destroy_whatif(ctx, harness)
        # 4b. the ENOSYS fallback of Semaphore::wait(timeout) must have been driven (both sides): entered, true, false, time-out 0
        need = ["sem_timedwait reported ENOSYS (polling fallback entered)", "polling fallback: wait(timeout) returned 1",
                "polling fallback: wait(timeout) returned 0", "polling fallback: wait(timeout) returned 0 with time-out 0",
                "polling fallback: step that stays in the call (sem_trywait failed / usleep returned)"]
        miss = [k for k in need if not STATS.get(k)]
        ctx.log("ENOSYS polling fallback: " + ", ".join(f"{STATS.get(k, 0)} x {k}" for k in need))
        if miss:
            ctx.broken.append("the ENOSYS fallback of Semaphore::wait(timeout) was not covered by the correspondence run: " + "; ".join(miss))
        # 5. the test on real pthreads
        stress(ctx)
    finally:
        try:
            harness.unlink()
        except OSError:
            pass


def replay(ctx, path):
    h = C.parse_replay(path)
    harness = build(ctx)
    C.lake_build([DRIVER])
    diffs = C.differential(ctx, harness, C.driver_path(DRIVER), [h], reference, C.default_eq)
    for d in diffs:
        print(d.text())
        ctx.violation(f"replay: {d.kind}", d.text())
    harness.unlink()
