"""C04  containers construct and destroy each element exactly once; copies are deep; self-arguments behave as if copied first
C05  elements of node and pool containers never move while they live

One module serves both properties (`check(ctx)` branches on `ctx.prop`): the same harness / model driver
print the C04 view (contents, ledger counters, lifecycle event log) or the C05 view (contents with a
stable/new/moved flag per element) depending on their first argument."""
import itertools
import re
from pathlib import Path
import common as C

PROPERTIES = ["C04", "C05"]
PROPS_BY = {"C04": ["Nstd.Life.Props", "Nstd.Life.PropsArrTr"], "C05": ["Nstd.Life.PropsStable", "Nstd.Life.PropsStableMech"]}
DRIVER = "drv_life"
LEAN_TARGETS = ["Nstd.Life.Props", "Nstd.Life.PropsArrTr", "Nstd.Life.PropsStable", "Nstd.Life.PropsStableMech", DRIVER]

_COMMON_NOTE = ("Trusted: Lean kernel + the three standard axioms; the hand translation of the eight container headers into the slot-level "
                "model Nstd/Life/Model.lean (for Array.hpp replaced by a machine translation proved equal to the model for reserve / append / resize from a caller's object / clear / remove / swap / ~Array / "
                "constructors - trusted there instead: the translator tools/gen_life.py and its semantics of the C++ subset, i.e. the pointer machine Nstd/Life/ArrPtr.lean: usize as unbounded Nat, pointer comparison between "
                "different allocations by one fixed total order with contiguous blocks (used only in the range test ref >= _begin.item && ref < _end.item), allocation never fails, an Iterator argument passed by value, "
                "values returned as Iterator / T& / Array& dropped, `*d = *(++s)` right operand first; everything else, and the other seven headers, validated on every run by the correspondence, not proved: identical op lines on the real headers and on "
                "the compiled model; exact comparison of contents, ledger counters and of the COMPLETE lifecycle event log "
                "construct/copy/assign/destroy/alloc/free with canonical slot names (block serial, slot index, member), so free-list order, "
                "block layout, Array reallocation and shifting, order of member construction/destruction are all compared; one exception: the POSITION inside an op of the release of a hash container's table - a block without "
                "element slots, printed Ft<b> - is not compared, only that it happens); the harness element "
                "type (Tracked/Fixed) and allocator ledger. For C05 the number of items per block is NO part of the tie (its observation - contents, object identity, iterator / find, assignment and copy counts - "
                "never shows slot names or block sizes): when the reader of the constant tables does not understand the allocation code (e.g. blocks that grow with the pool size, harmless C05-h5) the driver keeps its table "
                "and the comparison decides; the C05 theorems are proved for every CONSTANT table N >= 1 per kind, not yet for a growth policy (Per as a function of the size: SInv.slots_in / blocks_blk, node_alloc, trace_freeBlocks speak of one size per kind). "
                "The number of items per block of each node container is not a constant of the model: "
                "tools/areas/life.py translate reads it from the sources (allocation size and free-list threading loop must agree) into "
                "lean/Nstd/Generated/LifeConst.lean, the driver uses it, every theorem holds for every table N >= 1; the harness derives slot names from the "
                "observed allocation. Modelled, not verified: AVL rebalancing and hash chains are abstracted "
                "(the model keeps iteration order, slots, free lists, blocks; lookups are by payload) - their behaviour is the subject of C01/C02. "
                "'Never touched after its destruction' is a THEOREM only for the sources of copy constructions and assignments (the only reads in the event log); "
                "key comparisons, hashing and == walks of the lookup code are not events: that they touch no destroyed object is checked on the real code by the "
                "harness ledger (counter u) only - the model contributes linked_objects_live (everything reachable through a container is live). "
                "MultiMap::insert(hint) is driven with present keys too, except the one tree-shape dependent case (key not below the hinted item and equal to its successor's key). "
                "Not driven: find() / contains() / count() / operator== as operations "
                "(find runs inside insert / remove(key) and in the C05 observation of every element after every op). The comparisons of List::sort are not events of the model; on the real code their outcomes are dictated by the harness (L.sortwith). "
                "The client sources Server.cpp / Future.cpp / Callback.cpp are not compiled into this harness (scripted client patterns + pointer_valid_until_removed stand for them; the real code runs under C13/C14, C10, C12). Allocation never fails; "
                "element constructors do not throw. The model mirrors the REPAIRED code (fixes/life/0001..0004: D2 self-assignment, D3 Array alias, "
                "D4 List self-insert, D5 MultiMap copy); on a tree without these patches the check reports them as violations.")

MANIFEST = {
    "C04": {
        "technique": "Lean 4 proof over all operation histories of a slot-level lifecycle model of the eight containers (state invariant preserved "
                     "by every micro step; event log accepted by an independent checker automaton; frame / alias refinement lemmas) + tie by TRANSLATION for Array.hpp "
                     "(tools/gen_life.py translates the member functions from the current header into Lean on every run; the translated functions are proved equal to the model operations) "
                     "+ differential correspondence model vs real headers with an element/allocator ledger and an independent Python reference",
        "text": "Theorems in lean/Nstd/Life/Props.lean, all for EVERY history incl. a = a, a.append(a[i]), a.resize(n, a[i]), a.append(&a[i], n), a.append(a), "
                "l.append/prepend/insert(l), m.insert(k, *it), m.insert(m), s.append(s), s.remove(s): lifecycle_ok (complete event log incl. destructors accepted "
                "by the checker: per slot construct assign* destroy, sources of copies/assignments live, blocks allocated once / freed once with nothing live inside, "
                "nothing live at the end; the destructors are always defined), exactly_once (per location #constructions = #destructions, every block allocated at most once "
                "and freed as often as allocated), linked_objects_live (every object reachable through a container is live and vice versa), lifecycle_prefix_ok, no_fault (no operation of a reachable state takes a "
                "cannot-happen exit), blocks_released_only_by_destructor, copy_fresh(+_arr) (distinct variables never share a slot/storage), "
                "copy_equal_list / _array / _node (right after copy construction or assignment the destination has the contents of the source, all copyable kinds), keys_ok, "
                "copy_independent(+_arr) (an operation leaves every container it does not target unchanged, slots and abstract value), assign_self_noop, "
                "append_ref / resize_ref / append_ptr / append_self _as_if_copied (Array), list_insert_self_as_if_copied, ref_arg_as_if_copied (any step with a "
                "reference operand = same step with a temporary copy, up to the log) with Map/HashMap/List operation-level corollaries, "
                "set_append_self_noop, set_remove_self_empties, and the literal refinement forms list_insert_self_refines, array_append_self_refines, "
                "set_append_self_refines, set_remove_self_refines, map_insert_self_refines (op(c, c) = copy t from c; op(c, t)). No OPEN statement, no _partial theorem. "
                "The model has 53 operations incl. PoolMap::insert(position, key), the re-entrant pool removal (element destructor removes another element of the same pool) and "
                "List::sort() under an ARBITRARY comparator (the quicksort of List.hpp simulated on node indices, comparison outcomes from an oracle list): sort_only_assigns (any state, any comparator: "
                "item lists, free lists, blocks, arrays unchanged; every event is an assignment to the value object of a node of the list from such an object or from the temporary of QuickSort::swap - "
                "one temporary per swap call is all sort creates; no stored element is constructed or destroyed; every object touched is an item of the list, hence live), sort_compiles (the fuel suffices, "
                "every step stays inside [left, right]). "
                "'Exactly once' is a statement about exception-free C++ (no throwing constructor / assignment, allocation never fails). "
                "Tie by translation (round 7, lean/Nstd/Life/PropsArrTr.lean): tools/gen_life.py (tokenizer + recursive-descent parser of the C++ subset Array.hpp is written in; refuses anything else) "
                "regenerates lean/Nstd/Generated/LifeArray.lean from the CURRENT include/nstd/Array.hpp on every run - all 19 member functions that create, destroy or move elements or headers, "
                "statement by statement, as Lean functions over a pointer machine (Nstd/Life/ArrPtr.lean: null / heap-slot / caller-object pointers, the three data members, new char[] / delete[] / placement new / "
                "destructor call / assignment as event-emitting primitives, one fuel-bounded recursive function per loop). Proved equal to the model operation (same memory, block table, block counter, COMPLETE event log, "
                "same data members) on the representation of EVERY reachable state, for every size / capacity / index and every fuel above the stated bound: translated_reserve, translated_append (caller's object), "
                "translated_append_own_element (a.append(a[i]): the pointer is followed into the new storage), translated_resize (shrink and grow, caller's object), translated_clear, translated_remove (index in and out of range), "
                "translated_remove_iterator (+ removeFront, removeBack), translated_swap (also a.swap(a)), translated_destructor (~Array = micro step aDestroy), translated_constructor (Array(), Array(capacity)), "
                "translated_append_array / translated_append_array_self (a.append(b), a.append(a): chain of aPush (elem w j) = copySlots). The translator accepts bool locals, usize subtraction (64-bit wrap-around), and inlines private / static "
                "helper members; loop state and read-only parameters are ordered by first assignment / first use; the proofs split on size/capacity, so a spare-capacity fast path or a helper-based restructuring of reserve "
                "(harmless C04-h1, C04-h5) regenerates and still proves. "
                "Third leg: translated_assign (a = b and a = a), translated_copy_constructor (Array a(b) on the destroyed variable, after translated_destructor), translated_append_range (a.append(&a[i], n), n > 0), "
                "translated_resize_own_element (a.resize(n, a[i]) growing) - no OPEN statement left for Array.hpp: all 19 translated member functions are proved equal to the model operations. A change of one of these C++ bodies changes the generated definition: the equality proof fails or the translator refuses -> broken tie, the check searches a failing input. "
                "Tie to the current headers on every run: exhaustive small scope per container, Array alias ops at every size/capacity boundary, a bucket-chain stream "
                "(HashMap/HashSet/PoolMap with explicit bucket counts 1..5, keys of one bucket linked by append/prepend/positional insert in every order, then clear/assign/swap/copy/remove, "
                "then re-use of the same keys), deep Map/MultiMap histories (every removal shape; tools/implcov.py: all 1320 instrumented lines of the eight headers executed), random histories, "
                "ASan/UBSan, ledger arithmetic (constructed - destroyed = live = sum of sizes + sentinels, zero misuse counters, no block left) and "
                "as-if-copied contents by the reference.",
        "note": _COMMON_NOTE,
        "design_ref": "DESIGN.md 3/C04",
    },
    "C05": {
        "technique": "Lean 4 proof, two layers: (frame) over all operation histories of the slot-level model of area Life - in which slots an operation may "
                     "construct / destroy / assign, which elements it removes, that nothing else is touched; (mechanism) the relinking code itself in the models that contain "
                     "it - AVL rotations and two-children removal (area Avl), the prev/next surgery of List at chain and pointer level (area Seq), the bucket chains of the "
                     "hash containers (area Hash model, proved in Nstd/Life/HashStable.lean) - never copies an item into another node; "
                     "+ differential correspondence on object identity",
        "text": "Theorems in lean/Nstd/Life/PropsStable.lean (frame; in this model an element IS its slot, so these say which slots an operation touches): stable_sharp "
                "(headline: for every history, operation and element - the operation does not remove it and it is Kept: same slot, no construction/destruction there, key unchanged; "
                "or the operation removes it (Op.removes, from the executed remove/clear/destructor steps) and all its members were destroyed), stable_step (per micro step), "
                "removes_list_remove / insertions_remove_nothing (what Op.removes means), keyless_payload_kept, stable (weak corollary: for every history, every further operation and every element of List, Map, MultiMap, "
                "HashMap, HashSet, PoolList, PoolMap: the element is still an item in the SAME slot of a container of its kind, no object was constructed "
                "or destroyed in that slot during the operation and its key is unchanged - or all its member objects were destroyed; never relocated), "
                "insert_keeps_all and remove_keeps_others (sharp per-step forms: an insertion removes/relocates nothing, remove(iterator) destroys exactly "
                "the designated element), swap_hands_over, blocks_stay (no step other than a destructor / Array::reserve frees a block), pool_in_place / pool_ops_in_place (PoolList/PoolMap operations emit no copy construction of an "
                "element and no assignment), removal_only_destroys (remove/clear emit only destructor calls), assign_only_value, overwrite_same_key "
                "(the only assignment targets the value object of the item carrying the inserted key; keys are never assigned). Client form (Server pools, Future worker contexts, Callback slots): "
                "pointer_valid_until_removed (for every reachable state, every element of it and EVERY further history: with HistRemoves = some operation of the history, evaluated in the state it "
                "runs in and following the element through swaps, removes it - either not removed and Kept over the whole history (same slot, item of a container of its kind, the other variable after "
                "swaps, nothing constructed/destroyed in the slot, key unchanged) and the value object unchanged unless the events contain an assignment to that very object, or removed and all member "
                "objects destroyed), pointer_valid_step, insertions_and_swaps_never_invalidate, clear_and_destruction_remove_own_elements, insert_links_one_item (an insertion links exactly one new item "
                "in an unoccupied slot or leaves the item list alone), insert_own_value_is_self_assignment (m.insert(key, *m.find(key)) on Map/HashMap = exactly one self-assignment event of the value "
                "object, memory / items / blocks unchanged: with a value type whose self-assignment is the identity nothing moves - the nested instantiation Map<K, List<T>> itself is not modelled). "
                "Re-entrant removal (the destructor of a pool element removes another element of the same pool) is an operation of the model (pRemoveChain / qRemoveChain) and of the harness. "
                "sort_keeps_nodes_swaps_values (List::sort under any comparator removes nothing, every element is Kept - pointers and iterators stay valid - but the value objects are assigned to: a pointer may see "
                "another value afterwards; sort moves values, not nodes). Which address an insert takes: insert_takes_free_head (head of the LIFO free list, else the first hand-out slot of a never-allocated block), "
                "remove_then_insert_reuses, slot_reused_only_after_removal (the slot of a new item is the slot of no element of any container before), and in PropsStableMech the tree-level statements of area Avl "
                "map_alloc_lifo / map_insert_takes_free_head / map_remove_then_insert_reuses. The nested instantiations Map<K, List<T>> and HashMap<K, List<T>> are driven on the real headers "
                "(harness/life_nested.cpp against a Python reference, no Lean model): m.insert(key, *m.find(key)) must construct and move nothing. The harness checks on the real "
                "headers after every op, for every element of all seven containers, that it is the same object (serial) at the address recorded in the ledger, "
                "that it still carries the key / payload it had when first seen (an element assigned into another node counts as moved), that the iterator saved "
                "when it was first seen and find(key) still designate it, or that it was constructed by this very op; assignments to and copies from "
                "container-held objects are counted per op and compared with model and reference. "
                "Theorems in lean/Nstd/Life/PropsStableMech.lean (mechanism; re-statements, proved by the owning areas' theorems): map_items_relink (Avl.ids_stable_step), "
                "list_insert_/insertList_/remove_relinks, list_swap_hands_over, list_ptr_insert / _remove / _swap (Seq.never_move_*, Seq.ptr_*), hash_items_relink (HashStable.items_stable_step); the Python reference predicts exactly which elements are new; long histories with long-lived elements and the three "
                "client patterns (Server pools, Future contexts, Callback slots).",
        "note": _COMMON_NOTE,
        "design_ref": "DESIGN.md 3/C05",
    },
}

OPEN = {"C04": [], "C05": []}

# ---- translator: items per block of the node containers -> lean/Nstd/Generated/LifeConst.lean ---------------------------
GEN_OUT = C.LEAN / "Nstd" / "Generated" / "LifeConst.lean"
GEN_HEADERS = [("List", "listItems"), ("Map", "mapItems"), ("MultiMap", "multiMapItems"), ("HashMap", "hashMapItems"),
               ("HashSet", "hashSetItems"), ("PoolList", "poolListItems"), ("PoolMap", "poolMapItems")]
_SLOT = r"(?:sizeof\(Item\)|slotSize|\(\s*sizeof\(Item\)\s*\+\s*sizeof\(T\)\s*\))"


def _strip_cxx(src):
    src = re.sub(r"/\*.*?\*/", " ", src, flags=re.S)
    return re.sub(r"//[^\n]*", "", src)


def _const(src, tok):
    """value of a literal or of an enum / constant defined in the same header"""
    if tok.isdigit():
        return int(tok)
    m = re.findall(r"\b" + re.escape(tok) + r"\s*=\s*(\d+)\b", src)
    return int(m[0]) if len(m) == 1 else None


def translate(repo=None):
    """(ok, message).  For each node container: the number N of items allocated at once, read from BOTH places that must agree -
    the allocation `new char[sizeof(ItemBlock) + <item size> * N]` and the bound of the loop that threads the new items into
    the free list (`end = i + N`, `end = item + N`, `(char*)i + N * <item size>`); literal or enum.  Written as Lean
    definitions that the model driver uses (`Driver.genPer`); the theorems hold for every table N >= 1.  Refuses (broken tie)
    when a shape is not found, the two places disagree, or N = 0.  The file is rewritten only when its content changes."""
    repo = Path(repo or C.REPO)
    vals, msgs = [], []
    for hdr, name in GEN_HEADERS:
        try:
            src = _strip_cxx((repo / "include/nstd" / (hdr + ".hpp")).read_text())
        except OSError as e:
            return False, f"cannot read {hdr}.hpp: {e}"
        al = re.findall(r"new\s+char\s*\[\s*sizeof\(ItemBlock\)\s*\+\s*" + _SLOT + r"\s*\*\s*(\w+)\s*\]", src)
        lo = re.findall(r"\*\s*(?:const\s+)?end\s*=\s*(?:i|item)\s*\+\s*(\w+)\s*;", src)
        lo += re.findall(r"\(char\*\)\s*i\s*\+\s*(\w+)\s*\*\s*" + _SLOT, src)
        if len(al) != 1 or len(lo) != 1:
            return False, f"{hdr}.hpp: block allocation {al} / free-list threading loop {lo} not found (or not unique)"
        a, b = _const(src, al[0]), _const(src, lo[0])
        if a is None or b is None or a != b or a < 1:
            return False, f"{hdr}.hpp: items per block in the allocation ({al[0]} = {a}) and in the threading loop ({lo[0]} = {b}) disagree or are not positive"
        vals.append((name, hdr, a))
        msgs.append(f"{hdr}={a}")
    text = ("/- generated by tools/areas/life.py (translate) from include/nstd/{List,Map,MultiMap,HashMap,HashSet,PoolList,PoolMap}.hpp - do not edit -/\n"
            "namespace Nstd.Generated.Life\n\n" +
            "".join(f"/-- items per block of {hdr}: allocation size and free-list threading loop agree -/\ndef {name} : Nat := {v}\n\n" for name, hdr, v in vals) +
            "end Nstd.Generated.Life\n")
    GEN_OUT.parent.mkdir(parents=True, exist_ok=True)
    if not GEN_OUT.exists() or GEN_OUT.read_text() != text:
        GEN_OUT.write_text(text)
    return True, "items per block: " + " ".join(msgs)


GEN_ARRAY_OUT = C.LEAN / "Nstd" / "Generated" / "LifeArray.lean"


def translate_array(repo=None):
    """(ok, message).  tools/gen_life.py: the member functions of Array.hpp, statement by statement, as Lean functions over the
    pointer machine Nstd/Life/ArrPtr.lean -> lean/Nstd/Generated/LifeArray.lean (Nstd/Life/PropsArrTr.lean proves them equal to
    the model operations).  Refuses (broken tie) anything outside the understood C++ subset."""
    import importlib
    import sys
    sys.path.insert(0, str(Path(__file__).resolve().parents[1]))
    gl = importlib.import_module("gen_life")
    try:
        return True, gl.generate(repo or C.REPO, GEN_ARRAY_OUT)
    except gl.Refuse as e:
        return False, f"gen_life: {e}"
    except OSError as e:
        return False, f"gen_life: {e}"


def _write_default_table():
    """the table of the pinned sources (4 items per block), only when no generated file exists"""
    if not GEN_OUT.exists():
        GEN_OUT.parent.mkdir(parents=True, exist_ok=True)
        GEN_OUT.write_text("/- default written by tools/areas/life.py: the items-per-block reader did not understand the current headers -/\n"
                           "namespace Nstd.Generated.Life\n\n" + "".join(f"def {name} : Nat := 4\n\n" for _, name in GEN_HEADERS) +
                           "end Nstd.Generated.Life\n")


def gen(ctx):
    ok, msg = translate()
    if ctx is not None and ctx.prop == "C05":
        # C05 observes contents, object identity (same object at the same address, iterator / find still designate it), and the number of
        # assignments / copies per op - never slot names or block sizes; its theorems hold for every table N >= 1.  So the number of items a
        # block holds (and how it grows: internal policy the property does not state) is no part of the C05 tie: when the reader of the
        # constant tables does not understand the current allocation code, the driver keeps the table it has and the comparison decides.
        if not ok:
            _write_default_table()
            ctx.cov.setdefault("translated", "items per block NOT read (" + msg + "): no part of the C05 observation; driver keeps its table")
        else:
            ctx.cov.setdefault("translated", msg + "; Array.hpp not translated for C05")
        return True, msg
    # Array is no container of C05: its translation is an obligation of C04 only
    ok2, msg2 = translate_array()
    if ctx is not None:
        ctx.cov.setdefault("translated", msg + "; " + msg2)
    return ok and ok2, "; ".join(m for o, m in ((ok, msg), (ok2, msg2)) if not o) or (msg + "; " + msg2)


def setup():
    ok, msg = translate()
    if not ok:
        print("life translate:", msg)
    ok, msg = translate_array()
    if not ok:
        print("life translate:", msg)


KINDS = "ALMUHSPQ"
FIELDS = {"A": 1, "L": 1, "M": 2, "U": 2, "H": 2, "S": 1, "P": 1, "Q": 2}
SENTINELS = 1 * 2 + 2 * 2 + 2 * 2 + 2 * 2 + 1 * 2 + 2 * 2      # L M U H S Q (two variables each); Array and PoolList have none


# ---- the reference: abstract values with as-if-copied semantics -------------------------------------
def quicksort_ref(vals, bits):
    """List::sort() as List.hpp writes it (quicksort on the nodes; swap = exchange of the values through a temporary), re-implemented
    for the reference: returns the number of swap calls; `bits` = dictated outcomes of the first comparisons (L.sortwith)"""
    bits = list(bits)
    swaps = [0]

    def less(a, b):
        return bits.pop(0) if bits else a < b

    def swap(i, j):
        vals[i], vals[j] = vals[j], vals[i]
        swaps[0] += 1

    def sort(left, right):
        p0 = p1 = p2 = left
        while True:
            p2 += 1
            if less(vals[p2], vals[left]):
                p0 = p1
                p1 += 1
                swap(p1, p2)
            if p2 == right:
                break
        swap(left, p1)
        if p1 != right:
            p1 += 1
        if left != p0:
            sort(left, p0)
        if p1 != right:
            sort(p1, right)

    if len(vals) >= 2:
        sort(0, len(vals) - 1)
    return swaps[0]


class Ref:
    """abstract value of the sixteen variables.  Elements are lists [key?, value?, born] so that
    object identity (`born` = index of the op that created the element object) can be predicted for C05."""

    def __init__(self):
        self.v = {k: [[], []] for k in KINDS}
        self.now = 0

    def size(self, k, v):
        return len(self.v[k][v])

    def live(self):
        return SENTINELS + sum(FIELDS[k] * (len(self.v[k][0]) + len(self.v[k][1])) for k in KINDS)

    def fresh(self, *payload):
        return list(payload) + [self.now]

    def copy_of(self, elems):
        return [e[:-1] + [self.now] for e in elems]

    def show(self, k, v, c05):
        out = []
        for e in self.v[k][v]:
            body = ":".join(str(x) for x in e[:-1])
            if c05 and k != "A":
                body += "n" if e[-1] == self.now else "s"
            out.append(body)
        return " ".join(out) if out else "-"

    def apply(self, line, c05):
        """returns the expected observation (without the implementation's private counters)"""
        self.now += 1
        self.assigns = 0          # assignments to container-held objects this op is allowed (and bound) to perform
        t = line.split()
        if t[0] == "destroyall":
            for k in KINDS:
                self.v[k] = [[], []]
            return "end # live=0 as=0"
        m = re.fullmatch(r"([ALMUHSPQ])\.(\w+)", t[0])
        if not m:
            return "bad-op"
        k, op = m.group(1), m.group(2)
        try:
            a = [int(x) for x in t[1:]]
        except ValueError:
            return "bad-op"
        if not a or a[0] > 1:
            return "bad-op"
        if not self.do(k, op, a):
            return "bad-op"
        return f"{k} {self.show(k, 0, c05)} | {self.show(k, 1, c05)} # live={self.live()} as={self.assigns}"

    def do(self, k, op, a):
        V = self.v[k]
        v = a[0]
        x = V[v]
        n = len(a)
        two = FIELDS[k] == 2
        # -- common
        if op == "new" and n == 1:
            V[v] = []
        elif op == "newcap" and n == 2 and k in "AHSQ":
            V[v] = []
        elif op == "copy" and n == 2 and k not in "PQ":
            if a[1] > 1 or a[1] == v:
                return False
            V[v] = self.copy_of(V[a[1]])
        elif op == "assign" and n == 2 and k not in "PQ":
            if a[1] > 1:
                return False
            if a[1] != v:
                V[v] = self.copy_of(V[a[1]])
        elif op == "swap" and n == 2 and k not in "MU":
            if a[1] > 1:
                return False
            V[v], V[a[1]] = V[a[1]], V[v]
        elif op == "clear" and n == 1:
            V[v] = []
        elif op in ("removefront", "removeback") and n == 1:
            if not x:
                return False
            if k == "A" and op == "removefront":
                self.assigns = len(x) - 1          # Array::remove shifts the tail down by assignment
            del x[0 if op == "removefront" else -1]
        # -- Array
        elif k == "A":
            if op == "append" and n == 2:
                x.append(self.fresh(a[1]))
            elif op == "appendref" and n == 2:
                if a[1] >= len(x): return False
                x.append(self.fresh(x[a[1]][0]))
            elif op == "appendarr" and n == 2:
                if a[1] > 1: return False
                x.extend(self.copy_of(V[a[1]]))
            elif op == "appendptr" and n == 3:
                if a[1] + a[2] > len(x): return False
                x.extend(self.copy_of(x[a[1]:a[1] + a[2]]))
            elif op in ("resize", "resizeref") and n == 3:
                if op == "resizeref":
                    if a[2] >= len(x): return False
                    val = x[a[2]][0]
                else:
                    val = a[2]
                if a[1] < len(x):
                    del x[a[1]:]
                else:
                    x.extend(self.fresh(val) for _ in range(a[1] - len(x)))
            elif op == "reserve" and n == 2:
                pass
            elif op == "remove" and n == 2:
                if a[1] < len(x):
                    self.assigns = len(x) - 1 - a[1]
                    del x[a[1]]
            elif op == "removeit" and n == 2:
                if a[1] >= len(x): return False
                self.assigns = len(x) - 1 - a[1]
                del x[a[1]]
            elif op == "set" and n == 3:
                if a[1] >= len(x): return False
                x[a[1]][0] = a[2]
                self.assigns = 1
            else:
                return False
        # -- List
        elif k == "L":
            if op in ("append", "prepend") and n == 2:
                x.insert(len(x) if op == "append" else 0, self.fresh(a[1]))
            elif op == "insert" and n == 3:
                if a[1] > len(x): return False
                x.insert(a[1], self.fresh(a[2]))
            elif op in ("appendref", "prependref") and n == 2:
                if a[1] >= len(x): return False
                x.insert(len(x) if op == "appendref" else 0, self.fresh(x[a[1]][0]))
            elif op == "insertref" and n == 3:
                if a[1] > len(x) or a[2] >= len(x): return False
                x.insert(a[1], self.fresh(x[a[2]][0]))
            elif op in ("appendlist", "prependlist") and n == 2:
                if a[1] > 1: return False
                c = self.copy_of(V[a[1]])
                x[:] = x + c if op == "appendlist" else c + x
            elif op == "insertlist" and n == 3:
                if a[1] > len(x) or a[2] > 1: return False
                c = self.copy_of(V[a[2]])
                x[:] = x[:a[1]] + c + x[a[1]:]
            elif op == "remove" and n == 2:
                if a[1] >= len(x): return False
                del x[a[1]]
            elif op in ("removeval", "removevalref") and n == 2:
                if op == "removevalref":
                    if a[1] >= len(x): return False
                    val = x[a[1]][0]
                else:
                    val = a[1]
                for i, e in enumerate(x):
                    if e[0] == val:
                        del x[i]
                        break
            elif op == "set" and n == 3:
                if a[1] >= len(x): return False
                x[a[1]][0] = a[2]
                self.assigns = 1
            elif (op == "sort" and n == 1) or (op == "sortwith" and n == 3):
                # the nodes stay (same objects: `born` is untouched), the values are exchanged: two assignments per swap call
                if op == "sortwith" and a[1] > 24: return False
                vals = [e[0] for e in x]
                self.assigns = 2 * quicksort_ref(vals, [bool(a[2] >> i & 1) for i in range(a[1])] if op == "sortwith" else [])
                for e, val in zip(x, vals):
                    e[0] = val
            else:
                return False
        # -- Map / MultiMap
        elif k in "MU":
            def put(key, val):
                if k == "M":
                    for e in x:
                        if e[0] == key:
                            e[1] = val
                            self.assigns += 1        # the only assignment a map may do: overwrite the value of that very key
                            return
                    pos = sum(1 for e in x if e[0] < key)
                else:
                    pos = sum(1 for e in x if e[0] <= key)
                x.insert(pos, self.fresh(key, val))
            if op == "insert" and n == 3:
                put(a[1], a[2])
            elif op == "inserthint" and n == 4:
                if a[1] > len(x): return False
                # MultiMap: every case lands where the plain insert does, except: key not below the hinted item and equal to its successor's key
                if k == "U" and a[1] + 1 < len(x) and x[a[1]][0] <= a[2] and x[a[1] + 1][0] == a[2]: return False
                put(a[2], a[3])
            elif op == "insertref" and n == 3:
                if a[2] >= len(x): return False
                put(a[1], x[a[2]][1])
            elif op == "insertmap" and n == 2 and k == "M":
                if a[1] > 1: return False
                for e in [list(e) for e in V[a[1]]]:
                    put(e[0], e[1])
            elif op == "remove" and n == 2:
                for i, e in enumerate(x):         # Map: the key; MultiMap: the first of the equal keys
                    if e[0] == a[1]:
                        del x[i]
                        break
            elif op == "removeat" and n == 2:
                if a[1] >= len(x): return False
                del x[a[1]]
            elif op == "set" and n == 3:
                if a[1] >= len(x): return False
                x[a[1]][1] = a[2]
                self.assigns = 1
            else:
                return False
        # -- HashMap
        elif k == "H":
            def hput(pos, key, val):
                for e in x:
                    if e[0] == key:
                        e[1] = val
                        self.assigns += 1
                        return
                x.insert(pos, self.fresh(key, val))
            if op in ("append", "prepend") and n == 3:
                hput(len(x) if op == "append" else 0, a[1], a[2])
            elif op == "insert" and n == 4:
                if a[1] > len(x): return False
                hput(a[1], a[2], a[3])
            elif op == "appendref" and n == 3:
                if a[2] >= len(x): return False
                hput(len(x), a[1], x[a[2]][1])
            elif op == "remove" and n == 2:
                x[:] = [e for e in x if e[0] != a[1]]
            elif op == "removeat" and n == 2:
                if a[1] >= len(x): return False
                del x[a[1]]
            elif op == "set" and n == 3:
                if a[1] >= len(x): return False
                x[a[1]][1] = a[2]
                self.assigns = 1
            else:
                return False
        # -- HashSet
        elif k == "S":
            def sput(pos, key):
                if all(e[0] != key for e in x):
                    x.insert(pos, self.fresh(key))
            if op in ("append", "prepend") and n == 2:
                sput(len(x) if op == "append" else 0, a[1])
            elif op == "insert" and n == 3:
                if a[1] > len(x): return False
                sput(a[1], a[2])
            elif op == "appendref" and n == 2:
                if a[1] >= len(x): return False
                sput(len(x), x[a[1]][0])
            elif op == "appendset" and n == 2:
                if a[1] > 1: return False
                for key in [e[0] for e in V[a[1]]]:
                    sput(len(x), key)
            elif op == "remove" and n == 2:
                x[:] = [e for e in x if e[0] != a[1]]
            elif op == "removeref" and n == 2:
                if a[1] >= len(x): return False
                key = x[a[1]][0]
                x[:] = [e for e in x if e[0] != key]
            elif op == "removeset" and n == 2:
                if a[1] > 1: return False
                keys = [e[0] for e in V[a[1]]]
                x[:] = [e for e in x if e[0] not in keys]
            elif op == "removeat" and n == 2:
                if a[1] >= len(x): return False
                del x[a[1]]
            else:
                return False
        # -- PoolList
        elif k == "P":
            if op == "append" and n == 2:
                x.append(self.fresh(a[1]))
            elif op == "append0" and n == 1:
                x.append(self.fresh(0))
            elif op in ("remove", "removeref") and n == 2:
                if a[1] >= len(x): return False
                del x[a[1]]
            elif op == "append2" and n == 3:
                x.append(self.fresh(a[1] + a[2]))
            elif op == "appendn" and n == 3:
                if not 3 <= a[1] <= 7: return False
                x.append(self.fresh(a[2] + a[1] - 1))
            elif op == "removechain" and n == 3:      # remove(x_i) whose destructor removes x_j: exactly these two go
                if a[1] >= len(x) or a[2] >= len(x) or a[1] == a[2]: return False
                for j in sorted((a[1], a[2]), reverse=True):
                    del x[j]
            else:
                return False
        # -- PoolMap
        elif k == "Q":
            if op == "append" and n == 3:
                if all(e[0] != a[1] for e in x):
                    x.append(self.fresh(a[1], a[2]))
            elif op == "remove" and n == 2:
                x[:] = [e for e in x if e[0] != a[1]]
            elif op in ("removeat", "removeref") and n == 2:
                if a[1] >= len(x): return False
                del x[a[1]]
            elif (op == "prepend" and n == 3) or (op == "insert" and n == 4):
                pos, key, val = (0, a[1], a[2]) if op == "prepend" else (a[1], a[2], a[3])
                if pos > len(x): return False
                if all(e[0] != key for e in x):
                    x.insert(pos, self.fresh(key, val))
            elif op == "removechain" and n == 3:
                if a[1] >= len(x) or a[2] >= len(x) or a[1] == a[2]: return False
                for j in sorted((a[1], a[2]), reverse=True):
                    del x[j]
            else:
                return False
        else:
            return False
        return True


def make_reference(c05):
    def reference(hist):
        r = Ref()
        return [r.apply(l, c05) for l in hist]

    def ref_eq(impl, ref):
        """implementation line against the reference line: contents (and flags) equal, ledger arithmetic holds,
        misuse counters zero, no anomaly mark in the event log"""
        if ref == "bad-op" or impl == "bad-op":
            return impl == ref
        pi, pr = impl.split(" # "), ref.split(" # ")
        if len(pi) < 2:
            return False
        ci = re.sub(r"(^A |\| )\d+/", r"\1", pi[0])        # the capacity of an Array is not part of the abstract value
        if ci != pr[0]:
            return False
        cnt = dict(kv.split("=") for kv in pi[1].split())
        if any(cnt.get(z) != "0" for z in ("u", "dd", "ov")):
            return False
        want = dict(kv.split("=") for kv in pr[1].split())
        if c05:
            # "never copy or move": the only assignments to container-held objects are overwrites of the value of that very key
            return cnt.get("as") == want["as"]
        live = int(want["live"])
        if len(pi) > 2 and sum(1 for tok in pi[2].split() if tok.startswith("A")) != int(want["as"]):
            return False
        if int(cnt["c"]) - int(cnt["d"]) != int(cnt["live"]) or int(cnt["live"]) != live or cnt["t"] != "0":
            return False
        if ref.startswith("end") and cnt["b"] != "0":
            return False
        if len(pi) > 2 and "!" in pi[2]:          # misuse marks of the ledger (dangling source, double free, free with live objects);
            return False                          # slot names themselves (block size, slot order) are no business of the reference
        return True

    reference.eq = ref_eq
    return reference


# ---- generators -------------------------------------------------------------------------------------
def gen_history(rng, length, kinds=KINDS, keys=6, alias=0.3, grow=0.55):
    """structured random history: sizes are tracked with the reference so that indices are mostly valid;
    `alias` = share of ops with self / own-element arguments; values are fresh per history"""
    r = Ref()
    h = []
    val = [100]

    def nv():
        val[0] += 1
        return val[0]

    while len(h) < length:
        k = rng.choice(kinds)
        v = rng.randrange(2)
        w = v if rng.random() < alias * 0.6 else 1 - v
        n = r.size(k, v)
        i = rng.randrange(n) if n else 0
        p = rng.randrange(n + 1)
        key = rng.randrange(keys)
        al = rng.random() < alias
        gr = rng.random() < grow
        z = rng.random()
        if z < 0.03: op = f"{k}.clear {v}"
        elif z < 0.045 + (0 if gr else 0.05): op = f"{k}.{rng.choice(['removefront', 'removeback'])} {v}"
        elif z < 0.05: op = f"{k}.new {v}"
        elif z < 0.10 and k not in "PQ": op = f"{k}.assign {v} {w}"
        elif z < 0.13 and k not in "PQ" and w != v: op = f"{k}.copy {v} {w}"
        elif z < 0.17 and k not in "MU": op = f"{k}.swap {v} {w}"
        elif k == "A":
            cs = [f"A.append {v} {nv()}", f"A.appendref {v} {i}", f"A.appendarr {v} {w}", f"A.appendptr {v} {i} {rng.randrange(n - i + 1) if n else 0}",
                  f"A.resize {v} {rng.randrange(12)} {nv()}", f"A.resizeref {v} {rng.randrange(14)} {i}", f"A.reserve {v} {rng.randrange(16)}",
                  f"A.remove {v} {rng.randrange(n + 1)}", f"A.removeit {v} {i}", f"A.set {v} {i} {nv()}", f"A.newcap {v} {rng.randrange(9)}"]
            ws = [4, 4 if al else 1, 2, 2 if al else 1, 2, 3 if al else 1, 2, 2, 2, 1, 1] if gr else [1, 1, 0, 0, 2, 1, 1, 4, 4, 1, 0]
            op = rng.choices(cs, ws)[0]
        elif k == "L":
            cs = [f"L.append {v} {nv()}", f"L.prepend {v} {nv()}", f"L.insert {v} {p} {nv()}", f"L.appendref {v} {i}", f"L.prependref {v} {i}",
                  f"L.insertref {v} {p} {i}", f"L.appendlist {v} {w}", f"L.prependlist {v} {w}", f"L.insertlist {v} {p} {w}",
                  f"L.remove {v} {i}", f"L.removeval {v} {rng.choice([e[0] for e in r.v['L'][v]] or [0])}", f"L.removevalref {v} {i}", f"L.set {v} {i} {nv()}",
                  f"L.sort {v}", f"L.sortwith {v} {rng.randrange(1, 25)} {rng.randrange(1 << 24)}"]
            ws = [4, 2, 3, 1, 1, 1, 1, 1, 1, 2, 1, 1, 1, 0.8, 0.8] if gr else [1, 0, 1, 0, 0, 0, 0, 0, 0, 5, 2, 2, 1, 0.5, 0.5]
            if n > 12: ws[6] = ws[7] = ws[8] = 0
            op = rng.choices(cs, ws)[0]
        elif k in "MU":
            cs = [f"{k}.insert {v} {key} {nv()}", f"{k}.insertref {v} {key} {i}", f"{k}.removeat {v} {i}", f"{k}.set {v} {i} {nv()}"]
            ws = [6, 2, 2, 1] if gr else [1, 0, 5, 1]
            if k == "M":
                cs += [f"M.inserthint {v} {p} {key} {nv()}", f"M.insertmap {v} {w}", f"M.remove {v} {key}"]
                ws += [3, 1, 2] if gr else [0, 0, 4]
            else:
                cs += [f"U.remove {v} {key}", f"U.inserthint {v} {p} {key} {nv()}"]
                ws += [1, 3] if gr else [3, 0]
                if n > 12:
                    ws[0] = ws[1] = 0
            op = rng.choices(cs, ws)[0]
        elif k == "H":
            cs = [f"H.append {v} {key} {nv()}", f"H.prepend {v} {key} {nv()}", f"H.insert {v} {p} {key} {nv()}", f"H.appendref {v} {key} {i}",
                  f"H.remove {v} {key}", f"H.removeat {v} {i}", f"H.set {v} {i} {nv()}", f"H.newcap {v} {rng.randrange(5)}"]
            ws = [5, 2, 2, 2, 2, 1, 1, 0.3] if gr else [1, 0, 0, 0, 5, 4, 1, 0]
            op = rng.choices(cs, ws)[0]
        elif k == "S":
            cs = [f"S.append {v} {key}", f"S.prepend {v} {key}", f"S.insert {v} {p} {key}", f"S.appendref {v} {i}", f"S.appendset {v} {w}",
                  f"S.remove {v} {key}", f"S.removeref {v} {i}", f"S.removeset {v} {w}", f"S.removeat {v} {i}", f"S.newcap {v} {rng.randrange(5)}"]
            ws = [5, 2, 2, 1, 1, 2, 1, 0.5, 1, 0.3] if gr else [1, 0, 0, 0, 0, 4, 2, 1, 4, 0]
            op = rng.choices(cs, ws)[0]
        elif k == "P":
            j = rng.randrange(n) if n else 0
            cs = [f"P.append {v} {nv()}", f"P.append0 {v}", f"P.remove {v} {i}", f"P.removeref {v} {i}", rng.choice([f"P.append2 {v} {nv()} {rng.randrange(3)}", f"P.appendn {v} {rng.randrange(3, 8)} {nv()}"]),
                  f"P.removechain {v} {i} {j if j != i else (i + 1) % max(n, 1)}"]
            op = rng.choices(cs, [6, 1, 2, 2, 1, 1.5] if gr else [1, 0, 4, 4, 0, 3])[0]
        else:
            j = rng.randrange(n) if n else 0
            cs = [f"Q.append {v} {key} {nv()}", f"Q.remove {v} {key}", f"Q.removeat {v} {i}", f"Q.removeref {v} {i}", f"Q.newcap {v} {rng.randrange(5)}",
                  f"Q.prepend {v} {key} {nv()}", f"Q.insert {v} {p} {key} {nv()}", f"Q.removechain {v} {i} {j if j != i else (i + 1) % max(n, 1)}"]
            op = rng.choices(cs, [5, 2, 1, 1, 0.2, 2, 2, 1.5] if gr else [1, 4, 3, 3, 0, 0, 0, 3])[0]
        if r.apply(op, False) == "bad-op" and rng.random() < 0.9:
            continue            # keep a few rejected lines
        h.append(op)
    return h + ["destroyall"]


SMALL = {
    "A": ["A.removefront 0", "A.removeback 0", "A.append 0 1", "A.append 0 2", "A.appendref 0 0", "A.appendref 0 2", "A.appendarr 0 0", "A.appendarr 0 1", "A.appendptr 0 1 2",
          "A.resize 0 5 3", "A.resize 0 1 3", "A.resizeref 0 4 0", "A.resizeref 0 9 1", "A.reserve 0 4", "A.reserve 0 9", "A.remove 0 0", "A.removeit 0 1",
          "A.set 0 0 7", "A.clear 0", "A.swap 0 1", "A.assign 0 0", "A.assign 0 1", "A.assign 1 0", "A.copy 1 0", "A.new 0", "A.newcap 0 5"],
    "L": ["L.removefront 0", "L.removeback 0", "L.append 0 1", "L.append 0 2", "L.prepend 0 3", "L.insert 0 1 4", "L.appendref 0 0", "L.insertref 0 1 1", "L.appendlist 0 0", "L.prependlist 0 0",
          "L.insertlist 0 1 0", "L.appendlist 0 1", "L.insertlist 1 0 0", "L.remove 0 0", "L.remove 0 1", "L.removeval 0 1", "L.removevalref 0 1", "L.set 0 0 7",
          "L.clear 0", "L.swap 0 1", "L.assign 0 0", "L.assign 0 1", "L.assign 1 0", "L.copy 1 0", "L.new 0", "L.sort 0", "L.sortwith 0 3 5", "L.sortwith 0 6 42"],
    "M": ["M.removefront 0", "M.removeback 0", "M.insert 0 2 1", "M.insert 0 1 2", "M.insert 0 3 3", "M.insert 0 2 4", "M.inserthint 0 0 0 5", "M.inserthint 0 1 2 6", "M.insertref 0 4 0", "M.insertref 0 2 0",
          "M.insertmap 0 0", "M.insertmap 0 1", "M.insertmap 1 0", "M.remove 0 2", "M.removeat 0 0", "M.removeat 0 1", "M.set 0 0 7", "M.clear 0",
          "M.assign 0 0", "M.assign 0 1", "M.assign 1 0", "M.copy 1 0", "M.new 0"],
    "U": ["U.removefront 0", "U.removeback 0", "U.insert 0 2 1", "U.insert 0 1 2", "U.insert 0 2 3", "U.insert 0 3 4", "U.insertref 0 2 0", "U.insertref 0 0 1", "U.removeat 0 0", "U.removeat 0 1", "U.remove 0 2", "U.remove 0 1", "U.inserthint 0 0 0 5", "U.inserthint 0 1 4 6", "U.inserthint 0 0 2 8", "U.inserthint 0 1 2 9", "U.inserthint 0 2 2 10", "U.inserthint 0 1 1 11", "U.inserthint 0 3 2 12",
          "U.set 0 0 7", "U.clear 0", "U.assign 0 0", "U.assign 0 1", "U.assign 1 0", "U.copy 1 0", "U.copy 0 1", "U.new 0"],
    "H": ["H.removefront 0", "H.removeback 0", "H.append 0 2 1", "H.append 0 1 2", "H.append 0 2 3", "H.prepend 0 3 4", "H.insert 0 1 4 5", "H.appendref 0 5 0", "H.appendref 0 2 1", "H.remove 0 2",
          "H.removeat 0 0", "H.removeat 0 1", "H.set 0 0 7", "H.clear 0", "H.swap 0 1", "H.assign 0 0", "H.assign 0 1", "H.assign 1 0", "H.copy 1 0", "H.new 0", "H.newcap 0 1"],
    "S": ["S.removefront 0", "S.removeback 0", "S.append 0 2", "S.append 0 1", "S.prepend 0 3", "S.insert 0 1 4", "S.appendref 0 0", "S.appendset 0 0", "S.appendset 0 1", "S.appendset 1 0", "S.remove 0 2",
          "S.removeref 0 0", "S.removeset 0 0", "S.removeset 0 1", "S.removeat 0 1", "S.clear 0", "S.swap 0 1", "S.assign 0 0", "S.assign 1 0", "S.copy 1 0", "S.new 0"],
    "P": ["P.removefront 0", "P.removeback 0", "P.append 0 1", "P.append 0 2", "P.append0 0", "P.remove 0 0", "P.remove 0 1", "P.removeref 0 0", "P.removeref 0 2", "P.clear 0", "P.swap 0 1", "P.append 1 3", "P.new 0", "P.append2 0 1 2", "P.appendn 0 3 4", "P.appendn 0 7 5", "P.removechain 0 0 1", "P.removechain 0 1 0", "P.removechain 0 0 2"],
    "Q": ["Q.removefront 0", "Q.removeback 0", "Q.append 0 2 1", "Q.append 0 1 2", "Q.append 0 2 3", "Q.append 0 3 4", "Q.remove 0 2", "Q.removeat 0 0", "Q.removeref 0 1", "Q.clear 0", "Q.swap 0 1", "Q.append 1 5 5",
          "Q.new 0", "Q.newcap 0 1", "Q.prepend 0 4 6", "Q.insert 0 1 5 7", "Q.removechain 0 0 1", "Q.removechain 0 1 0", "Q.removechain 0 2 0"],
}


def exhaustive(depth, kinds=KINDS):
    hs = []
    for k in kinds:
        d = depth + 1 if len(SMALL[k]) <= 12 else depth
        for n in range(1, d + 1):
            hs += [list(p) + ["destroyall"] for p in itertools.product(SMALL[k], repeat=n)]
    return hs


def array_boundaries(maxn):
    """Array alias ops at every size / capacity boundary: arrays of size n built by append (capacity n|3) or by resize / newcap"""
    hs = []
    for n in range(0, maxn + 1):
        for build in ([f"A.append 0 {10 + j}" for j in range(n)], [f"A.newcap 0 {n}"] + [f"A.append 0 {10 + j}" for j in range(n)],
                      [f"A.resize 0 {n} 9"], [f"A.reserve 0 {n}"] + [f"A.append 0 {10 + j}" for j in range(n)]):
            tails = [["A.appendarr 0 0"], ["A.assign 0 0"], ["A.appendarr 0 0", "A.appendarr 0 0"]]
            for i in range(n):
                tails += [[f"A.appendref 0 {i}"], [f"A.appendref 0 {i}", f"A.appendref 0 {n}"], [f"A.removeit 0 {i}", "A.appendref 0 0"] if n > 1 else [f"A.appendref 0 {i}"]]
                tails += [[f"A.resizeref 0 {m} {i}"] for m in (0, i, i + 1, n, n + 1, (n | 3), (n | 3) + 1, 2 * n + 5)]
                tails += [[f"A.appendptr 0 {i} {c}"] for c in range(0, n - i + 1)]
            hs += [build + t + ["destroyall"] for t in tails]
    return hs


def _hins(k, how, v, pos, key, val):
    """one insertion line of a hash container: how = append | prepend | insert"""
    if k == "S":
        return f"S.{how} {v} {key}" if how != "insert" else f"S.insert {v} {pos} {key}"
    return f"{k}.{how} {v} {key} {val}" if how != "insert" else f"{k}.insert {v} {pos} {key} {val}"


def collision_exhaustive():
    """bucket chains: two or three keys of ONE bucket (explicit capacity c, keys congruent mod c) linked in every order
    (append / prepend / positional insert, so that chain order and iteration order disagree), then every operation that
    tears items out of the chains in bulk or singly (clear, assignment, swap between tables of different bucket counts,
    remove), then re-use of the same bucket (insert / remove / overwrite of the same keys)"""
    hs = []
    for k in "HSQ":
        for c in (1, 2):
            a, b, d = 1, 1 + c, 1 + 2 * c                       # one bucket
            builds = []
            for h1 in ("append", "prepend"):
                for h2 in ("append", "prepend", "insert"):
                    builds.append([_hins(k, "append", 0, 0, a, 10), _hins(k, h1, 0, 0, b, 20), _hins(k, h2, 0, 1, d, 30)])
                    builds.append([_hins(k, h1, 0, 0, a, 10), _hins(k, h2, 0, 1, b, 20)])
            tears = [[f"{k}.clear 0"], [f"{k}.removeat 0 0"], [f"{k}.removeback 0"], [f"{k}.remove 0 {b}"], [f"{k}.swap 0 1"],
                     [f"{k}.swap 0 1", _hins(k, "append", 1, 0, b + c, 40), f"{k}.swap 1 0"]]
            if k != "Q":
                tears += [[f"{k}.assign 0 1"], [_hins(k, "append", 1, 0, b, 50), f"{k}.assign 0 1"], [f"{k}.copy 1 0", f"{k}.clear 0", f"{k}.assign 0 1"]]
            else:
                tears += [[f"Q.removechain 0 0 1"], [f"Q.removechain 0 1 0"]]
            reuse = [[_hins(k, "append", 0, 0, a, 60)], [_hins(k, "append", 0, 0, b, 61), _hins(k, "prepend", 0, 0, a, 62)],
                     [f"{k}.remove 0 {a}", f"{k}.remove 0 {b}"], [_hins(k, "append", 0, 0, d, 63), f"{k}.clear 0", _hins(k, "append", 0, 0, d, 64)]]
            for bu in builds:
                for t in tears:
                    for r in reuse:
                        hs.append([f"{k}.newcap 0 {c}"] + bu + t + r + ["destroyall"])
    return hs


def collision_history(rng, length):
    """random history on the hash containers with small explicit bucket counts (different for the two variables), few keys
    (so most insertions collide), a high share of prepend / positional inserts, and clear / assign / swap / copy between
    phases of re-use of the same keys"""
    k = rng.choice("HHSSQ")
    r = Ref()
    caps = [rng.choice([1, 1, 2, 3]), rng.choice([1, 2, 3, 5, None])]
    h = [f"{k}.newcap {v} {c}" for v, c in enumerate(caps) if c is not None]
    for l in h:
        r.apply(l, False)
    val = 200
    while len(h) < length:
        v = rng.randrange(2) if rng.random() < 0.35 else 0
        n = r.size(k, v)
        key = rng.randrange(7)
        val += 1
        z = rng.random()
        if z < 0.45:
            op = _hins(k, rng.choice(["append", "prepend", "prepend", "insert"]), v, rng.randrange(n + 1), key, val)
        elif z < 0.55:
            op = f"{k}.clear {v}"
        elif z < 0.65:
            op = f"{k}.swap {v} {1 - v}"
        elif z < 0.73 and k != "Q":
            op = f"{k}.assign {v} {1 - v}"
        elif z < 0.76 and k != "Q":
            op = f"{k}.copy {v} {1 - v}"
        elif z < 0.86:
            op = f"{k}.remove {v} {key}"
        elif z < 0.93 and n:
            op = f"{k}.removeat {v} {rng.randrange(n)}"
        elif k == "S":
            op = rng.choice([f"S.appendset {v} {rng.randrange(2)}", f"S.removeset {v} {rng.randrange(2)}"])
        elif k == "Q" and n > 1:
            i = rng.randrange(n)
            op = f"Q.removechain {v} {i} {(i + rng.randrange(1, n)) % n}"
        elif k == "H" and n:
            op = f"H.appendref {v} {key} {rng.randrange(n)}"
        else:
            continue
        if r.apply(op, False) == "bad-op":
            continue
        h.append(op)
    return h + ["destroyall"]


def sort_histories(rng, quick):
    """List::sort(): every permutation of up to 5 (6 thorough) distinct values, every tuple over three values of length 2..4 under every
    dictated outcome of the first 5 comparisons (inconsistent comparators included), random longer lists with duplicates and random
    oracles; each followed by an insertion, a removal and the destructors (the links must be intact)"""
    hs = []
    tail = ["L.append 0 99", "L.removefront 0", "L.insert 0 1 98", "destroyall"]
    for n in range(0, 6 if quick else 7):
        for perm in itertools.permutations(range(1, n + 1)):
            hs.append([f"L.append 0 {x}" for x in perm] + ["L.sort 0"] + tail)
    for n in range(2, 5):
        for tup in itertools.product((1, 2, 3), repeat=n):
            for bits in range(32):
                hs.append([f"L.append 0 {x}" for x in tup] + [f"L.sortwith 0 5 {bits}", "L.sort 0"] + tail[:2] + ["destroyall"])
    for _ in range(300 if quick else 6000):
        n = rng.randrange(2, 40)
        vals = [rng.randrange(rng.choice([3, 10, 1000])) for _ in range(n)]
        h = [f"L.append 0 {x}" for x in vals]
        for _ in range(rng.randrange(1, 4)):
            h.append(rng.choice(["L.sort 0", f"L.sortwith 0 {rng.randrange(1, 25)} {rng.randrange(1 << 24)}", f"L.remove 0 {rng.randrange(n // 2)}",
                                 f"L.prepend 0 {rng.randrange(10)}", "L.copy 1 0", "L.sort 1", "L.swap 0 1"]))
        hs.append(h + ["L.sort 0"] + tail)
    return hs


# ---- nested instantiation Map<K, List<T>> / HashMap<K, List<T>> on the real headers (harness/life_nested.cpp; no Lean model) ----------
class NestRef:
    """reference of the nested harness: per variable an association list key -> inner list of [payload, born]; N sorted by key,
    G in insertion order.  `m.insert(key, *m.find(key))` must change NOTHING (no inner element is constructed, none moves);
    assignment from another list replaces the inner elements by new ones."""

    def __init__(self):
        self.v = {"N": [[], []], "G": [[], []]}
        self.now = 0

    def find(self, x, key):
        for e in x:
            if e[0] == key:
                return e
        return None

    def put(self, k, x, key, inner):
        e = self.find(x, key)
        if e is not None:
            e[1] = inner
            return
        if k == "N":
            x.insert(sum(1 for e in x if e[0] < key), [key, inner])
        else:
            x.append([key, inner])

    def show(self, x):
        return " ".join(f"{e[0]}:[" + " ".join(f"{p}{'n' if b == self.now else 's'}" for p, b in e[1]) + "]" for e in x) or "-"

    def apply(self, line):
        self.now += 1
        t = line.split()
        if t[0] == "destroyall":
            self.v = {"N": [[], []], "G": [[], []]}
            return "end # u=0 dd=0 ov=0 live=0"
        m = re.fullmatch(r"([NG])\.(\w+)", t[0])
        if not m:
            return "bad-op"
        k, op = m.group(1), m.group(2)
        try:
            a = [int(z) for z in t[1:]]
        except ValueError:
            return "bad-op"
        if not a or a[0] > 1:
            return "bad-op"
        x = self.v[k][a[0]]
        n = len(a)
        if op == "push" and n == 3:
            e = self.find(x, a[1])
            if e is None:
                self.put(k, x, a[1], [])
                e = self.find(x, a[1])
            e[1].append([a[2], self.now])
        elif (op == "insertself" and n == 2) or (op == "insertplain" and n == 2 and k == "N"):
            if self.find(x, a[1]) is None:
                return "bad-op"                       # present: the value is assigned to itself - nothing may change
        elif op == "insertfrom" and n == 3:
            src = self.find(x, a[2])
            if src is None:
                return "bad-op"
            if a[1] != a[2]:
                self.put(k, x, a[1], [[p, self.now] for p, _ in src[1]])
        elif op == "pop" and n == 2:
            e = self.find(x, a[1])
            if e is None or not e[1]:
                return "bad-op"
            del e[1][0]
        elif op == "remove" and n == 2:
            x[:] = [e for e in x if e[0] != a[1]]
        elif op == "clear" and n == 1:
            x[:] = []
        elif op == "assign" and n == 2:
            if a[1] > 1:
                return "bad-op"
            if a[1] != a[0]:
                self.v[k][a[0]] = [[e[0], [[p, self.now] for p, _ in e[1]]] for e in self.v[k][a[1]]]
        else:
            return "bad-op"
        return f"{k} {self.show(self.v[k][0])} | {self.show(self.v[k][1])} # u=0 dd=0 ov=0"


NEST_SMALL = {k: [f"{k}.push 0 1 10", f"{k}.push 0 1 11", f"{k}.push 0 2 20", f"{k}.insertself 0 1", f"{k}.insertself 0 2", f"{k}.insertfrom 0 2 1",
                  f"{k}.insertfrom 0 3 1", f"{k}.insertfrom 0 1 1", f"{k}.pop 0 1", f"{k}.remove 0 1", f"{k}.clear 0", f"{k}.assign 0 0", f"{k}.assign 1 0",
                  f"{k}.assign 0 1"] + ([f"{k}.insertplain 0 1"] if k == "N" else []) for k in "NG"}


def nested_histories(rng, quick):
    hs = []
    for k in "NG":
        for n in (1, 2, 3):
            hs += [list(p) + ["destroyall"] for p in itertools.product(NEST_SMALL[k], repeat=n)]
    for _ in range(400 if quick else 8000):
        k = rng.choice("NG")
        h = []
        for _ in range(rng.choice([6, 12, 25])):
            v, key, key2 = rng.randrange(2), rng.randrange(4), rng.randrange(4)
            h.append(rng.choice([f"{k}.push {v} {key} {rng.randrange(100)}"] * 4 + [f"{k}.insertself {v} {key}"] * 3 + [f"{k}.insertfrom {v} {key} {key2}"] * 2 +
                                ([f"N.insertplain {v} {key}"] * 2 if k == "N" else []) +
                                [f"{k}.pop {v} {key}", f"{k}.remove {v} {key}", f"{k}.assign {v} {rng.randrange(2)}", f"{k}.clear {v}"]))
        hs.append(h + ["destroyall"])
    return hs


def nested_run(exe, hs):
    """[(history, index of first bad line, impl line, ref line, stderr)] for the histories on which implementation and reference differ"""
    bad = []
    for i in range(0, len(hs), 400):
        chunk = hs[i:i + 400]
        lines, _ = C.flatten(chunk)
        out, rc, err = C.run_lines(exe, lines, timeout=150)
        for h, io in zip(chunk, C.split_outputs(out, chunk)):
            r = NestRef()
            ro = [r.apply(l) for l in h]
            if io != ro:
                j = next((j for j in range(len(ro)) if j >= len(io) or io[j] != ro[j]), len(ro))
                bad.append((h, j, io[j] if j < len(io) else "<no output: crash/timeout>", ro[j] if j < len(ro) else "", err if j >= len(io) else ""))
    return bad


def nested_stage(ctx):
    """the sub-object case on real code: Map<K, List<T>>::insert(key, *map.find(key)) and friends"""
    exe = C.build_harness(ctx, "life_nested_" + ctx.prop, ["life_nested.cpp", C.REPO / "src/Memory.cpp"])
    if exe is None:
        return
    try:
        hs = nested_histories(ctx.rng, ctx.tier == "quick")
        ctx.cov.setdefault("streams", {})["nested"] = len(hs)
        ctx.cov["nested_op_lines"] = sum(len(h) for h in hs)
        bad = nested_run(exe, hs)
        ctx.log(f"nested Map/HashMap<K, List<T>>: {len(hs)} histories, {len(bad)} disagreement(s) with the reference")
        for h, j, il, rl, err in bad[:2]:
            def fails(hh):
                return bool(nested_run(exe, [hh if hh and hh[-1] == "destroyall" else hh + ["destroyall"]]))
            small = C.ddmin(h[:j + 1], fails) if len(h) <= 40 else h[:j + 1]
            text = "# impl-vs-reference on stream 'life-nested' (real Map/HashMap<K, List<T>>, harness/life_nested.cpp)\n" + "\n".join(small) + \
                   f"\n# first disagreement at op {j + 1} of the unshrunk history\n# impl : {il}\n# ref  : {rl}\n" + "".join("# " + z + "\n" for z in err.splitlines()[:12])
            ctx.violation("nested: impl-vs-reference", text)
    finally:
        try:
            exe.unlink()
        except OSError:
            pass


def long_history(rng, length, kinds):
    """C05: long-lived elements - a growth phase, then a long steady phase of mixed insertions / removals, a drain, regrowth"""
    h = gen_history(rng, length // 4, kinds, keys=12, alias=0.1, grow=0.9)[:-1]
    # continue on the same abstract state: regenerate with a prefix-aware generator
    r = Ref()
    for l in h:
        r.apply(l, False)
    rest = []
    val = 5000
    while len(rest) < length - len(h):
        k = rng.choice(kinds)
        v = rng.randrange(2)
        n = r.size(k, v)
        i = rng.randrange(n) if n else 0
        key = rng.randrange(12)
        val += 1
        grow = n < 6 or (n < 14 and rng.random() < 0.5)
        if rng.random() < 0.04 and k not in "MU":
            op = f"{k}.swap {v} {1 - v}"
        elif k == "L":
            op = rng.choice([f"L.append {v} {val}", f"L.prepend {v} {val}", f"L.insert {v} {rng.randrange(n + 1)} {val}"]) if grow else rng.choice([f"L.remove {v} {i}", f"L.removevalref {v} {i}"])
        elif k in "MU":
            op = f"{k}.insert {v} {key} {val}" if grow else rng.choice([f"{k}.removeat {v} {i}", f"{k}.remove {v} {key}"])
        elif k == "H":
            op = rng.choice([f"H.append {v} {key} {val}", f"H.prepend {v} {key} {val}"]) if grow else rng.choice([f"H.remove {v} {key}", f"H.removeat {v} {i}"])
        elif k == "S":
            op = f"S.append {v} {key}" if grow else rng.choice([f"S.remove {v} {key}", f"S.removeat {v} {i}"])
        elif k == "P":
            op = f"P.append {v} {val}" if grow else rng.choice([f"P.remove {v} {i}", f"P.removeref {v} {i}", f"P.removechain {v} {i} {(i + rng.choice([1, n - 1, rng.randrange(1, max(n, 2))])) % max(n, 1)}"])
        else:
            op = (rng.choice([f"Q.append {v} {key} {val}", f"Q.append {v} {key} {val}", f"Q.prepend {v} {key} {val}", f"Q.insert {v} {rng.randrange(n + 1)} {key} {val}"]) if grow else
                  rng.choice([f"Q.remove {v} {key}", f"Q.removeat {v} {i}", f"Q.removeref {v} {i}", f"Q.removechain {v} {i} {(i + rng.choice([1, n - 1, rng.randrange(1, max(n, 2))])) % max(n, 1)}"]))
        if r.apply(op, False) == "bad-op":
            continue
        rest.append(op)
    return h + rest + ["destroyall"]


def client_patterns(rng):
    """the three clients of the C05 guarantee as scripted histories: Server (pool lists of clients / timers: append on accept,
    remove by reference on close), Future (worker contexts appended once, removed at shutdown), Callback (slots in a list / hash map
    keyed by emitter, removed while others stay)"""
    hs = []
    for rep in range(4):
        h, live, val = [], 0, 0
        for _ in range(60):                      # server: accept / close in random order
            if live < 3 or (live < 10 and rng.random() < 0.55):
                val += 1; h.append(f"P.append 0 {val}"); live += 1
            else:
                h.append(f"P.removeref 0 {rng.randrange(live)}"); live -= 1
        hs.append(h + ["P.swap 0 1", "P.append 0 999", "P.clear 1", "destroyall"])
        h = [f"P.append 1 {j + 1}" for j in range(8)] + [f"Q.append 0 {j} {j + 50}" for j in range(8)]      # worker contexts
        h += [f"Q.removeref 0 {rng.randrange(8 - j)}" for j in range(4)] + [f"P.remove 1 {rng.randrange(8 - j)}" for j in range(8)]
        hs.append(h + ["destroyall"])
        h, keys = [], []
        for _ in range(50):                      # callback slots
            if len(keys) < 3 or rng.random() < 0.5:
                kk = rng.randrange(40)
                h += [f"H.append 0 {kk} {kk + 100}", f"L.append 0 {kk}"]
                if kk not in keys: keys.append(kk)
            else:
                kk = keys.pop(rng.randrange(len(keys)))
                h += [f"H.remove 0 {kk}", f"L.removeval 0 {kk}"]
        hs.append(h + ["destroyall"])
    return hs


def life_eq(a, b):
    """implementation line = model line, except for the POSITION of `Ft<b>` inside the event log of one op: the release of the table
    of a hash container (a block without element slots - nothing is constructed in it) commutes with every element event, so
    whether ~HashMap releases it before or after the items is no matter of C04; that it is released exactly once still is
    (token present on both sides, ledger counters, no `!` mark)."""
    if a == b:
        return True

    def norm(l):
        parts = l.split(" # ")
        if len(parts) < 3:
            return l
        toks = parts[2].split()
        parts[2] = " ".join([t for t in toks if not re.fullmatch(r"Ft\d+", t)] + sorted(t for t in toks if re.fullmatch(r"Ft\d+", t)))
        return " # ".join(parts)
    return norm(a) == norm(b)


def nontrivial(h, out):
    """distinct (set of op names, final contents) among histories with >= 3 ops whose last-but-one observation shows a non-empty container"""
    if len(h) < 3 or len(out) < 2:
        return None
    body = out[-2].split(" # ")[0]
    if not re.search(r"\d", body[2:]):
        return None
    return (frozenset(l.split()[0] for l in h), body)


def histories_for(ctx):
    rng, quick, c05 = ctx.rng, ctx.tier == "quick", ctx.prop == "C05"
    kinds = "LMUHSPQ" if c05 else KINDS
    hs = C.load_corpus(ctx.prop)
    ncorpus = len(hs)
    depth = 2 if quick else 3
    ex = exhaustive(depth, kinds)
    # a seeded sample of the next depth as well
    nsample = 12000 if quick else 150000
    deeper = exhaustive(depth + 1, kinds if quick else "".join(k for k in kinds if len(SMALL[k]) > 12))
    rng.shuffle(deeper)
    ex += deeper[:nsample]
    parts = [("corpus", hs), ("exhaustive", ex), ("collisions", collision_exhaustive() + [collision_history(rng, rng.choice([8, 14, 25])) for _ in range(1500 if quick else 30000)])]
    parts.append(("sort", sort_histories(rng, quick)))
    if c05:
        longs = [long_history(rng, 300, rng.choice(["L", "M", "U", "H", "S", "P", "Q", "LMUHSPQ", "PQ", "HS", "MU"])) for _ in range(60 if quick else 1500)]
        parts += [("long", longs), ("clients", client_patterns(rng))]
        rnd = [gen_history(rng, rng.choice([8, 15, 30]), kinds, alias=0.2) for _ in range(3000 if quick else 60000)]
    else:
        parts.append(("array-boundaries", array_boundaries(8 if quick else 12)))
        # deep trees: every shape of two-children removal / rebalancing of Map and MultiMap also under the C04 ledger
        parts.append(("long", [long_history(rng, 200, rng.choice(["M", "U", "MU", "M", "U", "HSQ", "LP"])) for _ in range(40 if quick else 800)]))
        rnd = [gen_history(rng, rng.choice([6, 12, 25, 40]), rng.choice([KINDS, KINDS, "A", "L", "AL", "MU", "HS", "PQ"]),
                           alias=rng.choice([0.2, 0.5])) for _ in range(5000 if quick else 100000)]
    parts.append(("random", rnd))
    allh = [h for _, p in parts for h in p]
    ctx.cov["rule"] = (f"corpus ({ncorpus}) + exhaustive: per container kind all op sequences of length <= {depth} "
                       f"(<= {depth + 1} for the pool kinds) over the alphabets SMALL[kind] of tools/areas/life.py ({', '.join(f'{k}:{len(SMALL[k])}' for k in kinds)} ops, "
                       f"incl. every alias op){' + a seeded sample of ' + str(nsample) + ' of length ' + str(depth + 1)} = {len(ex)} histories"
                       + ("" if c05 else f" + Array alias ops (appendref/resizeref/appendptr/appendarr self/assign self) at every size 0..{8 if quick else 12} x 4 ways of reaching the capacity")
                       + f" + {len(rnd)} structured random histories over 2 variables per kind"
                       + f" + {len(dict(parts)['collisions'])} bucket-chain histories on HashMap/HashSet/PoolMap (explicit bucket counts 1..5, different for the two variables, keys of one bucket linked by append/prepend/positional insert in every order, then clear/assign/swap/copy/remove, then re-use of the same keys: an exhaustive family + random ones)"
                       + f" + {len(dict(parts)['sort'])} List::sort histories (all permutations of <= {5 if quick else 6} values, all tuples over 3 values of length 2..4 x all 32 dictated outcomes of the first 5 comparisons, random longer lists with random comparators)"
                       + f" + {len(dict(parts)['long'])} long histories ({'300' if c05 else '200'} ops, long-lived elements, deep trees)"
                       + (f" + {len(dict(parts)['clients'])} scripted client patterns (Server pools, Future contexts, Callback slots)" if c05 else "")
                       + "; every history ends with destroyall (leak check); distinct_nontrivial = distinct (op-name set, final contents) among histories with >= 3 ops and non-empty final contents")
    ctx.cov["exhaustive"] = False
    ctx.cov["exhaustive_scope"] = f"length<={depth} per kind over SMALL[kind]: {len(ex)} histories"
    ctx.cov["streams"] = {n: len(p) for n, p in parts}
    return allh


def sources():
    return ["life.cpp", C.REPO / "src/Memory.cpp"]


def check(ctx):
    ctx.assumptions += [
        "allocation never fails; element constructors / assignments do not throw",
        "the element type's comparison, hash and copy operations have no side effect on containers (they only touch the ledger)",
        "object locations are canonicalised as (block serial, slot index, field) / sentinel / caller temporary; raw addresses are never compared",
        "AVL shape and hash chains are not part of the model (iteration order and lookup by payload are); MultiMap::remove(key) removes the first of the equal keys (MultiMap::find as repaired by area Avl, fixes/avl); MultiMap::insert(hint) not with a key equal to the successor's key of a hinted item that is not above it",
    ]
    proof_ok = C.proof_stage(ctx, PROPS_BY[ctx.prop], [DRIVER], gen=gen, leanchecker=(ctx.tier == "thorough"))
    ctx.cov["open_statements"] = list(OPEN[ctx.prop])
    harness = C.build_harness(ctx, "life_" + ctx.prop, sources(), extra_flags=["-Wno-invalid-offsetof"])
    if harness is None or not C.driver_path(DRIVER).exists():
        return
    try:
        hs = histories_for(ctx)
        if not proof_ok:
            ctx.log("proof stage broken: searching harder for a failing input")
            hs += [gen_history(ctx.rng, 30) for _ in range(10000)]
        ops = {}
        for h in hs:
            for l in h:
                ops[l.split()[0]] = ops.get(l.split()[0], 0) + 1
        ctx.cov["op_histogram"] = ops
        ctx.cov["samples"] = [" ; ".join(h) for h in (hs[-3:] + hs[len(hs) // 2: len(hs) // 2 + 2])]
        ref = make_reference(ctx.prop == "C05")
        args = [ctx.prop]
        diffs = C.differential(ctx, harness, C.driver_path(DRIVER), hs, ref, life_eq, nontrivial=nontrivial,
                               harness_args=args, driver_args=args,
                               timeout=(150 if ctx.tier == "quick" else 600))   # a chunk takes < 10 s; a hanging implementation is a result
        ctx.log(f"{len(hs)} histories, {ctx.cov['evaluations']} op lines, {len(diffs)} disagreement(s)")
        C.report_diffs(ctx, diffs, harness, C.driver_path(DRIVER), ref, life_eq, "life-" + ctx.prop,
                       harness_args=args, driver_args=args)
        nested_stage(ctx)
    finally:
        try:
            harness.unlink()
        except OSError:
            pass


def replay(ctx, path):
    h = C.parse_replay(path)
    if h and h[0][:2] in ("N.", "G."):
        exe = C.build_harness(ctx, "life_nested_" + ctx.prop, ["life_nested.cpp", C.REPO / "src/Memory.cpp"])
        for hh, j, il, rl, err in nested_run(exe, [h if h[-1] == "destroyall" else h + ["destroyall"]]):
            txt = "\n".join(hh) + f"\n# first disagreement at op {j + 1}\n# impl : {il}\n# ref  : {rl}\n"
            print(txt)
            ctx.violation("replay: nested impl-vs-reference", txt)
        exe.unlink()
        return
    harness = C.build_harness(ctx, "life_" + ctx.prop, sources(), extra_flags=["-Wno-invalid-offsetof"])
    translate()
    translate_array()
    C.lake_build([DRIVER])
    ref = make_reference(ctx.prop == "C05")
    args = [ctx.prop]
    diffs = C.differential(ctx, harness, C.driver_path(DRIVER), [h], ref, life_eq, harness_args=args, driver_args=args)
    for d in diffs:
        print(d.text())
        ctx.violation(f"replay: {d.kind}", d.text())
    harness.unlink()
