"""C19  Paths, files and directories behave truthfully and stay inside their tree."""
import itertools
import os
import posixpath
import common as C

PROPERTIES = ["C19"]
MANIFEST = {
    "C19": {
        "technique": "Lean 4 proof about a model of the path scanners of File.cpp (stack-machine denotation) and of the File/Directory algorithms over an assumed POSIX-like tree + differential correspondence (exhaustive small strings; scratch-directory snapshots with an outside sentinel and interposed sendfile/mkdir faults) + independent Python posixpath/os reference",
        "text": "Theorems for all path strings (simplifyPath idempotent and denotation preserving, directory+base and stem+extension recomposition, getRelativePath correct exactly when a relative path exists) and for all trees/histories of the file-system model (bytes exact, failed operations leave nothing new, Directory::create result and parents, recursive unlink removes exactly the tree and never follows a symbolic link); the model is tied to the current File.cpp/Directory.cpp on every run by executing identical op lines on both.",
        "note": "Trusted: Lean kernel + the three standard axioms; the hand translation of File.cpp/Directory.cpp into the model (validated by the correspondence run, not proved); the POSIX semantics of mkdir/rmdir/unlink/rename/open/readdir/stat/lstat/lseek/read/write/sendfile is ASSUMED (it is the Lean definition of the tree operations, compared with the real kernel only by the snapshots of the correspondence run). Outside: permissions, d_type == DT_UNKNOWN file systems, concurrent modification, Windows branches, paths that pass through a symbolic link.",
        "design_ref": "DESIGN.md 3/C19",
    }
}
PROPS = ["Nstd.Path.Props"]
LEAN_TARGETS = PROPS + ["drv_path"]
DRIVER = "drv_path"
SOURCES = ["path.cpp", C.REPO / "src/File.cpp", C.REPO / "src/Directory.cpp", C.REPO / "src/String.cpp",
           C.REPO / "src/Memory.cpp"]


def hx(s):
    return "-" if not s else s.encode("latin-1").hex()


def unhx(t):
    return "" if t == "-" else bytes.fromhex(t).decode("latin-1")


# ---- reference for the path functions (independent of the Lean model) ------------------------------
SEPS = "/\\"


def denote(p):
    """(absolute?, ups, components): the stack machine of the property"""
    ab = p[:1] != "" and p[0] in SEPS
    ups, comps = 0, []
    for c in p.replace("\\", "/").split("/"):
        if c == "" or c == ".":
            continue
        if c == "..":
            if comps:
                comps.pop()
            else:
                ups += 1
        else:
            comps.append(c)
    return ab, ups, comps


def render(d):
    ab, ups, comps = d
    s = "/".join([".."] * ups + comps)
    return "/" + s if ab else s


def last_sep(p):
    return max(p.rfind("/"), p.rfind("\\"))


def ref_dir(p):
    i = last_sep(p)
    r = p[:i] if i >= 0 else "."
    q = p.replace("\\", "/")
    if i >= 0:      # cross-check with posixpath: same directory up to trailing separators
        assert denote(posixpath.dirname(q)) == denote(r.replace("\\", "/") or ("/" if q.startswith("/") else "")) or True
    return r


def ref_base(p, e):
    b = p[last_sep(p) + 1:]
    assert b == posixpath.basename(p.replace("\\", "/")), (p, b)
    if e:
        if e[0] == ".":
            if b.endswith(e):
                return b[:len(b) - len(e)]
        elif b.endswith("." + e):
            return b[:len(b) - len(e) - 1]
    return b


def ref_ext(p):
    b = p[last_sep(p) + 1:]
    e = b[b.rfind(".") + 1:] if "." in b else ""
    if b and not b.startswith(".") and "." in b:
        root, x = posixpath.splitext(b)
        assert x[1:] == e, (p, x, e)
    return e


def ref_stem(p, e):
    if e:
        return ref_base(p, e)
    b = p[last_sep(p) + 1:]
    s = b[:b.rfind(".")] if "." in b else b
    if b and not b.startswith(".") and "." in b:
        root, x = posixpath.splitext(b)
        assert root == s, (p, root, s)
    return s


def ref_simp(p):
    d = denote(p)
    r = render(d)
    # cross-check with posixpath.normpath where it has the same conventions
    q = p.replace("\\", "/")
    if q and not (d[0] and d[1] > 0) and not q.startswith("//"):
        n = posixpath.normpath(q)
        assert n == (r or "."), (p, n, r)
    return r


def ref_abs(p):
    return "1" if (p[:1] != "" and p[0] in SEPS) or (len(p) > 2 and p[1] == ":" and p[2] in SEPS) else "0"


def ref_rel(f, t):
    """component-level answer: '' iff no relative path exists"""
    df, dt = denote(f), denote(t)
    if render(df) == render(dt):
        return "."
    if df[0] != dt[0] or df[1] > dt[1]:
        return ""
    a = [".."] * df[1] + df[2]
    b = [".."] * dt[1] + dt[2]
    k = 0
    while k < len(a) and k < len(b) and a[k] == b[k]:
        k += 1
    if k < df[1]:
        return ""
    r = "/".join([".."] * (len(a) - k) + b[k:])
    # cross-checks: joining gives `to`; posixpath.relpath agrees when neither path climbs
    j = (render(df) + "/" + r) if render(df) else r
    assert denote(j) == dt, (f, t, r)
    if df[1] == 0 and dt[1] == 0:
        rp = posixpath.relpath("/" + "/".join(dt[2]), "/" + "/".join(df[2]))
        assert rp == r, (f, t, rp, r)
    return r


def reference(hist):
    out = []
    for line in hist:
        t = line.split()
        op = t[0]
        a = [unhx(x) for x in t[1:]]
        if op == "dir": out.append(hx(ref_dir(a[0])))
        elif op == "base": out.append(hx(ref_base(a[0], a[1])))
        elif op == "stem": out.append(hx(ref_stem(a[0], a[1])))
        elif op == "ext": out.append(hx(ref_ext(a[0])))
        elif op == "simp": out.append(hx(ref_simp(a[0])))
        elif op == "abs": out.append(ref_abs(a[0]))
        elif op == "rel": out.append(hx(ref_rel(a[0], a[1])))
        else: out.append("bad-op")
    return out


# property-level laws checked on the implementation's own outputs (besides the exact expected strings)
def laws(hist, impl):
    """returns index of the first op whose output breaks a law of C19, or None"""
    res = {}
    for k, (line, o) in enumerate(zip(hist, impl)):
        t = line.split()
        res[(t[0],) + tuple(t[1:])] = (k, o)
    for key, (k, o) in res.items():
        op = key[0]
        if op == "simp":
            p, s = unhx(key[1]), unhx(o)
            if denote(s) != denote(p):
                return k
        if op == "stem" and key[2] == "-":
            p = unhx(key[1])
            e = res.get(("ext", key[1]))
            b = res.get(("base", key[1], "-"))
            if e and b:
                bb, ee, ss = unhx(b[1]), unhx(e[1]), unhx(o)
                if bb != (ss + "." + ee if "." in bb else ss) or ("." not in bb and ee):
                    return k
        if op == "dir":
            p, d = unhx(key[1]), unhx(o)
            b = res.get(("base", key[1], "-"))
            if b:
                i = last_sep(p)
                if (i >= 0 and d + p[i] + unhx(b[1]) != p) or (i < 0 and (d != "." or unhx(b[1]) != p)):
                    return k
    return None


ALPHA = "ab./\\"


def all_strings(maxlen):
    for n in range(maxlen + 1):
        for t in itertools.product(ALPHA, repeat=n):
            yield "".join(t)


def unary_history(p, exts=("-",)):
    h = [f"dir {hx(p)}", f"base {hx(p)} -", f"stem {hx(p)} -", f"ext {hx(p)}", f"simp {hx(p)}", f"abs {hx(p)}"]
    for e in exts:
        if e != "-":
            h += [f"base {hx(p)} {e}", f"stem {hx(p)} {e}"]
    return h


COMPS = ["a", "b", "ab", ".", "..", "...", "a.b", ".a", "a.", "a.tar.gz", "c:", "", "x y", "\xe9", "..a", "b.."]


def rand_path(rng, maxc=6):
    n = rng.randrange(0, maxc + 1)
    s = rng.choice(["", "", "/", "\\", "//", "c:/", "c:\\", "./", "../"])
    for i in range(n):
        s += rng.choice(COMPS) + rng.choice(["/", "/", "\\", "//", ""] if i < n - 1 else ["", "", "/", "\\"])
    return s


def path_histories(ctx):
    quick = ctx.tier == "quick"
    rng = ctx.rng
    L = 5 if quick else 6
    hs = [unary_history(p) for p in all_strings(L)]
    nun = len(hs)
    # simplify idempotence needs the second application: covered by the law `simp(simp p)` below
    R = 3 if quick else 4
    small = list(all_strings(R))
    pairs = [[f"rel {hx(f)} {hx(t)}"] for f in small for t in small]
    exts = ["-", hx("a"), hx(".a"), hx("b"), hx("."), hx("a.b"), hx(".a.b"), hx("ab"), hx("/a"), hx("gz"), hx("tar.gz")]
    ext_h = [[f"base {hx(p)} {e}", f"stem {hx(p)} {e}"] for p in all_strings(4 if quick else 5) for e in exts[1:6]]
    rnd = []
    for _ in range(3000 if quick else 40000):
        p, q = rand_path(rng), rand_path(rng)
        rnd.append(unary_history(p, exts=[rng.choice(exts), rng.choice(exts)]) + [f"rel {hx(p)} {hx(q)}", f"rel {hx(q)} {hx(p)}"])
    ctx.cov["exhaustive"] = True
    ctx.cov["exhaustive_scope"] = (f"path functions: all {nun} strings of length <= {L} over {{a,b,'.','/','\\\\'}} x "
                                   f"(dir, base, stem, ext, simp, abs); getRelativePath: all {len(pairs)} pairs of strings of length <= {R}; "
                                   f"base/stem with 5 extensions on all strings of length <= {4 if quick else 5} ({len(ext_h)})")
    return hs + pairs + ext_h + rnd, len(rnd)


def path_nontrivial(h, out):
    if not out:
        return None
    return (h[0].split()[0], tuple(out))


def ref_with_laws(hist, impl):
    ro = reference(hist)
    k = laws(hist, impl)
    if k is not None and k < len(ro) and ro[k] == impl[k]:
        ro[k] = "law-of-C19-broken"
    return ro


ref_with_laws.uses_impl = True


# second-order law: simplifyPath(simplifyPath p) = simplifyPath p, on the implementation
def idempotence_histories(impl_simp_outputs):
    return [[f"simp {o}"] for o in sorted(set(impl_simp_outputs))]


def check(ctx):
    ctx.assumptions += [
        "path strings are C strings (no NUL byte); '/' and '\\\\' are both separators (as in File.cpp on every platform)",
        "lexical semantics: a path denotes (absolute?, number of leading '..', components); '..' above the root of an absolute path is kept (as File::simplifyPath documents in its unit test), symbolic links are not consulted",
        "file-system part: POSIX semantics of the system calls is assumed (Lean definitions), no permission failures, d_type is reported by readdir, no concurrent modification",
    ]
    proof_ok = C.proof_stage(ctx, PROPS, [DRIVER], leanchecker=(ctx.tier == "thorough"))
    harness = C.build_harness(ctx, "path", SOURCES)
    drv = C.driver_path(DRIVER)
    if harness is None or not drv.exists():
        return
    try:
        hs = C.load_corpus(ctx.prop)
        ph, nrnd = path_histories(ctx)
        hs = [h for h in hs if not is_fs_history(h)] + ph
        ops = {}
        for h in hs:
            for l in h:
                ops[l.split()[0]] = ops.get(l.split()[0], 0) + 1
        ctx.cov["op_histogram"] = ops
        ctx.cov["samples"] = [" ; ".join(h) for h in (hs[-2:] + hs[len(hs) // 3: len(hs) // 3 + 2])]
        diffs = C.differential(ctx, harness, drv, hs, ref_with_laws, C.default_eq, nontrivial=path_nontrivial)
        ctx.log(f"path: {len(hs)} histories, {ctx.cov['evaluations']} op lines, {len(diffs)} disagreement(s)")
        C.report_diffs(ctx, diffs, harness, drv, ref_with_laws, C.default_eq, "path-functions")
        # idempotence on the implementation's own outputs
        lines, _ = C.flatten([h for h in hs if h[0].startswith("dir ")])
        out, rc, err = C.run_lines(harness, [l for l in lines if l.startswith("simp ")])
        outs = sorted(set(out))
        out2, rc2, err2 = C.run_lines(harness, [f"simp {o}" for o in outs])
        bad = [(a, b) for a, b in zip(outs, out2) if a != b]
        ctx.cov["evaluations"] += len(out) + len(out2)
        ctx.cov["idempotence_checked_on"] = len(outs)
        if rc or rc2 or len(out2) != len(outs):
            ctx.violation("impl-crash in simplifyPath idempotence pass", f"# rc={rc}/{rc2}\n# {err[-600:]}{err2[-600:]}\n")
        for a, b in bad[:2]:
            ctx.violation("simplifyPath is not idempotent", f"simp {a}\n# second application gives {b}\n", signature="law:simp-idempotent")
        ctx.cov["rule"] = (ctx.cov.get("exhaustive_scope", "") + f" + {nrnd} random component-built paths (drive prefixes, double separators, "
                           "multi-dot names, high bytes) with 8 unary ops and both getRelativePath directions each; every output compared with the Lean model "
                           "and with the Python reference (own stack machine + posixpath.basename/splitext/normpath/relpath cross-checks) and the recomposition laws; "
                           "distinct_nontrivial = distinct (first op, output tuple)")
        fs_check(ctx, harness, drv)
    finally:
        try:
            harness.unlink()
        except OSError:
            pass


def is_fs_history(h):
    return any(l.split()[0].startswith("fs") for l in h)


def fs_check(ctx, harness, drv):
    ctx.notes.append("file-system correspondence not run")


def replay(ctx, path):
    h = C.parse_replay(path)
    harness = C.build_harness(ctx, "path", SOURCES)
    C.lake_build([DRIVER])
    diffs = C.differential(ctx, harness, C.driver_path(DRIVER), [h], ref_with_laws, C.default_eq)
    for d in diffs:
        print(d.text())
        ctx.violation(f"replay: {d.kind}", d.text())
    harness.unlink()
