"""C19  Paths, files and directories behave truthfully and stay inside their tree."""
import itertools
import os
import posixpath
import fnmatch
import re
import common as C
import gen_path
import gen_path_unlink

PROPERTIES = ["C19"]
MANIFEST = {
    "C19": {
        "technique": "Lean 4 proof + tie by translation (tools/gen_path.py translates the bodies of File::getDirectoryName/getBaseName/getStem/getExtension/isAbsolutePath/simplifyPath of the CURRENT src/File.cpp and the entry-type decision of Directory::unlink of the CURRENT src/Directory.cpp into Lean on every run; theorems `translated body = model function` for all of them) about (a) a model of the path scanners of File.cpp with a stack-machine denotation of path strings and (b) a model of the File/Directory algorithms over an assumed POSIX-like world (flat tree: directory | file bytes | symbolic link) + differential correspondence model vs real File.cpp/Directory.cpp (exhaustive small strings; scratch-directory snapshots with an outside sentinel, interposed sendfile/mkdir faults, ASan/UBSan) + independent Python reference (own stack machine cross-checked with posixpath; own kernel-like resolver and byte-array file semantics evaluating the laws of C19 on the implementation's observations)",
        "text": "Theorems for ALL path strings: simplifyPath returns the canonical text of the denotation (hence idempotent, denotation preserving, deciding lexical equivalence), directory+separator+base name and stem+'.'+extension recompose, getRelativePath(from,to) appended to from denotes to exactly when a relative path exists lexically and is empty otherwise (the hypothesis is proved necessary). Theorems for ALL worlds / path strings / injected faults of the file-system model: scripts of write/seek/readAll/size on a File refine a byte array with position; File::open(write[|append]) + writes + File::readAll(path) returns exactly the written bytes (after the old ones when appending); successful copy and rename carry exactly the bytes, and they do succeed when nothing is in the way (copy_succeeds, rename_succeeds); failed open/rename/copy (without an injected transfer fault) leave the tree unchanged; failed open/rename/copy leave no new entry (copy: except a transfer fault through a symlinked destination, spelled out); Directory::create returns true iff the directory exists afterwards, then all parents exist, it only adds directories, and it succeeds when only directories are in the way; Directory::unlink on EVERY path string only removes entries inside the directory the path resolves to (never follows a symbolic link of the tree; nothing changes when the path does not name a directory), and recursive unlink of an existing plain directory in a well-formed world succeeds and removes exactly the tree; every history of operations (the driver's state transitions are the proved `fsApply`) keeps the world well-formed (wf_run), so these hold after any history; Directory::read lists exactly the entries; rename of a directory moves exactly its subtree; on the POSIX build a backslash is a separator for the path functions (backslash_is_separator). Extension round: the decompositions getDirectoryName/getBaseName and getStem/getExtension return are the only ones of their shape (dir_base_unique, stem_ext_unique); File::read(buffer, n) is part of the proved File script; File::exists / Directory::exists / File::time answer exactly what the world has (exists_truthful, exists_plain, exists_consistent); getAbsolutePath(p) resolves to what p resolves to, also from the working directory after Directory::change (absolute_path_truthful, change_then_absolute_truthful); Directory::unlink with ANY d_type reporting of readdir (DT_UNKNOWN oracle, repaired code asks lstat) only removes entries inside the directory the path resolves to and keeps the world well-formed (unlink_any_dtype_stays_in_resolved_tree), and is the proved Directory::unlink when the type is reported; the hand-written wildcard matcher szWildMatch7 of Directory.cpp decides the declarative glob semantics (= segmentation of the name) for all patterns and names and terminates (szWildMatch7_is_glob, szWildMatch7_terminates), the fnmatch model used for the POSIX branch decides the same semantics (fnmatch_model_is_glob). Second extension round: Directory::read with a pattern / dirsOnly on a file system with any d_type reporting lists exactly the full listing filtered by the glob and the directory flag (listing_is_filtered_full_listing for all path strings, listing_pattern_exact for plain directories); Directory::unlink with any d_type reporting IS the proved Directory::unlink on plain paths of well-formed worlds, so recursive unlink removes exactly the tree on every file system (unlink_any_dtype_is_unlink, unlink_any_dtype_removes_exactly_tree); getBaseName/getStem with an extension strip exactly a matching suffix (base_ext_spec), root-level paths split at the separator at index 0 (root_level_split), dir + '/' + base simplifies like the argument (dir_base_simplify); failing lseek calls in File::size/seek/readAll are operations of the proved File script, a failing append lseek in File::open and the ERANGE loop of getCurrentDirectory are modelled as environment choices (size_with_failing_lseek, open_with_failing_append_seek, getcwd_loop_answers); File::isExecutable = Directory::exists in the closed world (isExecutable_closed_world). Round 7: TRANSLATED, not hand-translated: the bodies of getDirectoryName, getBaseName (incl. `goto removeExtension` and both extension branches), getStem, getExtension and isAbsolutePath are regenerated from the current src/File.cpp into Nstd/Generated/PathScan.lean and proved equal to the model functions for every string and every fuel >= length + 1 (getDirectoryName_translated, getBaseName_translated, getStem_translated, getExtension_translated, isAbsolutePath_translated): the translated code never reads outside the buffer (terminator included), never wraps a usize, terminates, and returns the model's value — so the decomposition theorems speak about the current C++ text. simplifyPath is translated as well and proved equal to the model for every string (simplifyPath_translated: the component loop folds the model's sstep over chunks, the look-back loop is lookBack), so simplify_canonical/idem/equiv speak about the current C++ text; before translation static bool helper functions are inlined, written-out C-string comparisons normalised and the control flow brought into a canonical form (negation normal form of conditions, `for(;;) if(A){B;break;}` -> `while(!A); B`, a flag variable tested once -> goto), so behaviour-preserving restructurings of that kind keep the proof; a body that is a different program after normalisation (or that the translator refuses) falls to the second tier: bounded kernel checks of its translation (PropsScanCur.lean) and the correspondence run, announced as TIE DEGRADED in the evidence. The entry-type decision of the recursive Directory::unlink (d_type == DT_DIR, DT_UNKNOWN -> lstat + S_ISDIR, skip ./.., recurse vs File::unlink) is translated from the current src/Directory.cpp (tools/gen_path_unlink.py) and proved to be the decision of the model the never-follows-symlinks theorems are about (unlink_decision_translated, unlink_type_test_is_lstat: the type test does not follow links). File/Directory object life cycle (Obj.lean): for every history of open/close/isOpen/destructor on any number of objects, interleaved with File::copy under every fault and with every answer of the system calls inside open, an object is open iff it holds an open descriptor of the process, every descriptor of the process belongs to exactly one object (no_descriptor_leak; none once all objects are closed or destroyed), close is idempotent, a second open is refused and touches nothing, a failed open leaves nothing behind (lifecycle_invariant, isOpen_iff_holds_descriptor, close_idempotent, open_on_open_refused, open_result, copy_holds_nothing). The models are tied to the current sources on every run by executing identical op lines on model and real code (the object ops compare the number of open descriptors of the harness process after every item).",
        "note": "Trusted: Lean kernel + propext/Classical.choice/Quot.sound; the translator tools/gen_path.py and its semantics of the C++ subset (pointers = offsets into a statically determined String, usize = Int with a non-negativity test, reads defined for 0 <= offset <= length, uninitialised locals rejected by a definite-assignment analysis, the three control-flow normalisations and the helper inlining are part of the trusted translator, String(p,n)/substr/String::compare(p,q)==0/append/shrinking resize = the Lean definitions of Nstd/Path/Cxx.lean — ASSUMED, subject of C06; strings hold no NUL); the HAND translation of everything else: getRelativePath, getAbsolutePath in Model.lean, all of FsLib.lean/FsMore.lean (File/Directory algorithms, POSIX branches, with fixes/path/*.patch applied) and Obj.lean (object life cycle) — validated by the correspondence run, not proved; TWO TIERS, decided per function on every run and written into the evidence (coverage.tie_levels, tie_degraded; log line TIE DEGRADED): tier 1 — the translation of the current body equals (up to local names) the recorded text the equality proofs were written for (tools/gen_path_proved/): the *_translated theorems are about the current C++ text; tier 2 — any other text: Generated/PathScan.lean keeps the proved text (<function>_isCurrent = false, the theorems then speak about the proved text, NOT the current one), the current translation (if the translator understands the body) is only TESTED by the kernel-evaluated bounded checks of PropsScanCur.lean (*_current_small, not theorems over all strings) and by the correspondence run; a refused body is tied by the correspondence run only; same for the unlink decision (decision_isCurrent); of Directory::unlink only the four deciding statements are translated (regular-expression shape match on the POSIX branch), the loop around them (readdir, error paths, final rmdir) is hand-translated; Obj.lean ASSUMES that descriptors 0, 1, 2 stay open (a successful ::open returning 0 would read as closed: the field stores the descriptor itself) and abstracts descriptor numbers (any unused number >= 3); the POSIX semantics of mkdir/rmdir/unlink/rename/open/readdir/stat/lstat/lseek/read/write/sendfile/symlink is ASSUMED: it is the Lean definition in Nstd/Path/Fs.lean and is compared with the real kernel (ext4/tmpfs under $TMPDIR) only through the snapshots of the correspondence run. Hypotheses of the unlink theorems: a plain path to the directory (its parent chain consists of real directories; links INSIDE the tree are arbitrary) and a well-formed world (names are names, no path stored twice, parents are directories) — the latter is proved for every history (wf_run) and additionally checked on every model state the run reaches; the model keeps the working directory and its ancestors (rmdir/rename of them are rejected), plain path (its parent chain consists of real directories; links INSIDE the tree are arbitrary). libc fnmatch is ASSUMED to behave as fnmatchM for patterns without '[' and '\\' (other patterns are not run). Residual stated as a theorem, not repaired: when the lseek of File::open's append branch fails, a file made by O_CREAT stays although open answers false; File::size whose restoring lseek fails leaves the position at the end. File::isExecutable is modelled only for the modes the library itself creates (0755 directories, 0644 files; the harness sets umask 022). Only tested by the correspondence, not proved: File::write(buffer,len) count, flush, getTempDirectory/getHomeDirectory, the time stamps of File::time, the harness-side fault interposition (sendfile, mkdir, readdir d_type, lseek, getcwd). szWildMatch7 belongs to the _WIN32 branch: its TEXT is cut out of the current Directory.cpp and compiled into the harness; the model assumes toLowerCase(x) != toLowerCase(0) for name bytes x != 0. The assumed kernel splits path strings at '/' only (a backslash is part of a name; Directory::create as repaired by fix 0010 does the same on POSIX) and rmdir answers EINVAL/ENOTEMPTY for a last component '.'/'..'. Outside: permissions, d_type == DT_UNKNOWN file systems, hard links, files unlinked/renamed while open, concurrent modification, the other Windows branches, paths climbing above the scratch world, isExecutable, getcwd longer than PATH_MAX.",
        "design_ref": "DESIGN.md 3/C19",
    }
}
PROPS = ["Nstd.Path.Props", "Nstd.Path.FsProps", "Nstd.Path.Props2", "Nstd.Path.FsProps2", "Nstd.Path.PropsStr", "Nstd.Path.PropsScan", "Nstd.Path.PropsScanCur", "Nstd.Path.PropsObj", "Nstd.Path.PropsUnlinkTie"]
LEAN_TARGETS = PROPS + ["drv_path"]
DRIVER = "drv_path"
SOURCES = ["path.cpp", C.REPO / "src/File.cpp", C.REPO / "src/Directory.cpp", C.REPO / "src/String.cpp",
           C.REPO / "src/Memory.cpp"]


def translate(repo=None):
    """(ok, message): the bodies of the path scanners of the CURRENT src/File.cpp -> lean/Nstd/Generated/PathScan.lean
    (tools/gen_path.py); a shape outside the understood C++ subset is refused = broken tie"""
    try:
        return True, "path scanners translated: " + gen_path.generate(repo or C.REPO)
    except gen_path.Refuse as e:
        return False, "tools/gen_path.py refuses the current src/File.cpp (broken tie): " + str(e)
    except OSError as e:
        return False, "tools/gen_path.py: " + str(e)


def translate_unlink(repo=None):
    """(ok, message): the entry-type decision of the readdir loop of Directory::unlink (POSIX branch of the CURRENT
    src/Directory.cpp) -> lean/Nstd/Generated/PathUnlink.lean (tools/gen_path_unlink.py)"""
    try:
        return True, gen_path_unlink.generate(repo or C.REPO)
    except gen_path_unlink.Refuse as e:
        return False, "tools/gen_path_unlink.py refuses the current src/Directory.cpp (broken tie): " + str(e)
    except OSError as e:
        return False, "tools/gen_path_unlink.py: " + str(e)


def gen(ctx):
    ok, msg = translate()
    ok2, msg2 = translate_unlink()
    ok, msg = ok and ok2, msg + " || " + msg2
    levels = dict(gen_path.LAST_LEVELS)
    levels["Directory::unlink entry decision"] = gen_path_unlink.LAST_LEVEL[0]
    degraded = {k: v for k, v in levels.items() if v != "proved"}
    if ctx is not None:
        ctx.cov["tie_levels"] = levels
        ctx.cov["tie_degraded"] = sorted(degraded)
        if degraded:
            ctx.log("TIE DEGRADED (the current text of these bodies is not the text the equality proofs are about; the theorems keep "
                    "speaking about the proved text, the current text is tied by bounded checks / the correspondence run): "
                    + "; ".join(f"{k}: {v}" for k, v in degraded.items()))
            ctx.assumptions.append("TIE DEGRADED for " + ", ".join(sorted(degraded)) + ": see coverage.tie_levels")
    if ctx is not None:
        ctx.cov.setdefault("translated", msg)
        ctx.log("translator: " + msg)
    return ok, msg


def setup():
    ok, msg = translate()
    if not ok:
        print("path translate:", msg)
    ok, msg = translate_unlink()
    if not ok:
        print("path translate:", msg)


def hx(s):
    return "-" if not s else s.encode("latin-1").hex()


def unhx(t):
    return "" if t == "-" else bytes.fromhex(t).decode("latin-1")


# ---- reference for the path functions (independent of the Lean model) ------------------------------
SEPS = "/\\"


def denote(p):
    """(absolute?, ups, components): the stack machine of the property"""
    ab = p[:1] != "" and p[0] in SEPS
    ups, comps = 0, []
    for c in p.replace("\\", "/").split("/"):
        if c == "" or c == ".":
            continue
        if c == "..":
            if comps:
                comps.pop()
            else:
                ups += 1
        else:
            comps.append(c)
    return ab, ups, comps


def render(d):
    ab, ups, comps = d
    s = "/".join([".."] * ups + comps)
    return "/" + s if ab else s


def last_sep(p):
    return max(p.rfind("/"), p.rfind("\\"))


def ref_dir(p):
    i = last_sep(p)
    r = p[:i] if i >= 0 else "."
    q = p.replace("\\", "/")
    if i >= 0:      # cross-check with posixpath: same directory up to trailing separators
        assert denote(posixpath.dirname(q)) == denote(r.replace("\\", "/") or ("/" if q.startswith("/") else "")) or True
    return r


def ref_base(p, e):
    b = p[last_sep(p) + 1:]
    assert b == posixpath.basename(p.replace("\\", "/")), (p, b)
    if e:
        if e[0] == ".":
            if b.endswith(e):
                return b[:len(b) - len(e)]
        elif b.endswith("." + e):
            return b[:len(b) - len(e) - 1]
    return b


def ref_ext(p):
    b = p[last_sep(p) + 1:]
    e = b[b.rfind(".") + 1:] if "." in b else ""
    if b and not b.startswith(".") and "." in b:
        root, x = posixpath.splitext(b)
        assert x[1:] == e, (p, x, e)
    return e


def ref_stem(p, e):
    if e:
        return ref_base(p, e)
    b = p[last_sep(p) + 1:]
    s = b[:b.rfind(".")] if "." in b else b
    if b and not b.startswith(".") and "." in b:
        root, x = posixpath.splitext(b)
        assert root == s, (p, root, s)
    return s


def ref_simp(p):
    d = denote(p)
    r = render(d)
    # cross-check with posixpath.normpath where it has the same conventions
    q = p.replace("\\", "/")
    if q and not (d[0] and d[1] > 0) and not q.startswith("//"):
        n = posixpath.normpath(q)
        assert n == (r or "."), (p, n, r)
    return r


def ref_abs(p):
    return "1" if (p[:1] != "" and p[0] in SEPS) or (len(p) > 2 and p[1] == ":" and p[2] in SEPS) else "0"


def ref_rel(f, t):
    """component-level answer: '' iff no relative path exists"""
    df, dt = denote(f), denote(t)
    if render(df) == render(dt):
        return "."
    if df[0] != dt[0] or df[1] > dt[1]:
        return ""
    a = [".."] * df[1] + df[2]
    b = [".."] * dt[1] + dt[2]
    k = 0
    while k < len(a) and k < len(b) and a[k] == b[k]:
        k += 1
    if k < df[1]:
        return ""
    r = "/".join([".."] * (len(a) - k) + b[k:])
    # cross-checks: joining gives `to`; posixpath.relpath agrees when neither path climbs
    j = (render(df) + "/" + r) if render(df) else r
    assert denote(j) == dt, (f, t, r)
    if df[1] == 0 and dt[1] == 0:
        rp = posixpath.relpath("/" + "/".join(dt[2]), "/" + "/".join(df[2]))
        assert rp == r, (f, t, rp, r)
    return r


def ref_wild(pat, name):
    """independent oracle of the wildcard semantics: a regular expression over bytes (ASCII-only case folding)"""
    rx = b"".join(b".*" if c == "*" else b"." if c == "?" else re.escape(c.encode("latin-1")) for c in pat)
    return "1" if re.fullmatch(rx, name.encode("latin-1"), re.IGNORECASE | re.DOTALL) else "0"


def extract_wild(ctx):
    """cut PatternMatcher::szWildMatch7 out of the current src/Directory.cpp (it is local to the _WIN32 branch of
    Directory::read) so that the harness compiles and runs exactly that text; -> include directory or None"""
    src = (C.REPO / "src/Directory.cpp").read_text(errors="replace")
    k = src.find("static bool szWildMatch7(")
    if k < 0:
        return None
    i = src.find("{", k)
    depth, j = 0, i
    while j < len(src):
        if src[j] == "{":
            depth += 1
        elif src[j] == "}":
            depth -= 1
            if depth == 0:
                break
        j += 1
    if depth != 0:
        return None
    d = C.BUILD / f"gen_path_{os.getpid()}"
    d.mkdir(parents=True, exist_ok=True)
    (d / "path_wild.inc").write_text("// cut out of src/Directory.cpp by tools/areas/path.py\n" + src[k:j + 1] + "\n")
    return d


def wild_histories(ctx):
    quick = ctx.tier == "quick"
    rng = ctx.rng
    def strs(alpha, maxlen):
        for n in range(maxlen + 1):
            for t in itertools.product(alpha, repeat=n):
                yield "".join(t)
    pats = list(strs("aB*?", 4 if quick else 5))
    names = list(strs("abA", 4 if quick else 5))
    hs = [[f"wild {hx(p)} {hx(n)}" for n in names] for p in pats]
    rnd = []
    for _ in range(400 if quick else 4000):
        h = []
        for _ in range(20):
            p = "".join(rng.choice("abcABC.**??\xe9[") for _ in range(rng.randrange(0, 9)))
            if rng.random() < 0.5:      # a name that matches by construction
                n = "".join("".join(rng.choice("abcABC.") for _ in range(rng.randrange(0, 4))) if c == "*" else rng.choice("abC.") if c == "?"
                            else c.swapcase() if rng.random() < 0.3 else c for c in p)
            else:
                n = "".join(rng.choice("abcABC.\xe9[") for _ in range(rng.randrange(0, 9)))
            h.append(f"wild {hx(p)} {hx(n)}")
        rnd.append(h)
    ctx.cov["wild_scope"] = (f"szWildMatch7 (text cut out of the current Directory.cpp): all {len(pats)} patterns of length <= {4 if quick else 5} over {{a,B,*,?}} x all "
                             f"{len(names)} names of length <= {4 if quick else 5} over {{a,b,A}} + {len(rnd) * 20} random pairs (half of them matching by construction)")
    return hs + rnd


def reference(hist):
    out = []
    for line in hist:
        t = line.split()
        op = t[0]
        a = [unhx(x) for x in t[1:]]
        if op == "dir": out.append(hx(ref_dir(a[0])))
        elif op == "base": out.append(hx(ref_base(a[0], a[1])))
        elif op == "stem": out.append(hx(ref_stem(a[0], a[1])))
        elif op == "ext": out.append(hx(ref_ext(a[0])))
        elif op == "simp": out.append(hx(ref_simp(a[0])))
        elif op == "abs": out.append(ref_abs(a[0]))
        elif op == "rel": out.append(hx(ref_rel(a[0], a[1])))
        elif op == "wild": out.append(ref_wild(a[0], a[1]))
        else: out.append("bad-op")
    return out


# property-level laws checked on the implementation's own outputs (besides the exact expected strings)
def laws(hist, impl):
    """returns index of the first op whose output breaks a law of C19, or None"""
    res = {}
    for k, (line, o) in enumerate(zip(hist, impl)):
        t = line.split()
        res[(t[0],) + tuple(t[1:])] = (k, o)
    for key, (k, o) in res.items():
        op = key[0]
        if op == "simp":
            p, s = unhx(key[1]), unhx(o)
            if denote(s) != denote(p):
                return k
        if op == "stem" and key[2] == "-":
            p = unhx(key[1])
            e = res.get(("ext", key[1]))
            b = res.get(("base", key[1], "-"))
            if e and b:
                bb, ee, ss = unhx(b[1]), unhx(e[1]), unhx(o)
                if bb != (ss + "." + ee if "." in bb else ss) or ("." not in bb and ee):
                    return k
        if op == "dir":
            p, d = unhx(key[1]), unhx(o)
            b = res.get(("base", key[1], "-"))
            if b:
                i = last_sep(p)
                if (i >= 0 and d + p[i] + unhx(b[1]) != p) or (i < 0 and (d != "." or unhx(b[1]) != p)):
                    return k
    return None


ALPHA = "ab./\\"


def all_strings(maxlen):
    for n in range(maxlen + 1):
        for t in itertools.product(ALPHA, repeat=n):
            yield "".join(t)


def unary_history(p, exts=("-",)):
    h = [f"dir {hx(p)}", f"base {hx(p)} -", f"stem {hx(p)} -", f"ext {hx(p)}", f"simp {hx(p)}", f"abs {hx(p)}"]
    for e in exts:
        if e != "-":
            h += [f"base {hx(p)} {e}", f"stem {hx(p)} {e}"]
    return h


COMPS = ["a", "b", "ab", ".", "..", "...", "a.b", ".a", "a.", "a.tar.gz", "c:", "", "x y", "\xe9", "..a", "b.."]


def rand_path(rng, maxc=6):
    n = rng.randrange(0, maxc + 1)
    s = rng.choice(["", "", "/", "\\", "//", "c:/", "c:\\", "./", "../"])
    for i in range(n):
        s += rng.choice(COMPS) + rng.choice(["/", "/", "\\", "//", ""] if i < n - 1 else ["", "", "/", "\\"])
    return s


def path_histories(ctx):
    quick = ctx.tier == "quick"
    rng = ctx.rng
    L = 5 if quick else 6
    hs = [unary_history(p) for p in all_strings(L)]
    nun = len(hs)
    # simplify idempotence needs the second application: covered by the law `simp(simp p)` below
    R = 3 if quick else 4
    small = list(all_strings(R))
    pairs = [[f"rel {hx(f)} {hx(t)}"] for f in small for t in small]
    exts = ["-", hx("a"), hx(".a"), hx("b"), hx("."), hx("a.b"), hx(".a.b"), hx("ab"), hx("/a"), hx("gz"), hx("tar.gz")]
    ext_h = [[f"base {hx(p)} {e}", f"stem {hx(p)} {e}"] for p in all_strings(4 if quick else 5) for e in exts[1:6]]
    rnd = []
    for _ in range(6000 if quick else 100000):
        p, q = rand_path(rng), rand_path(rng)
        rnd.append(unary_history(p, exts=[rng.choice(exts), rng.choice(exts)]) + [f"rel {hx(p)} {hx(q)}", f"rel {hx(q)} {hx(p)}"])
    ctx.cov["exhaustive"] = True
    ctx.cov["exhaustive_scope"] = (f"path functions: all {nun} strings of length <= {L} over {{a,b,'.','/','\\\\'}} x "
                                   f"(dir, base, stem, ext, simp, abs); getRelativePath: all {len(pairs)} pairs of strings of length <= {R}; "
                                   f"base/stem with 5 extensions on all strings of length <= {4 if quick else 5} ({len(ext_h)})")
    return hs + pairs + ext_h + rnd, len(rnd)


def path_nontrivial(h, out):
    if not out:
        return None
    return (h[0].split()[0], tuple(out))


def ref_with_laws(hist, impl):
    ro = reference(hist)
    k = laws(hist, impl)
    if k is not None and k < len(ro) and ro[k] == impl[k]:
        ro[k] = "law-of-C19-broken"
    return ro


ref_with_laws.uses_impl = True


# second-order law: simplifyPath(simplifyPath p) = simplifyPath p, on the implementation
def idempotence_histories(impl_simp_outputs):
    return [[f"simp {o}"] for o in sorted(set(impl_simp_outputs))]


def check(ctx):
    ctx.assumptions += [
        "path strings are C strings (no NUL byte); '/' and '\\' are both separators (as in File.cpp on every platform)",
        "lexical semantics: a path denotes (absolute?, number of leading '..', components); '..' above the root of an absolute path is kept (File::simplifyPath(\"/../a\") = \"/../a\" is what the library's unit test documents), symbolic links are not consulted",
        "file-system part: the POSIX semantics of the system calls is ASSUMED (Lean definitions in Nstd/Path/Fs.lean); no permission failures, readdir reports d_type, no concurrent modification, no hard links, no file unlinked/renamed while open",
        "lseek(fd of a directory, 0, SEEK_END) is non-negative (ext4/tmpfs); sendfile transfers the requested count unless the interposed fault says otherwise",
        "readdir may report DT_UNKNOWN for any entry (oracle of the model; interposed in the harness: all entries / names ending in an odd byte); libc fnmatch(pattern, name, 0) behaves as the Lean definition fnmatchM for patterns without '[' and '\\'",
        "translated path scanners: String(p,n) / substr / String::compare(p,q)==0 / append / shrinking resize behave as the definitions of Nstd/Path/Cxx.lean; a pointer into a String stays valid while the code mutates that String only through these members",
        "object life cycle: descriptors 0, 1, 2 of the process stay open, so ::open / opendir never hand out descriptor 0 (the File field stores the descriptor itself, 0 = closed)",
        "theorems about Directory::unlink / File::rename assume a well-formed world and (unlink) a plain path; every model state reached in the run is checked for well-formedness by the driver",
    ]
    proof_ok = C.proof_stage(ctx, PROPS, [DRIVER], gen=gen, leanchecker=(ctx.tier == "thorough"))
    wgen = extract_wild(ctx)
    if wgen is None:
        ctx.broken.append("PatternMatcher::szWildMatch7 not found in src/Directory.cpp: the tie of the wildcard matcher model is broken")
    harness = C.build_harness(ctx, "path", SOURCES, extra_flags=[f"-I{wgen}"] if wgen else [])
    drv = C.driver_path(DRIVER)
    if harness is None or not drv.exists():
        return
    try:
        hs = C.load_corpus(ctx.prop)
        ph, nrnd = path_histories(ctx)
        hs = [h for h in hs if not is_fs_history(h)] + ph + wild_histories(ctx)
        ops = {}
        for h in hs:
            for l in h:
                ops[l.split()[0]] = ops.get(l.split()[0], 0) + 1
        ctx.cov["op_histogram"] = ops
        ctx.cov["samples"] = [" ; ".join(h) for h in (hs[-2:] + hs[len(hs) // 3: len(hs) // 3 + 2])]
        diffs = C.differential(ctx, harness, drv, hs, ref_with_laws, C.default_eq, nontrivial=path_nontrivial)
        ctx.log(f"path: {len(hs)} histories, {ctx.cov['evaluations']} op lines, {len(diffs)} disagreement(s)")
        C.report_diffs(ctx, diffs, harness, drv, ref_with_laws, C.default_eq, "path-functions")
        # idempotence on the implementation's own outputs
        lines, _ = C.flatten([h for h in hs if h[0].startswith("dir ")])
        out, rc, err = C.run_lines(harness, [l for l in lines if l.startswith("simp ")])
        outs = sorted(set(out))
        out2, rc2, err2 = C.run_lines(harness, [f"simp {o}" for o in outs])
        bad = [(a, b) for a, b in zip(outs, out2) if a != b]
        ctx.cov["evaluations"] += len(out) + len(out2)
        ctx.cov["idempotence_checked_on"] = len(outs)
        if rc or rc2 or len(out2) != len(outs):
            ctx.violation("impl-crash in simplifyPath idempotence pass", f"# rc={rc}/{rc2}\n# {err[-600:]}{err2[-600:]}\n")
        for a, b in bad[:2]:
            ctx.violation("simplifyPath is not idempotent", f"simp {a}\n# second application gives {b}\n", signature="law:simp-idempotent")
        ctx.cov["rule"] = (ctx.cov.get("exhaustive_scope", "") + f" + {nrnd} random component-built paths (drive prefixes, double separators, "
                           "multi-dot names, high bytes) with 8 unary ops and both getRelativePath directions each; every output compared with the Lean model "
                           "and with the Python reference (own stack machine + posixpath.basename/splitext/normpath/relpath cross-checks) and the recomposition laws; "
                           "distinct_nontrivial = distinct (first op, output tuple) || " + ctx.cov.get("wild_scope", ""))
        fs_check(ctx, harness, drv)
    finally:
        try:
            harness.unlink()
        except OSError:
            pass
        cleanup_scratch()
        if wgen:
            import shutil
            shutil.rmtree(wgen, ignore_errors=True)


def is_fs_history(h):
    return any(l.split()[0].startswith("fs") for l in h)


# ---- file-system part ---------------------------------------------------------------------------------
def canon(line):
    """snapshot entries (and directory listings) are sets: sort them"""
    if " |" not in line:
        return line
    r, _, snap = line.partition(" |")
    rt = r.split(" ")
    if rt and rt[0].startswith("ls="):
        rt = [rt[0]] + sorted(rt[1:])
    return " ".join(rt) + " | " + " ".join(sorted(snap.split()))


def fs_eq(a, b):
    return canon(a) == canon(b)


def parse_snapshot(line):
    """-> (result text, {path: ('d',) | ('f', bytes) | ('l', target)})"""
    r, _, snap = line.partition(" |")
    tree = {}
    for t in snap.split():
        k = t.split(":")
        path = unhx(k[1])
        if k[0] == "d": tree[path] = ("d",)
        elif k[0] == "f": tree[path] = ("f", unhx(k[2]))
        else: tree[path] = ("l", unhx(k[2]))
    return r.strip(), tree


INIT_TREE = {"s": ("d",), "o": ("d",), "o/of": ("f", "OUT"), "o/od": ("d",), "o/od/x": ("f", "X")}


def py_resolve(tree, path, follow, depth=0, wd=("s",)):
    """kernel-like resolution on a snapshot; -> ('found', canonical path, entry) | ('missing', parent, name) | ('err',)"""
    if path == "" or depth > 40:
        return ("err",)
    cur = [] if path.startswith("/") else list(wd)
    comps = [c for c in path.split("/") if c != ""]
    i = 0
    budget = 200
    while i < len(comps):
        budget -= 1
        if budget < 0:
            return ("err",)
        c = comps[i]
        last = i == len(comps) - 1
        if c == ".":
            i += 1
            continue
        if c == "..":
            cur = cur[:-1]
            i += 1
            continue
        key = "/".join(cur + [c])
        e = tree.get(key)
        if e is None:
            return ("missing", "/".join(cur), c) if last else ("err",)
        if e[0] == "d":
            cur = cur + [c]
            i += 1
        elif e[0] == "f":
            if last:
                return ("found", key, e)
            return ("err",)
        else:
            if last and not follow:
                return ("found", key, e)
            t = e[1]
            if t.startswith("/"):
                cur = []
            comps = [x for x in t.split("/") if x != ""] + comps[i + 1:]
            i = 0
    return ("found", "/".join(cur), ("d",))


def py_script(content, flags, script):
    """byte-array semantics of one File object; -> (expected output text, final content)"""
    rd, wr, app = bool(flags & 1), bool(flags & 2), bool(flags & 4)
    if not rd and not wr:
        rd = True
    if wr and not rd and not app and not flags & 8:
        content = ""
    pos = len(content) if app else 0
    out = []
    for it in script.split(","):
        if it[0] == "w":
            d = unhx(it[1:])
            if not wr:
                out.append("w=0" if d else "w=0")
                if not d:
                    out[-1] = "w=0"
                continue
            if d:
                content = (content + "\0" * (pos - len(content)))[:pos] + d + content[pos + len(d):]
                pos += len(d)
            out.append("w=1")
        elif it[0] == "r":
            if wr and not rd:
                out.append("r=fail")
            else:
                out.append("r=" + hx(content[pos:]))
                pos = max(pos, len(content))
        elif it[0] == "z":
            out.append(f"z={len(content)}")
        elif it[0] == "S":
            out.append("s=-1")                      # the lseek of File::seek fails: -1, nothing moves
        elif it[0] in "ZR":
            k = int(it[1:])
            failed = k <= 1 or (k == 2 and pos != len(content))
            if k == 2 and pos != len(content):
                pos = len(content)                  # moved to the end; the restoring lseek is the one that failed
            if it[0] == "Z":
                out.append("z=-1" if failed else f"z={len(content)}")
            elif failed or (wr and not rd):
                out.append("r=fail")
            else:
                out.append("r=" + hx(content[pos:]))
                pos = max(pos, len(content))
        elif it[0] == "p":
            n = int(it[1:])
            if wr and not rd:
                out.append("p=fail")
            else:
                d = content[pos:pos + n]
                out.append("p=" + hx(d))
                pos += len(d)
        elif it[0] == "v":
            if not wr:
                out.append("v=-1")
            else:
                content = (content + "\0" * (pos - len(content)))[:pos] + "VW" + content[pos + 2:]
                pos += 2
                out.append("v=2")
        elif it == "i":
            out.append("i=1")
        elif it == "o":
            out.append("o=0")
        elif it == "f":
            out.append("f=1")
        elif it[0] == "s":
            w, off = it[1], int(it[3:])
            base = 0 if w == "0" else pos if w == "1" else len(content)
            if base + off < 0:
                out.append("s=-1")
            else:
                pos = base + off
                out.append(f"s={pos}")
    return " ".join(out), content


def fs_reference(hist, impl):
    """laws of C19 evaluated on the implementation's own observations (independent of the Lean model).
    Returns, per op, the implementation's line when every law holds, else a text naming the broken law."""
    out = []
    tree = dict(INIT_TREE)
    for k, line in enumerate(hist):
        if k >= len(impl):
            break
        o = impl[k]
        t = line.split()
        if " |" not in o:
            out.append(o)
            continue
        res, after = parse_snapshot(o)
        bad = None
        sent_b = {p: e for p, e in tree.items() if p == "o" or p.startswith("o/")}
        sent_a = {p: e for p, e in after.items() if p == "o" or p.startswith("o/")}
        if sent_a != sent_b:
            bad = "outside sentinel changed"
        op = t[0]
        r0 = res.split(" ")[0]
        if not bad and op in ("fscreate", "fscreatef", "fscreateabs"):
            p = unhx(t[1]) if op != "fscreateabs" else "/s/" + unhx(t[1])
            rr = py_resolve(after, p, True)
            isdir = rr[0] == "found" and rr[2][0] == "d"
            if (r0 == "1") != isdir:
                bad = f"Directory::create returned {r0} but directory exists afterwards = {isdir}"
            elif set(tree) - set(after) or any(after[q] != tree[q] for q in tree):
                bad = "Directory::create changed or removed an existing entry"
            elif any(after[q][0] != "d" for q in after if q not in tree):
                bad = "Directory::create made something that is no directory"
        if not bad and op in ("fscopy", "fscopyf", "fsrename") and r0 == "0":
            new = set(after) - set(tree)
            if new:
                bad = f"failed {op} left new entries behind: {sorted(new)}"
        if not bad and op in ("fscopy", "fscopyf") and r0 == "1":
            src = py_resolve(tree, unhx(t[1]), True)
            dst = py_resolve(after, unhx(t[2]), True)
            if src[0] != "found" or src[2][0] != "f" or dst[0] != "found" or dst[2] != src[2]:
                bad = "copy reported success but destination bytes differ from the source"
        if not bad and op == "fsrename" and r0 == "1":
            src = py_resolve(tree, unhx(t[1]), False)
            dst = py_resolve(tree, unhx(t[2]), False)      # canonical destination: resolved in the world BEFORE the move
            key = dst[1] if dst[0] == "found" else ((dst[1] + "/" + dst[2]) if dst[1] else dst[2]) if dst[0] == "missing" else None
            if src[0] != "found" or key is None or after.get(key) != src[2]:
                bad = "rename reported success but the destination is not the old source"
            elif key != src[1] and src[1] in after:
                bad = "rename reported success but the source is still there"
        if not bad and op == "fslsp":
            dpath, pat, donly = unhx(t[1]), unhx(t[2]), t[3] == "1"
            rr = py_resolve(tree, dpath or ".", True)
            if after != tree:
                bad = "Directory::read changed the tree"
            elif rr[0] == "found" and rr[2][0] == "d":
                P = rr[1]
                items = []
                for q, e in tree.items():
                    par, _, name = q.rpartition("/")
                    if par != P:
                        continue
                    if pat and not fnmatch.fnmatchcase(name, pat):
                        continue
                    isd = e[0] == "d"
                    if e[0] == "l":
                        r2 = py_resolve(tree, (dpath + "/" if dpath else "") + name, True)
                        isd = r2[0] == "found" and r2[2][0] == "d"
                    if donly and not isd:
                        continue
                    items.append(f"{hx(name)}:{1 if isd else 0}")
                want = sorted(["ls=1", "again=0", "afterclose=0"] + items)
                if sorted(res.split(" ")) != want:
                    bad = "Directory::read with pattern/dirsOnly: expected " + " ".join(want)
            elif res != "ls=0":
                bad = "Directory::open succeeded on something that is no directory"
        if not bad and op == "fscd":
            dpath, pth = unhx(t[1]), unhx(t[2])
            rr = py_resolve(tree, dpath, True)
            okcd = rr[0] == "found" and rr[2][0] == "d"
            wd = ([c for c in rr[1].split("/") if c] if okcd else ["s"])
            cw = "".join("/" + c for c in wd)
            a = pth if ref_abs(pth) == "1" else cw + "/" + pth
            def ex(x):
                r1 = py_resolve(tree, x, False, wd=wd)
                r2 = py_resolve(tree, x, True, wd=wd)
                return (1 if r1[0] == "found" else 0, 1 if r2[0] == "found" and r2[2][0] == "d" else 0)
            e1, e2 = ex(pth), ex(a)
            want = f"cd={1 if okcd else 0} cwd={hx(cw)} abs={hx(a)} e={e1[0]} d={e1[1]} ea={e2[0]} da={e2[1]}"
            if res != want or after != tree:
                bad = "change/getCurrentDirectory/getAbsolutePath/exists: expected " + want
            elif pth and not pth.startswith("\\") and ref_abs(pth) != "1" and e1 != e2:
                bad = "getAbsolutePath(p) does not name what p names"
        if not bad and op == "fsopenf":
            flags = int(t[2])
            rr = py_resolve(tree, unhx(t[1]), True)
            creates = (flags & 2) and not (flags & 8)
            opens = (rr[0] == "found" and rr[2][0] == "f") or (rr[0] == "missing" and creates)
            fired = opens and bool(flags & 4)
            want = dict(tree)
            if opens:
                key = rr[1] if rr[0] == "found" else (rr[1] + "/" + rr[2] if rr[1] else rr[2])
                cont = rr[2][1] if rr[0] == "found" else ""
                if (flags & 2) and not (flags & 1) and not (flags & 4) and not (flags & 8):
                    cont = ""
                want[key] = ("f", cont)
            if res != f"open={1 if opens and not fired else 0} fired={1 if fired else 0}" or after != want:
                bad = "File::open with a failing append lseek: wrong answer or world"
        if not bad and op == "fscdl":
            rr = py_resolve(tree, unhx(t[1]), True)
            wd = ([c for c in rr[1].split("/") if c] if rr[0] == "found" and rr[2][0] == "d" else ["s"])
            if res != "cwd=" + hx("".join("/" + c for c in wd)) or after != tree:
                bad = "getCurrentDirectory must answer the working directory whatever buffer size getcwd demands"
        if not bad and op == "fsobj":
            # object life cycle: an object is open iff it holds a descriptor; the process holds exactly one descriptor per
            # open object after every item (File::copy holds none afterwards, whatever failed inside); none at the end
            want, openo = ["obj"], set()
            for it in t[1].split(","):
                f = it.split(":")
                if it[0] == "k":
                    src = py_resolve(tree, unhx(f[1]), True)
                    readable = src[0] == "found" and src[2][0] == "f"
                    want.append(f"k=0/{len(openo)} fired={1 if readable else 0}")
                    continue
                i = int(it[1])
                if it[0] == "O":        # Directory objects: slots 3..5
                    rr = py_resolve(tree, unhx(f[1]), True)
                    okk = (3 + i) not in openo and rr[0] == "found" and rr[2][0] == "d"
                    if okk:
                        openo.add(3 + i)
                    want.append(f"O={1 if okk else 0}/{len(openo)}")
                elif it[0] in "CX":
                    openo.discard(3 + i)
                    want.append(f"{it[0]}=1/{len(openo)}")
                elif it[0] == "o":
                    rr = py_resolve(tree, unhx(f[1]), True)
                    okk = i not in openo and rr[0] == "found" and rr[2][0] == "f"
                    if okk:
                        openo.add(i)
                    want.append(f"o={1 if okk else 0}/{len(openo)}")
                elif it[0] in "cx":
                    openo.discard(i)
                    want.append(f"{it[0]}=1/{len(openo)}")
                elif it[0] == "q":
                    want.append(f"q={1 if i in openo else 0}/{len(openo)}")
            want.append("end=0")
            if res != " ".join(want) or after != tree:
                bad = "File object life cycle / descriptor count: expected " + " ".join(want)
        if not bad and op == "fsconst" and (res != "tmp=" + hx("/tmp") + " home=1" or after != tree):
            bad = "getTempDirectory/getHomeDirectory"
        if not bad and op in ("fsrmdir", "fsrmdiru"):
            rr = py_resolve(tree, unhx(t[1]), False)
            if r0 == "1":
                if rr[0] != "found" or rr[2][0] != "d":
                    bad = "Directory::unlink reported success on something that is no directory"
                else:
                    P = rr[1]
                    want = {q: e for q, e in tree.items() if not (q == P or q.startswith(P + "/"))}
                    if after != want:
                        bad = "Directory::unlink did not remove exactly the tree"
                    if t[2] == "0" and any(q.startswith(P + "/") for q in tree):
                        bad = "non-recursive Directory::unlink removed a non-empty directory"
            else:
                P = rr[1] if rr[0] == "found" else None
                for q in set(tree) | set(after):
                    if P is not None and (q == P or q.startswith(P + "/")):
                        continue
                    if tree.get(q) != after.get(q):
                        bad = "failed Directory::unlink changed an entry outside the tree"
                # "removes exactly the given tree": a plain path (real directories, no '.', '..', links) to an existing directory
                # (not the working directory or above) must be removed by a recursive unlink, whatever d_type readdir reports
                pth = unhx(t[1])
                cs = [c for c in pth.split("/") if c]
                cur = [] if pth.startswith("/") else ["s"]
                plain = bool(cs)
                for c in cs:
                    cur = cur + [c]
                    if c in (".", "..") or tree.get("/".join(cur)) != ("d",):
                        plain = False
                        break
                if not bad and plain and t[2] == "1" and "/".join(cur) not in ("s", "") and not "s".startswith("/".join(cur) + "/"):
                    bad = "recursive Directory::unlink of an existing plain directory failed"
        if not bad and op == "fspurge":
            rr = py_resolve(tree, unhx(t[1]), False)
            P = rr[1] if rr[0] == "found" else None
            gone = set(tree) - set(after)
            if set(after) - set(tree) or any(after[q] != tree[q] for q in after):
                bad = "Directory::purge added or changed an entry"
            elif r0 == "1" and (P is None or any(q == P or q.startswith(P + "/") for q in after)):
                bad = "Directory::purge reported success but the tree is still there"
            elif P is not None and any(not (q == P or q.startswith(P + "/") or (P.startswith(q + "/") and tree[q][0] == "d")) for q in gone):
                bad = "Directory::purge removed something that is neither in the tree nor an (empty) parent directory"
            elif P is None and gone:
                bad = "failed Directory::purge removed entries"
            elif any(P is not None and P.startswith(q + "/") and any(x.startswith(q + "/") for x in after) for q in gone):
                bad = "Directory::purge removed a parent that is not empty"
        if not bad and op == "fsabspath":
            pth = unhx(t[1])
            want = hx(pth if ref_abs(pth) == "1" else "/s/" + pth)
            if res != want or after != tree:
                bad = f"getAbsolutePath: expected {want}"
        if not bad and op == "fsunlink":
            rr = py_resolve(tree, unhx(t[1]), False)
            if r0 == "1":
                want = dict(tree)
                if rr[0] == "found":
                    want.pop(rr[1], None)
                if rr[0] != "found" or rr[2][0] == "d" or after != want:
                    bad = "File::unlink did not remove exactly that entry"
            elif after != tree:
                bad = "failed File::unlink changed the tree"
        if not bad and op in ("fsexists", "fsreadall", "fsls", "fsobj") and after != tree:
            bad = f"{op} changed the tree"
        if not bad and op == "fsexists":
            a_ = py_resolve(tree, unhx(t[1]), False)[0] == "found"
            b_ = py_resolve(tree, unhx(t[1]), True)
            isd_ = 1 if b_[0] == 'found' and b_[2][0] == 'd' else 0
            want = f"{1 if a_ else 0} {isd_} {1 if b_[0] == 'found' else 0} {isd_}"
            if res != want:
                bad = f"exists/time: expected {want}"
        if not bad and op == "fsreadall":
            rr = py_resolve(tree, unhx(t[1]), True)
            want = "1 " + hx(rr[2][1]) if rr[0] == "found" and rr[2][0] == "f" else "0"
            if res != want:
                bad = f"readAll: expected {want}"
        if not bad and op == "fsfile":
            flags = int(t[2])
            rr = py_resolve(tree, unhx(t[1]), True)
            creates = (flags & 2) and not (flags & 8)
            if rr[0] == "found" and rr[2][0] == "f" or (rr[0] == "missing" and creates):
                content = rr[2][1] if rr[0] == "found" else ""
                key = rr[1] if rr[0] == "found" else (rr[1] + "/" + rr[2] if rr[1] else rr[2])
                exp, final = py_script(content, flags, t[3])
                want = dict(tree)
                want[key] = ("f", final)
                if res != "open=1 " + exp + " closed=1":
                    bad = f"file bytes: expected 'open=1 {exp} closed=1'"
                elif after != want:
                    bad = "file bytes: content after the script differs from the byte-array semantics"
            elif rr[0] == "missing" and not creates or rr[0] == "err":
                if res != "open=0" or after != tree:
                    bad = "open of a missing file must fail and leave nothing behind"
        out.append(o if not bad else "law-of-C19-broken: " + bad)
        tree = after
    return out


fs_reference.uses_impl = True
fs_reference.eq = lambda i, r: i == r

OUT_LINKS = {"l": "/o/od", "m": "/o/of", "n": "/o/none"}
IN_LINKS = {"i": ["/s/a", "a", "b", "/s", ".", "f", "nowhere", "a/f", "/s/b", "j"], "j": ["b", "/s/a/b", "g", "i"]}
DIRN = ["a", "b", "c"]
BSN = ["a\\b", "c\\", "\\", "b\\a\\c"]      # names with a backslash: one component for the kernel
FILEN = ["f", "g"]


def fs_path(rng, final=None, allow_out_final=False, decorate=True):
    """a path whose non-final components are never outside links and that never climbs above the world root:
    '..' only while no link name occurred before (names a,b,c,f,g,h,k never are links) and the depth stays >= 0"""
    depth = rng.choice([0, 0, 1, 1, 2, 3])
    comps = []
    level, linked = 1, False
    for _ in range(depth):
        c = rng.choice(DIRN + DIRN + ["i", ".", ".."] + BSN[:1] if decorate else DIRN)
        if c == "..":
            if linked or level - 1 < 0:
                c = "."
            else:
                level -= 1
        elif c == "i":
            linked = True
        elif c != ".":
            level += 1
        comps.append(c)
    if final is None:
        pool = DIRN + FILEN + ["i", "j"] + (list(OUT_LINKS) if allow_out_final else [])
        final = rng.choice(pool)
    if decorate and final in DIRN + FILEN and rng.random() < 0.08:
        final = rng.choice(BSN)
    comps.append(final)
    s = "/".join(comps)
    if decorate:
        k = rng.random()
        if k < 0.06: s = "./" + s
        elif k < 0.10: s = s.replace("/", "//", 1)
        elif k < 0.16: s = "/s/" + s
    return s


def fs_setup(rng):
    h = []
    for _ in range(rng.randrange(2, 9)):
        k = rng.random()
        if k < 0.35:
            h.append(f"fscreate {hx(fs_path(rng, rng.choice(DIRN), decorate=False))}")
        elif k < 0.6:
            h.append(f"fsmkfile {hx(fs_path(rng, rng.choice(FILEN), decorate=False))} {hx(rng.choice(['', 'x', 'hello', 'abc' * 5]))}")
        elif k < 0.85:
            n = rng.choice(list(OUT_LINKS))
            h.append(f"fssymlink {hx(OUT_LINKS[n])} {hx(fs_path(rng, n, decorate=False))}")
        else:
            n = rng.choice(list(IN_LINKS))
            h.append(f"fssymlink {hx(rng.choice(IN_LINKS[n]))} {hx(fs_path(rng, n, decorate=False))}")
    return h


def rand_script(rng):
    its = []
    for _ in range(rng.randrange(1, 6)):
        k = rng.random()
        if k < 0.06:
            its.append(rng.choice(["Z0", "Z1", "Z2", "Z2", "Z3", "R0", "R1", "R2", "R2", "R3", "S0:1", "S1:-1", "S2:0"]))
        elif k < 0.16:
            its.append(rng.choice(["p0", "p1", "p2", "p3", "p7", "p100", "v", "v", "i", "o", "f"]))
        elif k < 0.45: its.append("w" + hx("".join(rng.choice("abcXYZ") for _ in range(rng.choice([0, 1, 2, 3, 5, 9])))))
        elif k < 0.65: its.append(f"s{rng.choice('012')}:{rng.choice([0, 0, 1, 2, 3, 7, -1, -2, -20])}")
        elif k < 0.85: its.append("r")
        else: its.append("z")
    return ",".join(its).replace("w-", "w-")


OBJ_HITS = {}


def rand_obj_script(rng):
    """items of an `fsobj` line; counts what the items aim at (evidence: obj_branch_hits)"""
    its, openo = [], set()

    def hit(k):
        OBJ_HITS[k] = OBJ_HITS.get(k, 0) + 1
    for _ in range(rng.randrange(2, 10)):
        k = rng.random()
        i = rng.randrange(3)
        if k < 0.14:
            j = rng.random()
            if j < 0.5:
                pth = fs_path(rng, rng.choice(DIRN + DIRN + ["f", "zz", "i", "l"]), allow_out_final=False)
                its.append(f"O{i}:{hx(pth)}")
                hit("dir-open-on-open" if 3 + i in openo else "dir-open")
                openo.add(3 + i)
            elif j < 0.8:
                its.append(f"C{i}")
                hit("dir-close-open" if 3 + i in openo else "dir-close-closed")
                openo.discard(3 + i)
            else:
                its.append(f"X{i}")
                hit("dir-destroy-open" if 3 + i in openo else "dir-destroy-closed")
                openo.discard(3 + i)
        elif k < 0.40:
            pth = fs_path(rng, rng.choice(FILEN + FILEN + ["a", "zz", "i", "m"]), allow_out_final=False)
            fl = rng.choice([1, 1, 5])
            its.append(f"o{i}:{hx(pth)}:{fl}")
            hit("open-on-open" if i in openo else "open-append" if fl == 5 else "open")
            openo.add(i)        # (may have failed: the counter is only a generator-side estimate)
        elif k < 0.58:
            its.append(f"c{i}")
            hit("close-open" if i in openo else "close-closed")
            openo.discard(i)
        elif k < 0.76:
            its.append(f"q{i}")
            hit("isOpen")
        elif k < 0.88:
            its.append(f"x{i}")
            hit("destroy-open" if i in openo else "destroy-closed")
            openo.discard(i)
        else:
            src = fs_path(rng, rng.choice(FILEN + FILEN + ["a", "zz"]), allow_out_final=False)
            n = rng.choice("01")
            its.append(f"k:{hx(src)}:{hx('zz9')}:{n}")
            hit("copy-lseek" + n + "-fails")
    return ",".join(its)


def fs_random_history(rng, n):
    h = fs_setup(rng)
    for _ in range(n):
        k = rng.random()
        if k < 0.14:
            p = fs_path(rng, rng.choice(DIRN + FILEN + ["i"] + list(OUT_LINKS)))
            if rng.random() < 0.15 and p[-1] in "abc": p += "/"
            if rng.random() < 0.08 and "i" not in p.split("/") and p[-1] in "abc": p += rng.choice(["/.", "/.."])
            h.append(f"fscreate {hx(p)}")
        elif k < 0.19:
            h.append(f"fscreatef {hx(fs_path(rng, rng.choice(DIRN)))} {rng.randrange(0, 3)}")
        elif k < 0.21:
            h.append(f"fscreateabs {hx(fs_path(rng, rng.choice(DIRN), decorate=False))}")
        elif k < 0.33:
            rp = fs_path(rng, rng.choice(DIRN + DIRN + FILEN + ['i'] + list(OUT_LINKS)))
            if rng.random() < 0.12 and rp.split("/")[-1] in DIRN and "i" not in rp.split("/"):
                rp += rng.choice(["/.", "/./", "/"])          # rmdir answers EINVAL for a last component "."
                # ("x/.." is left to the corpus: the path runs through the tree that is being removed, so the result
                #  depends on the order in which readdir reports the entries)
            if rng.random() < 0.3:
                h.append(f"fsrmdiru {hx(rp)} {rng.choice('011')} {rng.choice('12')}")
            else:
                h.append(f"fsrmdir {hx(rp)} {rng.choice('011')}")
        elif k < 0.40:
            h.append(f"fsunlink {hx(fs_path(rng, allow_out_final=True))}")
        elif k < 0.52:
            a = fs_path(rng, allow_out_final=True)
            last = a.rstrip("/").split("/")[-1]
            # links keep link names (the generator relies on a,b,c,f,g,h,k never being links)
            b = fs_path(rng, rng.choice(list(OUT_LINKS)) if last in OUT_LINKS else rng.choice(["i", "j"]) if last in ("i", "j")
                        else rng.choice(DIRN + FILEN + ["h"]))
            h.append(f"fsrename {hx(a)} {hx(b)} {rng.choice('01')}")
        elif k < 0.64:
            a = fs_path(rng, allow_out_final=True)
            b = fs_path(rng, rng.choice(DIRN + FILEN + ["h", "k"]))
            if rng.random() < 0.3:
                h.append(f"fscopyf {hx(a)} {hx(b)} {rng.choice('01')} {rng.choice('01')}")
            else:
                h.append(f"fscopy {hx(a)} {hx(b)} {rng.choice('01')}")
        elif k < 0.70:
            h.append(f"fsexists {hx(fs_path(rng, allow_out_final=True))}")
        elif k < 0.75:
            h.append(f"fsreadall {hx(fs_path(rng, allow_out_final=True))}")
        elif k < 0.80:
            h.append(f"fsls {hx(fs_path(rng, rng.choice(DIRN + ['i', 'l', '.'])))}")
        elif k < 0.815:
            pp = "/".join(rng.choice(DIRN + ["i"]) for _ in range(rng.choice([1, 2, 2, 3])))
            h.append(f"fspurge {hx(pp)} {rng.choice('011')}")
        elif k < 0.83:
            j = rng.random()
            if j < 0.5:
                dp = fs_path(rng, rng.choice(DIRN + DIRN + ['i', 'l', '.', 'f']))
                if rng.random() < 0.1: dp = ""
                h.append(f"fslsp {hx(dp)} {hx(rng.choice(PATTERNS))} {rng.choice('01')} {rng.choice('012')}")
            elif j < 0.8:
                dp = fs_path(rng, rng.choice(DIRN + DIRN + ['i', 'l', '.', 'f', 'zz']))
                qp = fs_path(rng, allow_out_final=True)
                while ".." in qp.split("/"):
                    qp = fs_path(rng, allow_out_final=True)
                if rng.random() < 0.05: qp = rng.choice(["", "\\a", "c:/a", "."])
                h.append(f"fscd {hx(dp)} {hx(qp)}")
            elif j < 0.88:
                h.append(f"fsopenf {hx(fs_path(rng, rng.choice(FILEN + ['h', 'a', 'i'])))} {rng.choice([1, 2, 3, 6, 7, 14, 4, 5])}")
            elif j < 0.95:
                h.append(f"fscdl {hx(fs_path(rng, rng.choice(DIRN + ['i', 'l', 'zz'])))} {rng.choice([0, 1, 4096, 4097, 8193, 20000, 70000])}")
            else:
                h.append("fsconst -")
        elif k < 0.845:
            h.append(f"fsobj {rand_obj_script(rng)}")
        elif k < 0.85:
            h.append(f"fsabspath {hx(rand_path(rng, 3))}")
        elif k < 0.95:
            h.append(f"fsfile {hx(fs_path(rng, rng.choice(FILEN + FILEN + ['h', 'a'])))} {rng.choice([1, 2, 3, 6, 7, 10, 11, 2, 3, 6, 0, 4])} {rand_script(rng)}")
        else:
            h.append(f"fsmkfile {hx(fs_path(rng, rng.choice(FILEN), decorate=False))} {hx(rng.choice(['', 'q', 'data']))}")
    return h


PATTERNS = ["", "*", "?", "??", "a", "A", "*a", "a*", "?*", "*?*", "**", "f*g", "*l", "b?", "*.", ".*", "*b*", "a?b", "***?", "l", "*f", "a\\b"[:1] + "*"]

FS_FIXTURE = [f"fscreate {hx('a/b')}", f"fsmkfile {hx('a/f')} {hx('hello')}", f"fsmkfile {hx('a/b/g')} {hx('xy')}",
              f"fssymlink {hx('/o/od')} {hx('a/l')}", f"fssymlink {hx('/o/of')} {hx('a/b/m')}", f"fssymlink {hx('/o/none')} {hx('n')}",
              f"fssymlink {hx('a')} {hx('i')}", f"fssymlink {hx('nowhere')} {hx('j')}"]
FS_SMALL = [f"fscreate {hx(p)}" for p in ["a", "a/f", "a/f/x", "c/b/a", "a/l", "n", "a/c/", "a/./c", "a/b/../c", "", "/s/c/c", "i/c"]] + \
           [f"fscreatef {hx('c/b')} {k}" for k in (0, 1)] + \
           ["fscreate " + hx(p) for p in ["x\\y", "a\\b", "a/f\\x", "a/b\\", "\\q", "a\\b/c"]] + \
           ["fsmkdir " + hx(p) for p in ["a/f\\d", "c\\d"]] + ["fsmkfile " + hx(p) + " " + hx("z") for p in ["c", "a\\f"]] + \
           ["fsrmdir " + hx("a/f\\d") + " 1", "fsunlink " + hx("a\\f"), "fsrename " + hx("a/f") + " " + hx("a\\f") + " 1",
            "fscopy " + hx("a/f") + " " + hx("a/f\\g") + " 1"] + \
           [f"fsrmdir {hx(p)} {r}" for p in ["a", "a/b", "a/l", "a/f", "c", "i"] for r in "01"] + \
           [f"fsrmdir {hx(p)} 1" for p in ["a/l/.", "a/l/", "a/.", "a/b/.", "i/.", "a/b/../b", "a/./b/"]] + \
           [f"fsunlink {hx(p)}" for p in ["a/f", "a/l", "a", "a/b/m", "n", "zz"]] + \
           [f"fsrename {hx(a)} {hx(b)} {f}" for a, b in [("a/f", "a/h"), ("zz", "a/h"), ("a/f", "a/b/g"), ("a", "c"), ("a/l", "a/m"), ("a/f", "a/f")] for f in "01"] + \
           [f"fscopy {hx(a)} {hx(b)} {f}" for a, b in [("a/f", "a/h"), ("a", "a/h"), ("a/f", "a/b/g"), ("zz", "a/h"), ("a/b/m", "h"), ("a/l", "h"), ("a/f", "a/b"), ("a", "j"), ("a/f", "j")] for f in "01"] + \
           [f"fscopyf {hx('a/f')} {hx(b)} {f} {m}" for b in ["a/h", "a/b/g"] for f in "01" for m in "01"] + \
           [f"fsfile {hx('a/f')} {fl} {sc}" for fl in (1, 2, 3, 6, 7, 10) for sc in ("w5859,r", "s2:-2,w41,s0:0,r", "s0:8,w42,z")] + \
           [f"fsfile {hx('a/h')} {fl} w4142,s0:0,r" for fl in (1, 2, 3, 6, 10, 11)] + \
           [f"fspurge {hx(p)} {r}" for p in ["a/b", "a", "c/b/a", "a/f", "i/b", "a/l"] for r in "01"] + \
           [f"fsabspath {hx(p)}" for p in ["a", "", "/x", "\\x", "c:/x", "c:x", "../a", "a/"]] + \
           [f"fsfile {hx('a/f')} {fl} {sc}" for fl in (3, 7) for sc in ("s0:9,r,z,s1:0", "s0:9,w41,s0:0,r,z", "s2:3,z,r,w42,s0:0,r", "s0:1,w5a,s2:0,w59,s0:0,r", "r,r,z,s1:-2,r")] + \
           [f"fsfile {hx('a/f')} 6 s0:1,w5a,w59,z"] + \
           [f"fsexists {hx(p)}" for p in ["a/l", "a/b/m", "n", "a/f", "zz", "i", "i/f"]] + \
           [f"fsreadall {hx(p)}" for p in ["a/f", "a/b/m", "a", "n", "i/f"]] + [f"fsls {hx(p)}" for p in ["a", "a/l", "i", "", "a/f"]] + \
           [f"fslsp {hx(p)} {hx(pt)} {d} {m}" for p, pt in [("a", ""), ("a", "*"), ("a", "?"), ("a", "l"), ("", "*"), ("", "?"), ("a/l", "x"), ("a/f", "*"), ("a", "F")] for d in "01" for m in "012"] + \
           [f"fsrmdiru {hx(p)} {r} {m}" for p in ["a", "a/b", "a/l", "c"] for r in "01" for m in "12"] + \
           [f"fscd {hx(d)} {hx(q)}" for d, q in [("a", "f"), ("a", "b/g"), ("a/l", "x"), ("i", "f"), ("zz", "a/f"), ("a/f", "a"), ("a/b", "/s/a"), ("a", ""), ("a", "l"), ("", "a"), ("a", "n")]] + \
           ["fsconst -"] + [f"fsobj {sc}" for sc in (
               f"o0:{hx('a/f')}:1,q0,o0:{hx('a/f')}:1,q0,c0,q0,c0", f"o0:{hx('a/f')}:5,o1:{hx('a/f')}:1,o2:{hx('a/b/g')}:1,q1,x1,q1,c0,q2",
               f"o0:{hx('a')}:1,q0,o1:{hx('zz')}:1,o2:{hx('a/l')}:1,o2:{hx('a/b/m')}:1,q2", f"k:{hx('a/f')}:{hx('zz9')}:0,k:{hx('a/f')}:{hx('zz9')}:1",
               f"o0:{hx('a/f')}:1,k:{hx('a/f')}:{hx('zz9')}:0,q0,k:{hx('a')}:{hx('zz9')}:0,k:{hx('zz')}:{hx('zz9')}:1,x0,q0", "q0,c1,x2,q2",
               f"O0:{hx('a')},O0:{hx('a/b')},O1:{hx('a/l')},O2:{hx('a/f')},o0:{hx('a/f')}:1,C0,C0,q0,X1", f"O0:{hx('i')},O1:{hx('zz')},X0,C1,O1:{hx('a/b')}")] + [f"fsopenf {hx(p_)} {fl}" for p_ in ("a/f", "a/h", "a", "zz/h") for fl in (1, 2, 6, 7, 14)] + \
           [f"fscdl {hx(p_)} {n_}" for p_ in ("a/b", "a/l", "zz") for n_ in (0, 4097, 70000)] + \
           [f"fsfile {hx('a/f')} {fl} {sc}" for fl in (1, 3, 6) for sc in ("Z0,Z1,Z2,z,r,Z2,Z3", "s0:1,R2,r,s0:1,R0,R3,S0:2,s1:0", "R1,w41,Z2,w42,s0:0,r")] + \
           [f"fsfile {hx('a/f')} {fl} p2,i,o,f,p9,v,s0:0,r,p0" for fl in (1, 2, 3, 7)]


def fs_histories(ctx):
    quick = ctx.tier == "quick"
    rng = ctx.rng
    ex = [FS_FIXTURE + [o] for o in FS_SMALL]
    pairs = [FS_FIXTURE + [a, b] for a in FS_SMALL for b in FS_SMALL]
    if quick:
        rng.shuffle(pairs)
        pairs = pairs[:1500]
    rnd = [fs_random_history(rng, rng.choice([5, 10, 20, 30])) for _ in range(1500 if quick else 60000)]
    ctx.cov["fs_scope"] = (f"fs: fixture tree (file, sub-directory, links to the outside sentinel directory/file/nothing, inner link) + every op of a "
                           f"{len(FS_SMALL)}-op alphabet ({len(ex)}) + {'1500 sampled' if quick else 'all ' + str(len(pairs))} pairs + {len(rnd)} random histories "
                           "(random trees; paths with '.', '..', '//', absolute, through inner links; outside links only as final component of non-writing ops)")
    return ex + pairs + rnd


def fs_nontrivial(h, out):
    if len(out) < 3:
        return None
    return (frozenset(l.split()[0] for l in h), canon(out[-1]))


def fs_check(ctx, harness, drv):
    corpus = [h for h in C.load_corpus(ctx.prop) if is_fs_history(h)]
    hs = corpus + fs_histories(ctx)
    ops = ctx.cov.get("op_histogram", {})
    for h in hs:
        for l in h:
            ops[l.split()[0]] = ops.get(l.split()[0], 0) + 1
    ctx.cov["op_histogram"] = ops
    ev0 = ctx.cov["evaluations"]
    # small chunks: every fs op costs real system calls (≈1 ms on a loaded disk), keep each process far below the time-out
    diffs = C.differential(ctx, harness, drv, hs, fs_reference, fs_eq, nontrivial=fs_nontrivial, chunk=250, timeout=600)
    ctx.log(f"fs: {len(hs)} histories, {ctx.cov['evaluations'] - ev0} op lines, {len(diffs)} disagreement(s)")
    C.report_diffs(ctx, diffs, harness, drv, fs_reference, fs_eq, "fs-operations")
    # fault counts: re-run the faulted ops' histories once to read the harness' own counters
    fl = [h for h in hs if any(l.startswith(("fscopyf", "fscreatef")) for l in h)][:60]
    lines, _ = C.flatten(fl)
    e = dict(os.environ)
    e.update(C.SAN_ENV)
    import subprocess
    p = subprocess.run([str(harness)], input="\n".join(lines) + "\n", env=e, stdout=subprocess.PIPE, stderr=subprocess.PIPE, text=True)
    m = [l for l in p.stderr.splitlines() if l.startswith("faults-fired")]
    ctx.cov["faults_fired"] = (m[-1] if m else "none") + f" (in a re-run of {len(fl)} histories with faulted ops); per op the fired count is part of the compared observation"
    ctx.cov["samples"] = ctx.cov.get("samples", []) + [" ; ".join(h) for h in hs[-2:]]
    ctx.cov["obj_branch_hits"] = dict(sorted(OBJ_HITS.items()))
    ctx.cov["fs_states_checked_wellformed_and_sentinel_unchanged"] = ctx.cov["evaluations"] - ev0
    ctx.cov["rule"] += " || " + ctx.cov["fs_scope"] + "; every op line answers its result and a snapshot of the whole world (scratch + sentinel), compared with the Lean model's tree and checked against the laws of C19 by a Python oracle (own path resolver + byte-array file semantics)"
    cleanup_scratch()


def cleanup_scratch():
    import glob
    import shutil
    base = os.environ.get("TMPDIR") or "/tmp"
    for d in glob.glob(os.path.join(base, "nstd-verif-*")):
        pid = d.rsplit("-", 1)[-1]
        if pid.isdigit() and not os.path.exists(f"/proc/{pid}"):
            shutil.rmtree(d, ignore_errors=True)


def replay(ctx, path):
    h = C.parse_replay(path)
    gen = extract_wild(ctx)
    harness = C.build_harness(ctx, "path", SOURCES, extra_flags=[f"-I{gen}"] if gen else [])
    C.lake_build([DRIVER])
    fs = is_fs_history(h)
    diffs = C.differential(ctx, harness, C.driver_path(DRIVER), [h], fs_reference if fs else ref_with_laws, fs_eq if fs else C.default_eq)
    for d in diffs:
        print(d.text())
        ctx.violation(f"replay: {d.kind}", d.text())
    harness.unlink()
    cleanup_scratch()
