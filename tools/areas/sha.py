"""C17  SHA-256 and HMAC-SHA-256 equal the standard for every input and chunking."""
import hashlib
import hmac as pyhmac
import sys
from pathlib import Path

import common as C

sys.path.insert(0, str(Path(__file__).resolve().parents[1]))
import gen_sha  # noqa: E402

PROPERTIES = ["C17"]
MANIFEST = {
    "C17": {
        "technique": "Lean 4 proof (model of Sha256.cpp/Sha256.hpp over constants and macro bodies regenerated from the current sources, proved equal to FIPS 180-4 / RFC 2104 written independently) + differential correspondence model vs real code vs Python hashlib/hmac",
        "text": "Theorems over all messages, all chunkings and all keys: the generated K/H0 are the constants of the standard (defined as cube/square roots of primes), one Transform call equals the FIPS compression function, update/finalize over any list of chunks equals the FIPS digest of the concatenation, the hasher is reusable after finalize/reset, hmac equals RFC 2104 for the three key-length cases.  The model is tied to the current sources on every run: tables and macros are re-translated (g++ -E -dD) and the theorems re-checked over them; the hand-written control flow is run against the real code on identical op lines (all lengths 0..300 x all 2-way splits, sampled 3-way splits, lengths to 70000, keys 0..200) and both against Python hashlib/hmac.",
        "note": "Trusted: Lean kernel + the three standard axioms; the translator tools/gen_sha.py (expression translator for the macro bodies; its output is exercised by the correspondence run); the hand translation of the control flow of update/finalize/Transform/WriteByteBlock/hmac (validated by the correspondence run, not proved); my transcription of FIPS 180-4 / RFC 2104 in Spec.lean (validated against NIST / RFC 4231 vectors in Lean and against Python hashlib/hmac through the driver: tests).  Assumed: total message length < 2^61 bytes (hypothesis of the theorems; the count<<3 wrap beyond it is outside the property); byte arrays passed to the real code are valid for their size.  See the OPEN block of lean/Nstd/Sha/Props.lean for statements that are only partially proved.",
        "design_ref": "DESIGN.md 3/C17",
    }
}
PROPS = ["Nstd.Sha.Props"]
LEAN_TARGETS = PROPS + ["drv_sha"]
DRIVER = "drv_sha"
MAXLINE = 30000          # bytes per op line (hx.h reads lines of at most 65535 characters)
BOUNDARY = [0, 1, 54, 55, 56, 57, 62, 63, 64, 65, 118, 119, 120, 121, 127, 128, 129, 183, 184, 191, 192, 193, 247, 248, 255, 256, 257, 300]


def setup():
    ok, msg = gen_sha.run()
    print(f"gen_sha: {'ok' if ok else 'FAILED'} {msg}", flush=True)
    if not ok:
        raise SystemExit(1)


def hx(b):
    return b.hex() if b else "-"


def unhx(t):
    return b"" if t == "-" else bytes.fromhex(t)


# ---- reference: Python hashlib / hmac (independent of the Lean model) -----------------------------
def reference(hist):
    h = hashlib.sha256()
    out = []
    for line in hist:
        t = line.split()
        try:
            if t[0] == "update" and len(t) == 2:
                h.update(unhx(t[1]))
                out.append("ok")
            elif t[0] == "final" and len(t) == 1:
                out.append(h.hexdigest())
                h = hashlib.sha256()
            elif t[0] == "rst" and len(t) == 1:
                h = hashlib.sha256()
                out.append("ok")
            elif t[0] in ("hash", "spec") and len(t) == 2:
                out.append(hashlib.sha256(unhx(t[1])).hexdigest())
            elif t[0] in ("hmac", "spechmac") and len(t) == 3:
                out.append(pyhmac.new(unhx(t[1]), unhx(t[2]), hashlib.sha256).hexdigest())
            else:
                out.append("bad-op")
        except ValueError:
            out.append("bad-op")
    return out


# ---- generators -----------------------------------------------------------------------------------
def rbytes(rng, n):
    k = rng.random()
    if k < 0.08:
        return bytes(n)
    if k < 0.16:
        return bytes([0xFF]) * n
    if k < 0.22:
        return bytes([0x80]) * n
    return bytes(rng.getrandbits(8) for _ in range(n)) if n < 2000 else rng.getrandbits(8 * n).to_bytes(n, "little")


def two_way(rng, n):
    """all n+1 two-way splits of one message of length n on ONE hasher (reused after each finalize)"""
    m = rbytes(rng, n)
    h = []
    for s in range(n + 1):
        h += [f"update {hx(m[:s])}", f"update {hx(m[s:])}", "final"]
    return h


def chunks(m, cuts):
    pts = [0] + sorted(cuts) + [len(m)]
    return [m[a:b] for a, b in zip(pts, pts[1:])]


def three_way(rng, maxlen=300, count=12):
    h = []
    for _ in range(count):
        n = rng.choice(BOUNDARY) if rng.random() < 0.4 else rng.randrange(maxlen + 1)
        m = rbytes(rng, n)
        k = rng.random()
        if k < 0.15:
            h += [f"update {hx(rbytes(rng, rng.randrange(130)))}", "rst"]      # abandoned input, then reset()
        elif k < 0.22:
            h += ["rst"]
        elif k < 0.3:
            h += ["final"]                                                       # digest of the empty message
        for c in chunks(m, [rng.randrange(n + 1), rng.randrange(n + 1)]):
            h.append(f"update {hx(c)}")
        h.append("final")
        if rng.random() < 0.3:
            h.append(f"hash {hx(m)}")
        if rng.random() < 0.15:
            h.append(f"spec {hx(m)}")
    return h


def long_msg(rng, maxlen=70000):
    n = rng.choice([rng.randrange(301, 5000), rng.randrange(5000, maxlen + 1), 64 * rng.randrange(5, 1000) + rng.choice([-1, 0, 1, 55, 56])])
    m = rbytes(rng, n)
    h = []
    pos = 0
    while pos < n:
        step = MAXLINE if len(h) > 40 else rng.choice([1, 3, 63, 64, 65, 1000, 4096, MAXLINE, rng.randrange(1, MAXLINE + 1)])
        h.append(f"update {hx(m[pos:pos + step])}")
        pos += step
    h.append("final")
    if n <= MAXLINE:
        h.append(f"hash {hx(m)}")
        if rng.random() < 0.5:
            h.append(f"spec {hx(m)}")
    return h


def hmac_hist(rng, keylens, maxmsg=300):
    h = []
    for kl in keylens:
        key = rbytes(rng, kl)
        ml = rng.choice(BOUNDARY + [8, 9, 10, 23, 24, 31, 32, 33]) if rng.random() < 0.5 else rng.randrange(maxmsg + 1)
        msg = rbytes(rng, ml)
        h.append(f"hmac {hx(key)} {hx(msg)}")
        if rng.random() < 0.25:
            h.append(f"spechmac {hx(key)} {hx(msg)}")
        if rng.random() < 0.2:                         # the static helpers do not disturb the object
            h += [f"update {hx(msg)}", f"hmac {hx(key)} {hx(msg[:7])}", "final"]
    return h


# NIST CAVP / FIPS 180-4 examples and RFC 4231 test cases: expected values are recomputed by hashlib;
# they are listed so that the classic vectors are part of every run
VECTORS = [
    "hash 616263", "spec 616263", "hash -", "spec -",
    "hash " + b"abcdbcdecdefdefgefghfghighijhijkijkljklmklmnlmnomnopnopq".hex(),
    "spec " + b"abcdbcdecdefdefgefghfghighijhijkijkljklmklmnlmnomnopnopq".hex(),
    "hmac " + "0b" * 20 + " " + b"Hi There".hex(), "spechmac " + "0b" * 20 + " " + b"Hi There".hex(),
    "hmac " + b"Jefe".hex() + " " + b"what do ya want for nothing?".hex(),
    "hmac " + "aa" * 20 + " " + "dd" * 50,
    "hmac " + "aa" * 131 + " " + b"Test Using Larger Than Block-Size Key - Hash Key First".hex(),
    "spechmac " + "aa" * 131 + " " + b"Test Using Larger Than Block-Size Key - Hash Key First".hex(),
    "hmac " + "aa" * 64 + " " + b"key of exactly one block".hex(), "hmac - -", "spechmac - -",
]


def histories_for(ctx):
    rng = ctx.rng
    quick = ctx.tier == "quick"
    hs = C.load_corpus(ctx.prop)
    ncorpus = len(hs)
    hs.append(list(VECTORS))
    if quick:
        lens = sorted(set(BOUNDARY) | {n for n in range(301) if (n + ctx.seed) % 2 == 0})
    else:
        lens = list(range(301))
    two = [two_way(rng, n) for n in lens]
    three = [three_way(rng) for _ in range(150 if quick else 3000)]
    longs = [long_msg(rng) for _ in range(16 if quick else 200)]
    if quick:
        keylens = sorted({0, 1, 31, 32, 33, 63, 64, 65, 66, 96, 128, 199, 200} | {k for k in range(201) if (k + ctx.seed) % 3 == 0})
    else:
        keylens = list(range(201)) * 6
    hm = [hmac_hist(rng, keylens[i:i + 8]) for i in range(0, len(keylens), 8)]
    nsplits = sum(n + 1 for n in lens)
    ctx.cov["rule"] = (
        f"corpus ({ncorpus}) + NIST/RFC 4231 vectors + 2-way: for each length n in the scope, one random message, ALL n+1 splits "
        f"update(m[:s]);update(m[s:]);finalize on one reused hasher ({len(lens)} lengths, {nsplits} splits) + {len(three)} histories of 12 "
        f"sampled 3-way splits (lengths 0..300, boundary lengths favoured, interleaved reset()/finalize()/hash/spec) + {len(longs)} long messages "
        f"(301..70000 bytes, chunk sizes 1..{MAXLINE}) + hmac for {len(keylens)} keys (lengths {min(keylens)}..{max(keylens)}) with messages 0..300; content random/all-00/all-ff/all-80; "
        "every digest of the real code is compared with the Lean model AND with Python hashlib/hmac; `spec`/`spechmac` lines compare the Lean FIPS/RFC spec with both; "
        "distinct_nontrivial = distinct (op-kind set, final digest) of histories")
    full = not quick
    ctx.cov["exhaustive"] = full
    ctx.cov["exhaustive_scope"] = (f"lengths {'0..300 (all)' if full else str(len(lens)) + ' of 0..300 (boundary lengths + seed-chosen residue class mod 2)'}"
                                   f" x all 2-way splits: {nsplits} chunkings (content: one random message per length)")
    return hs + two + three + longs + hm


def nontrivial(h, out):
    if len(h) < 2 or not out:
        return None
    return (frozenset(l.split()[0] for l in h), out[-1])


def check(ctx):
    ctx.assumptions += [
        "total number of bytes fed to one hasher between resets < 2^61 (hypothesis of the theorems; the generators stay far below)",
        "the byte ranges passed to update/hash/hmac are valid for their size (the harness passes exactly sized heap copies under ASan)",
        "a freshly constructed hasher's buffer content is indeterminate in C++; the model starts with zeros (never read before written: the harness poisons the storage with 0xAA)",
    ]
    proof_ok = C.proof_stage(ctx, PROPS, [DRIVER], gen=gen_sha.gen, leanchecker=(ctx.tier == "thorough"))
    ctx.cov["open_statements"] = open_statements()
    harness = C.build_harness(ctx, "sha", ["sha.cpp", C.REPO / "src/Crypto/Sha256.cpp", C.REPO / "src/Memory.cpp"])
    if harness is None or not C.driver_path(DRIVER).exists():
        return
    try:
        hs = histories_for(ctx)
        if not proof_ok:
            ctx.log("proof stage broken: searching harder for a failing input")
            hs += [two_way(ctx.rng, n) for n in range(301)] + [three_way(ctx.rng) for _ in range(2000)]
            hs += [hmac_hist(ctx.rng, list(range(i, i + 8))) for i in range(0, 200, 8)]
        ops = {}
        for h in hs:
            for l in h:
                ops[l.split()[0]] = ops.get(l.split()[0], 0) + 1
        ctx.cov["op_histogram"] = ops
        ctx.cov["samples"] = [" ; ".join(x if len(x) < 120 else x[:100] + "…" for x in h[:6]) for h in (hs[1:2] + hs[3:5] + hs[-2:])]
        # heavy histories first, spread over the workers
        order = sorted(range(len(hs)), key=lambda i: -sum(len(l) for l in hs[i]))
        hs = [hs[i] for i in order]
        parts = [hs[i::C.NCPU * 2] for i in range(C.NCPU * 2)]
        hs = [h for p in parts for h in p]
        diffs = C.differential(ctx, harness, C.driver_path(DRIVER), hs, reference, C.default_eq, nontrivial=nontrivial, timeout=600)
        ctx.log(f"{len(hs)} histories, {ctx.cov['evaluations']} op lines, {len(diffs)} disagreement(s)")
        C.report_diffs(ctx, diffs, harness, C.driver_path(DRIVER), reference, C.default_eq, "sha-ops")
    finally:
        try:
            harness.unlink()
        except OSError:
            pass


def open_statements():
    """theorem names announced as OPEN in Props.lean (comment block headed `OPEN:`)"""
    import re
    src = C.module_file(PROPS[0]).read_text()
    out = []
    for m in re.finditer(r"/-\s*OPEN:(.*?)-/", src, re.S):
        out += re.findall(r"theorem\s+(\S+)", m.group(1))
    return out


def replay(ctx, path):
    h = C.parse_replay(path)
    gen_sha.run()
    harness = C.build_harness(ctx, "sha", ["sha.cpp", C.REPO / "src/Crypto/Sha256.cpp", C.REPO / "src/Memory.cpp"])
    C.lake_build([DRIVER])
    if harness is None:
        return
    diffs = C.differential(ctx, harness, C.driver_path(DRIVER), [h], reference, C.default_eq)
    for d in diffs:
        print(d.text())
        ctx.violation(f"replay: {d.kind}", d.text())
    harness.unlink()
