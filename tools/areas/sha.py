"""C17  SHA-256 and HMAC-SHA-256 equal the standard for every input and chunking."""
import hashlib
import hmac as pyhmac
import sys
from pathlib import Path

import common as C

sys.path.insert(0, str(Path(__file__).resolve().parents[1]))
import gen_sha  # noqa: E402

PROPERTIES = ["C17"]
MANIFEST = {
    "C17": {
        "technique": "Lean 4 proof (model of Sha256.cpp/Sha256.hpp whose constants, macro bodies AND every function body - Transform in all three build configurations, reset, WriteByteBlock, update, finalize, hash, hmac - are re-translated from the current sources on every run by a C-subset translator, proved equal to FIPS 180-4 / RFC 2104 written independently) + differential correspondence real code (built in up to three configurations) vs the translated bodies executed by the model driver vs Python hashlib/hmac",
        "text": "Kernel-checked theorems for ALL messages, chunkings and keys: the generated K/H0 are the constants of the standard (defined as cube/square roots of the first primes, roots proved exact), the generated macro bodies S0 S1 s0 s1 Ch Maj are the functions of FIPS 4.1.2, the GENERATED body of Transform (copy loops, j/i loops, macro R over the rolling 16-word window and the rotating register index) equals the FIPS compression function for every chaining value, block and initial content of its uninitialised locals, and so do the generated Transform bodies of the two other build configurations of the sources (-D_SHA256_UNROLL, -D_SHA256_UNROLL2: transform_unroll_eq, transform_unroll2_eq); the bodies of reset, WriteByteBlock, update, finalize and the static helper hash translated from the sources (typed statement translator) are proved equal to the model functions for every object state and input (generated_bodies_are_the_model), and update/finalize over any list of chunks equals the FIPS digest of the concatenation (streaming, streaming_generated; one- and two-block padding cases).  NEW in round 7: the body of Sha256::hmac is translated from the current Sha256.hpp as well (local object, if/else key normalisation with Memory::copy/Memory::zero at pointer offsets as checked block writes, finalize into the first digestSize bytes of hashKey through the reference cast, pad loop with byte xor, inner and outer pass over blockSize/digestSize-byte prefixes of the local arrays, usize sizes as naturals with flagged subtraction) and proved to be HMAC of RFC 2104 for every key (longer than / equal to / shorter than the block, empty), every message and EVERY initial content of its four uninitialised local arrays (hmac_translated_eq_rfc2104); the length hypotheses are gone where they were only technical: for every chunking of a message of ANY length finalize computes the FIPS formula with the low 64 bits of the bit length in the length field (streaming_any_length; = FIPS below 2^61 bytes), the 64-bit byte counter holds the length mod 2^64 and the buffer position stays length mod 64 when it wraps (byte_counter_wraps, length_field_wraps), copy_midstream holds without bound; an empty update leaves the object untouched without entering the loop that dereferences data (update_empty_is_identity).  Chunk boundaries leave no trace in the object itself, for EVERY object state: update(update(p,a),b) = update(p,a++b) as whole objects (chaining value, 64-bit counter, buffer bytes, ghost flag), for the model and the translated body (chunking_leaves_no_trace).  The buffer bytes at and beyond the buffer position carry no information: replaced by arbitrary bytes after any chunking they change no digest of any continuation (stale_buffer_bytes_are_irrelevant) - so the model's zeros for the indeterminate buffer of a new object are unobservable.  hmac satisfies the two key equivalences of RFC 2104 for every message: a key longer than the block = its own digest, a key shorter than the block = itself followed by a zero byte (hmac_key_equivalences).  The hasher is reusable after construction/finalize/reset, a hasher copied mid-stream and its original continue independently (copy_midstream), the byte<->word conversions are big-endian for every buffer content without alignment/endianness assumptions (byte_word_assembly_is_big_endian).  Tie to the current sources on every run: tables, header constants, macro bodies and the function bodies are re-translated (g++ -E -dD, g++ -E -dD -fdirectives-only, C parser + emitters; names of parameters and locals are canonicalised, so renaming them changes nothing) and all theorems are re-checked over them; the model driver EXECUTES the translated update/finalize/Transform/hash/hmac (hmac with an input-dependent poison pattern in its uninitialised arrays) against the real code (ASan/UBSan) on identical op lines - all lengths 0..300 x all 2-way splits, lengths 0..70 x all 3-way splits, sampled 3-way splits with interleaved reset/finalize, copies mid-stream (copy constructor/assignment), lengths to 70000, keys 0..200 plus every branch of the key normalisation x the padding classes of the inner message (quick tier: seed-chosen slices), single Transform calls on arbitrary chaining values (white box) - on the harness built from the sources as they are and again with -D_SHA256_UNROLL2 and -D_SHA256_UNROLL; every digest is also compared with Python hashlib/hmac; two further streams pass empty inputs as (nullptr, 0) and preset `count` (white box) to multiples of 64 up to 2^64-64 and feed on past 2^64 (the counter wraps in the real code, the model and the oracle).",
        "note": "Trusted: Lean kernel + the three standard axioms; the translator tools/gen_sha.py (C parser, macro emitter, function-body emitters; it refuses what it cannot translate faithfully in the macros and in Transform - unsequenced side effects, aliasing macro arguments, non-constant loop bounds; its output is executed by the driver in the correspondence run); the conventions of the body translation (input byte range = list and its usize size = the list's length, output pointer/reference = appended bytes, Nat counters for constant-bound for loops, zeros for a callee's uninitialised locals - proved irrelevant for Transform; hmac's uninitialised local arrays are PARAMETERS of the generated function and universally quantified in the theorem; iteration budget 2^32 for the padding while loop - proved never exhausted; `Sha256 x;` = init, checked against the constructor `Sha256() {reset();}`; Memory::copy/Memory::zero = the documented memcpy/memset as checked block writes storeAt/zeroAt of Model.lean that destroy the array when the block does not fit; bitwise & | ^ on two byte values stay bytes, any other arithmetic on bytes is refused; a usize subtraction that would wrap clears the ghost flag).  A body of reset/WriteByteBlock/update/finalize/hash/hmac that is outside the translated C subset is NOT an alarm: the function falls back to the hand-written model function for that run (tie = correspondence run only) and coverage.translated_bodies says so; on the unchanged tree all six are translated.  A translated body whose equality proof no longer checks IS an alarm (a failing input is searched; `no-failing-input-found` if the rewrite was harmless).  Hand-written: Model.lean (the functions the translated bodies are proved equal to; used directly only when a body falls back), my transcription of FIPS 180-4 / RFC 2104 in Spec.lean (kernel-evaluated on the NIST 'abc', empty, two-block vectors and RFC 4231 cases 1 and 6, and compared with Python hashlib/hmac through the driver on every run: tests).  The three configurations are generated from a scratch copy of Sha256.cpp in which a source-level #define _SHA256_UNROLL[2] is blanked (the only textual preprocessing not left to g++); the _MSC_VER branch of rotlFixed/rotrFixed is not compiled and not modelled.  Memory abstraction: C arrays are Lean lists; every write goes through a checked `wr`/`storeAt` that destroys the array on an out-of-range index, every read is recorded in a ghost flag `ok` that the model carries and the driver reports as FAULT; the theorems hold for all inputs and include ok = true (the harness additionally runs the real code under ASan with the hashers in exactly sized heap blocks).  A null pointer for an empty range cannot be expressed in the model (a range is a list): that `update`/`hash`/`hmac` do not pass it to memcpy is tied by the stream sha-null-args only.  Copying: the model's objects are values, so copy_midstream holds by construction in the model; that the C++ implicit copy is member-wise is tied by the ops fork/assign/swap.  Hypotheses of the theorems: fewer than 2^61 bytes per digest ONLY for the statements that name FIPS (= its 2^64-bit limit) and for hmac; streaming_any_length has none.  No theorem is partial; there is no OPEN statement.",
        "design_ref": "DESIGN.md 3/C17",
    }
}
PROPS = ["Nstd.Sha.Props", "Nstd.Sha.PropsSpec"]
LEAN_TARGETS = PROPS + ["drv_sha"]
DRIVER = "drv_sha"
MAXLINE = 30000          # bytes per op line (hx.h reads lines of at most 65535 characters)
BOUNDARY = [0, 1, 54, 55, 56, 57, 62, 63, 64, 65, 118, 119, 120, 121, 127, 128, 129, 183, 184, 191, 192, 193, 247, 248, 255, 256, 257, 300]


def setup():
    ok, msg = gen_sha.run()
    print(f"gen_sha: {'ok' if ok else 'FAILED'} {msg}", flush=True)
    if not ok:
        raise SystemExit(1)


def hx(b):
    return b.hex() if b else "-"


def unhx(t):
    return b"" if t == "-" else bytes.fromhex(t)


# ---- pure-Python SHA-256 with a preset byte count (for the white-box stream only; hashlib has no such entry) ---
def _primes(n):
    ps, c = [], 2
    while len(ps) < n:
        if all(c % p for p in ps):
            ps.append(c)
        c += 1
    return ps


def _iroot(k, n):
    lo, hi = 0, 1 << 48
    while lo + 1 < hi:
        mid = (lo + hi) // 2
        lo, hi = (mid, hi) if mid ** k <= n else (lo, mid)
    return lo


_K = [_iroot(3, p << 96) & 0xFFFFFFFF for p in _primes(64)]
_H0 = [_iroot(2, p << 64) & 0xFFFFFFFF for p in _primes(8)]


def py_compress(H, block):
    """FIPS 180-4 6.2.2 for one 64-byte block (pure Python; oracle of the white-box op `xform`)"""
    M = 0xFFFFFFFF
    rotr = lambda x, n: ((x >> n) | (x << (32 - n))) & M
    W = [int.from_bytes(block[4 * i:4 * i + 4], "big") for i in range(16)]
    for t in range(16, 64):
        s0 = rotr(W[t - 15], 7) ^ rotr(W[t - 15], 18) ^ (W[t - 15] >> 3)
        s1 = rotr(W[t - 2], 17) ^ rotr(W[t - 2], 19) ^ (W[t - 2] >> 10)
        W.append((s1 + W[t - 7] + s0 + W[t - 16]) & M)
    a, b, c, d, e, f, g, h = H
    for t in range(64):
        t1 = (h + (rotr(e, 6) ^ rotr(e, 11) ^ rotr(e, 25)) + ((e & f) ^ (~e & M & g)) + _K[t] + W[t]) & M
        t2 = ((rotr(a, 2) ^ rotr(a, 13) ^ rotr(a, 22)) + ((a & b) ^ (a & c) ^ (b & c))) & M
        a, b, c, d, e, f, g, h = (t1 + t2) & M, a, b, c, (d + t1) & M, e, f, g
    return [(x + y) & M for x, y in zip(H, (a, b, c, d, e, f, g, h))]


def py_sha256(msg, preset=0):
    """FIPS 180-4 SHA-256 of `msg` as if `preset` bytes (a multiple of 64) had been absorbed before with
    the chaining value still H0 - i.e. exactly what the white-box op `setcount` sets up"""
    total = preset + len(msg)
    data = msg + b"\x80" + bytes((55 - len(msg)) % 64) + ((8 * total) % 2 ** 64).to_bytes(8, "big")
    H = list(_H0)
    for off in range(0, len(data), 64):
        H = py_compress(H, data[off:off + 64])
    return b"".join(x.to_bytes(4, "big") for x in H).hex()


# ---- reference: Python hashlib / hmac (independent of the Lean model) -----------------------------
def reference(hist):
    h = hashlib.sha256()
    h2 = hashlib.sha256()     # the second object (fork/assign/swap)
    out = []
    whitebox = None          # after `setcount n`: (n, bytes fed since) - hashlib cannot follow, py_sha256 does
    for line in hist:
        t = line.split()
        try:
            if t[0] in ("fork", "assign", "swap") and len(t) == 1:
                if whitebox is not None:
                    out.append("unsupported-in-reference")
                elif t[0] == "swap":
                    h, h2 = h2, h
                    out.append("ok")
                else:
                    h2 = h.copy()
                    out.append("ok")
                continue
            if t[0] == "variant" and len(t) == 2:
                out.append("ok" if t[1] in ("rolled", "unroll", "u2") else "bad-op")
                continue
            if t[0] == "xform" and len(t) == 3:
                st, blk = unhx(t[1]), unhx(t[2])
                if len(st) != 32 or len(blk) != 64:
                    out.append("bad-op")
                else:
                    H = py_compress([int.from_bytes(st[4 * i:4 * i + 4], "big") for i in range(8)], blk)
                    out.append(b"".join(x.to_bytes(4, "big") for x in H).hex())
                continue
            if t[0] == "setcount" and len(t) == 2:
                n = int(t[1])
                if n % 64 == 0 and n < 2 ** 64:
                    whitebox = (n, b"")
                    out.append("ok")
                else:
                    out.append("bad-op")
                continue
            if whitebox is not None and t[0] in ("update", "updatenull"):
                whitebox = (whitebox[0], whitebox[1] + (unhx(t[1]) if t[0] == "update" else b""))
                out.append("ok")
                continue
            if whitebox is not None and t[0] in ("final", "rst"):
                out.append(py_sha256(whitebox[1], whitebox[0]) if t[0] == "final" else "ok")
                whitebox = None
                h = hashlib.sha256()
                continue
            if t[0] == "update" and len(t) == 2:
                h.update(unhx(t[1]))
                out.append("ok")
            elif t[0] == "final" and len(t) == 1:
                out.append(h.hexdigest())
                h = hashlib.sha256()
            elif t[0] == "rst" and len(t) == 1:
                h = hashlib.sha256()
                out.append("ok")
            elif t[0] == "updatenull" and len(t) == 1:
                out.append("ok")
            elif t[0] == "hashnull" and len(t) == 1:
                out.append(hashlib.sha256(b"").hexdigest())
            elif t[0] == "hmacnullkey" and len(t) == 2:
                out.append(pyhmac.new(b"", unhx(t[1]), hashlib.sha256).hexdigest())
            elif t[0] == "hmacnullmsg" and len(t) == 2:
                out.append(pyhmac.new(unhx(t[1]), b"", hashlib.sha256).hexdigest())
            elif t[0] in ("hash", "spec") and len(t) == 2:
                out.append(hashlib.sha256(unhx(t[1])).hexdigest())
            elif t[0] in ("hmac", "spechmac") and len(t) == 3:
                out.append(pyhmac.new(unhx(t[1]), unhx(t[2]), hashlib.sha256).hexdigest())
            else:
                out.append("bad-op")
        except ValueError:
            out.append("bad-op")
    return out


# ---- generators -----------------------------------------------------------------------------------
def rbytes(rng, n):
    k = rng.random()
    if k < 0.08:
        return bytes(n)
    if k < 0.16:
        return bytes([0xFF]) * n
    if k < 0.22:
        return bytes([0x80]) * n
    return bytes(rng.getrandbits(8) for _ in range(n)) if n < 2000 else rng.getrandbits(8 * n).to_bytes(n, "little")


def two_way(rng, n):
    """all n+1 two-way splits of one message of length n on ONE hasher (reused after each finalize)"""
    m = rbytes(rng, n)
    h = []
    for s in range(n + 1):
        h += [f"update {hx(m[:s])}", f"update {hx(m[s:])}", "final"]
    return h


def three_way_all(rng, n):
    """ALL three-way splits (cut points a <= b) of one message of length n on one reused hasher"""
    m = rbytes(rng, n)
    h = []
    for a in range(n + 1):
        for b in range(a, n + 1):
            h += [f"update {hx(m[:a])}", f"update {hx(m[a:b])}", f"update {hx(m[b:])}", "final"]
    return h


def chunks(m, cuts):
    pts = [0] + sorted(cuts) + [len(m)]
    return [m[a:b] for a, b in zip(pts, pts[1:])]


def three_way(rng, maxlen=300, count=12):
    h = []
    for _ in range(count):
        n = rng.choice(BOUNDARY) if rng.random() < 0.4 else rng.randrange(maxlen + 1)
        m = rbytes(rng, n)
        k = rng.random()
        if k < 0.15:
            h += [f"update {hx(rbytes(rng, rng.randrange(130)))}", "rst"]      # abandoned input, then reset()
        elif k < 0.22:
            h += ["rst"]
        elif k < 0.3:
            h += ["final"]                                                       # digest of the empty message
        for c in chunks(m, [rng.randrange(n + 1), rng.randrange(n + 1)]):
            h.append(f"update {hx(c)}")
        h.append("final")
        if rng.random() < 0.3:
            h.append(f"hash {hx(m)}")
        if rng.random() < 0.15:
            h.append(f"spec {hx(m)}")
    return h


def long_msg(rng, maxlen=70000):
    n = rng.choice([rng.randrange(301, 5000), rng.randrange(5000, maxlen + 1), 64 * rng.randrange(5, 1000) + rng.choice([-1, 0, 1, 55, 56])])
    m = rbytes(rng, n)
    h = []
    pos = 0
    while pos < n:
        step = MAXLINE if len(h) > 40 else rng.choice([1, 3, 63, 64, 65, 1000, 4096, MAXLINE, rng.randrange(1, MAXLINE + 1)])
        h.append(f"update {hx(m[pos:pos + step])}")
        pos += step
    h.append("final")
    if n <= MAXLINE:
        h.append(f"hash {hx(m)}")
        if rng.random() < 0.5:
            h.append(f"spec {hx(m)}")
    return h


def hmac_hist(rng, keylens, maxmsg=300):
    h = []
    for kl in keylens:
        key = rbytes(rng, kl)
        ml = rng.choice(BOUNDARY + [8, 9, 10, 23, 24, 31, 32, 33]) if rng.random() < 0.5 else rng.randrange(maxmsg + 1)
        msg = rbytes(rng, ml)
        h.append(f"hmac {hx(key)} {hx(msg)}")
        if rng.random() < 0.25:
            h.append(f"spechmac {hx(key)} {hx(msg)}")
        if rng.random() < 0.2:                         # the static helpers do not disturb the object
            h += [f"update {hx(msg)}", f"hmac {hx(key)} {hx(msg[:7])}", "final"]
    return h


def hmac_edges(rng):
    """every branch of the key normalisation of `hmac` (empty key: copy skipped; shorter than the block: copied + zero tail;
    exactly one block: copied, no zero fill; longer: digest + zero upper half) x the padding classes of the inner message"""
    hs = []
    for kl in (0, 1, 31, 32, 33, 55, 56, 63, 64, 65, 96, 127, 128, 129, 200):
        h = []
        for ml in (0, 1, 55, 56, 63, 64, 65, 119, 120):
            h.append(f"hmac {hx(rbytes(rng, kl))} {hx(rbytes(rng, ml))}")
        h.append(f"spechmac {hx(rbytes(rng, kl))} {hx(rbytes(rng, rng.randrange(100)))}")
        hs.append(h)
    return hs


# NIST CAVP / FIPS 180-4 examples and RFC 4231 test cases: expected values are recomputed by hashlib;
# they are listed so that the classic vectors are part of every run
VECTORS = [
    "hash 616263", "spec 616263", "hash -", "spec -",
    "hash " + b"abcdbcdecdefdefgefghfghighijhijkijkljklmklmnlmnomnopnopq".hex(),
    "spec " + b"abcdbcdecdefdefgefghfghighijhijkijkljklmklmnlmnomnopnopq".hex(),
    "hmac " + "0b" * 20 + " " + b"Hi There".hex(), "spechmac " + "0b" * 20 + " " + b"Hi There".hex(),
    "hmac " + b"Jefe".hex() + " " + b"what do ya want for nothing?".hex(),
    "hmac " + "aa" * 20 + " " + "dd" * 50,
    "hmac " + "aa" * 131 + " " + b"Test Using Larger Than Block-Size Key - Hash Key First".hex(),
    "spechmac " + "aa" * 131 + " " + b"Test Using Larger Than Block-Size Key - Hash Key First".hex(),
    "hmac " + "aa" * 64 + " " + b"key of exactly one block".hex(), "hmac - -", "spechmac - -",
]


def null_histories(rng):
    """empty inputs handed over as (nullptr, 0) - a separate stream, so that a sanitizer abort there
    does not cut short the exploration of the rest of the property"""
    hs = []
    d = C.CORPUS / "C17" / "null"
    if d.exists():
        for f in sorted(d.glob("*.txt")):
            h = [l for l in f.read_text().splitlines() if l.strip() and not l.startswith("#")]
            if h:
                hs.append(h)
    hs += [["hashnull"], ["updatenull", "final"], ["hmacnullkey -"], ["hmacnullkey 616263"], ["hmacnullmsg -"],
          ["hmacnullmsg 6b6579"], [f"hmacnullmsg {hx(rbytes(rng, 64))}"], [f"hmacnullmsg {hx(rbytes(rng, 65))}"]]
    for _ in range(6):
        h = []
        for _ in range(8):
            k = rng.random()
            if k < 0.3:
                h += [f"update {hx(rbytes(rng, rng.randrange(130)))}", "updatenull", "final"]
            elif k < 0.5:
                h.append(f"hmacnullkey {hx(rbytes(rng, rng.randrange(130)))}")
            elif k < 0.7:
                h.append(f"hmacnullmsg {hx(rbytes(rng, rng.choice([0, 1, 63, 64, 65, 100])))}")
            elif k < 0.85:
                h.append("hashnull")
            else:
                h += ["updatenull", "updatenull", "final"]
        hs.append(h)
    return hs


def count_histories(rng, n=40):
    """white box: preset `count` to a multiple of 64 near the interesting powers of two, feed a few
    bytes, finalize (reaches the upper bytes of the 64-bit length field and the (UInt32) cast of
    count; beyond 2^61 bytes the oracle wraps the bit count like the code); the hasher is then reused for a hashlib-checked digest"""
    hs = []
    bases = [2 ** 32 - 64, 2 ** 32, 2 ** 32 + 64, 2 ** 29 - 64, 2 ** 29, 2 ** 35, 2 ** 40 + 2 ** 33, 2 ** 48, 2 ** 56, 2 ** 56 - 64,
             2 ** 61 - 128, 2 ** 61 - 64, 2 ** 61, 2 ** 63, 2 ** 64 - 64, 2 ** 64 - 64, 2 ** 64 - 128]
    for _ in range(n):
        c = rng.choice(bases) if rng.random() < 0.7 else 64 * rng.randrange(2 ** 58)
        h = [f"setcount {c}"]
        if c >= 2 ** 64 - 128 and rng.random() < 0.8:      # the 64-bit byte counter itself wraps past 2^64 in this history
            h.append(f"update {hx(rbytes(rng, rng.choice([64, 65, 119, 120, 128, rng.randrange(64, 300)])))}")
        for _ in range(rng.randrange(0, 4)):
            h.append(f"update {hx(rbytes(rng, rng.choice([0, 1, 55, 56, 63, 64, 65, rng.randrange(200)])))}")
        m = rbytes(rng, rng.randrange(100))
        h += ["final", f"update {hx(m)}", "final"]
        hs.append(h)
    return hs


def count_hits(hs):
    """input classes reached by the white-box stream (measured on the op lines)"""
    b = {"digest of a message below 2^61 bytes (FIPS range)": 0, "bit length wraps (2^61 <= bytes < 2^64)": 0,
         "byte counter wraps (>= 2^64 bytes)": 0, "(UInt32) cast of count drops set upper bits": 0}
    for h in hs:
        n = None
        for line in h:
            t = line.split()
            if t[0] == "setcount":
                n = int(t[1])
            elif t[0] == "update" and n is not None:
                n += 0 if t[1] == "-" else len(t[1]) // 2
            elif t[0] == "final" and n is not None:
                b["digest of a message below 2^61 bytes (FIPS range)" if n < 2 ** 61 else
                  "bit length wraps (2^61 <= bytes < 2^64)" if n < 2 ** 64 else "byte counter wraps (>= 2^64 bytes)"] += 1
                if n >= 2 ** 32:
                    b["(UInt32) cast of count drops set upper bits"] += 1
                n = None
    return b


def copy_histories(rng, n):
    """a hasher copied mid-stream (copy constructor `fork` / copy assignment `assign`): both objects continue
    independently (`swap` exchanges which one the following ops address), each must give the digest of its own input"""
    hs = []
    for _ in range(n):
        h = []
        for _ in range(rng.randrange(1, 4)):
            pre = rbytes(rng, rng.choice(BOUNDARY + [rng.randrange(200)]))
            a = rbytes(rng, rng.choice([0, 1, 8, 55, 56, 63, 64, 65, rng.randrange(150)]))
            b = rbytes(rng, rng.choice([0, 1, 8, 55, 56, 63, 64, 65, rng.randrange(150)]))
            cut = rng.randrange(len(pre) + 1)
            h += [f"update {hx(pre[:cut])}", f"update {hx(pre[cut:])}", rng.choice(["fork", "fork", "assign"]), f"update {hx(a)}"]
            k = rng.random()
            if k < 0.5:
                h += ["swap", f"update {hx(b)}", "final", "swap", "final"]       # copy finishes first
            elif k < 0.8:
                h += ["final", "swap", f"update {hx(b)}", "final"]               # original finishes first; continue on the copy
            else:
                h += ["swap", f"update {hx(b)}", "fork", "swap", "final", "swap", "final"]   # copy of the copy replaces the original
        hs.append(h)
    return hs


def xform_histories(rng, n, variant):
    """white box: single `Transform` calls on arbitrary chaining values and blocks (not only the reachable ones),
    real code vs the generated Transform of the configuration vs a pure-Python FIPS compression function"""
    hs = []
    pats = [bytes(32), bytes([0xFF]) * 32, bytes(range(32)), b"".join(x.to_bytes(4, "big") for x in _H0)]
    for k in range(n):
        h = [f"variant {variant}"]
        for _ in range(8):
            st = rng.choice(pats) if rng.random() < 0.3 else bytes(rng.getrandbits(8) for _ in range(32))
            h.append(f"xform {hx(st)} {hx(rbytes(rng, 64))}")
        if k % 8 == 0:
            h += ["xform 00 " + "00" * 64, "xform " + "00" * 32 + " 00", "variant x"]
        hs.append(h)
    return hs


def u2_histories(rng, quick, variant="u2"):
    """digest histories for the harness compiled with -D_SHA256_UNROLL2 / -D_SHA256_UNROLL (the model side is the same: the
    configurations are proved equal, `transform_unroll2_eq`, `transform_unroll_eq`)"""
    v = f"variant {variant}"
    hs = [[v] + list(VECTORS)]
    lens = BOUNDARY if quick else list(range(301))
    hs += [[v] + two_way(rng, n) for n in lens]
    hs += [[v] + three_way(rng) for _ in range(40 if quick else 4000)]
    hs += [[v] + long_msg(rng) for _ in range(4 if quick else 100)]
    hs += [[v] + hmac_hist(rng, [0, 1, 63, 64, 65, 131, rng.randrange(201), rng.randrange(201)]) for _ in range(4 if quick else 200)]
    return hs


def histories_for(ctx):
    rng = ctx.rng
    quick = ctx.tier == "quick"
    hs = C.load_corpus(ctx.prop)
    ncorpus = len(hs)
    hs.append(list(VECTORS))
    if quick:
        lens = sorted(set(BOUNDARY) | {n for n in range(301) if (n + ctx.seed) % 2 == 0})
    else:
        lens = list(range(301))
    contents = 1 if quick else 4
    two = [two_way(rng, n) for n in lens for _ in range(contents)]
    if quick:
        lens3 = sorted({0, 1, 55, 56, 63, 64, 65} | {rng.randrange(71) for _ in range(5)})
    else:
        lens3 = list(range(71))
    three_all = [three_way_all(rng, n) for n in lens3]
    three = [three_way(rng) for _ in range(150 if quick else 20000)]
    longs = [long_msg(rng) for _ in range(16 if quick else 600)]
    if quick:
        keylens = sorted({0, 1, 31, 32, 33, 63, 64, 65, 66, 96, 128, 199, 200} | {k for k in range(201) if (k + ctx.seed) % 3 == 0})
    else:
        keylens = list(range(201)) * 20
    hm = [hmac_hist(rng, keylens[i:i + 8]) for i in range(0, len(keylens), 8)] + hmac_edges(rng)
    nsplits = sum(n + 1 for n in lens) * contents
    nsplits3 = sum((n + 1) * (n + 2) // 2 for n in lens3)
    ctx.cov["rule"] = (
        f"corpus ({ncorpus}) + NIST/RFC 4231 vectors + 2-way: for each length n in the scope, one random message, ALL n+1 splits "
        f"update(m[:s]);update(m[s:]);finalize on one reused hasher ({len(lens)} lengths x {contents} contents, {nsplits} splits) + 3-way: ALL splits a<=b of one "
        f"random message for each of {len(lens3)} lengths in 0..70 ({nsplits3} splits) + {len(three)} histories of 12 "
        f"sampled 3-way splits (lengths 0..300, boundary lengths favoured, interleaved reset()/finalize()/hash/spec) + {len(longs)} long messages "
        f"(301..70000 bytes, chunk sizes 1..{MAXLINE}) + hmac for {len(keylens)} keys (lengths {min(keylens)}..{max(keylens)}) with messages 0..300 + key lengths 0,1,31..33,55,56,63..65,96,127..129,200 x message lengths 0,1,55,56,63..65,119,120; content random/all-00/all-ff/all-80; "
        "every digest of the real code is compared with the Lean model AND with Python hashlib/hmac; `spec`/`spechmac` lines compare the Lean FIPS/RFC spec with both; "
        "distinct_nontrivial = distinct (op-kind set, final digest) of histories")
    full = not quick
    ctx.cov["exhaustive"] = full
    ctx.cov["exhaustive_scope"] = (f"lengths {'0..300 (all)' if full else str(len(lens)) + ' of 0..300 (boundary lengths + seed-chosen residue class mod 2)'}"
                                   f" x all 2-way splits: {nsplits} chunkings ({contents} random/pattern message(s) per length); lengths "
                                   f"{'0..70 (all)' if full else str(lens3)} x all 3-way splits: {nsplits3} chunkings")
    cp = copy_histories(rng, 60 if quick else 3000)
    ctx.cov["rule"] += f"; + {len(cp)} histories with the hasher copied mid-stream (fork/assign/swap), both copies continued and finished"
    return hs + two + three_all + three + longs + hm + cp


def branch_hits(hs):
    """which input classes of the property the generated histories reach (measured on the op lines)"""
    b = {"finalize: one padding block (len%64 < 56)": 0, "finalize: wrap-around, two padding blocks (len%64 >= 56)": 0,
         "finalize: len%64 == 0": 0, "finalize: empty message": 0, "update completes a block mid-call": 0,
         "update with empty data": 0, "finalize on reused hasher": 0, "reset() with partial buffer": 0,
         "hmac key < 64": 0, "hmac key == 64": 0, "hmac key > 64": 0, "hmac empty key": 0, "hmac empty message": 0,
         "digests of messages > 300 bytes": 0, "copy mid-stream with partial buffer": 0, "copy mid-stream at a block boundary": 0, "hash() static helper": 0}
    for h in hs:
        n, finals = 0, 0
        for line in h:
            t = line.split()
            if t[0] == "update":
                k = 0 if t[1] == "-" else len(t[1]) // 2
                if k == 0:
                    b["update with empty data"] += 1
                if n % 64 + k >= 64:
                    b["update completes a block mid-call"] += 1
                n += k
            elif t[0] == "final":
                r = n % 64
                b["finalize: one padding block (len%64 < 56)" if r < 56 else "finalize: wrap-around, two padding blocks (len%64 >= 56)"] += 1
                if r == 0 and n:
                    b["finalize: len%64 == 0"] += 1
                if n == 0:
                    b["finalize: empty message"] += 1
                if n > 300:
                    b["digests of messages > 300 bytes"] += 1
                if finals:
                    b["finalize on reused hasher"] += 1
                finals += 1
                n = 0
            elif t[0] == "rst":
                if n % 64:
                    b["reset() with partial buffer"] += 1
                n = 0
            elif t[0] in ("hmac", "spechmac"):
                k = 0 if t[1] == "-" else len(t[1]) // 2
                b["hmac key < 64" if k < 64 else "hmac key == 64" if k == 64 else "hmac key > 64"] += 1
                if k == 0:
                    b["hmac empty key"] += 1
                if t[2] == "-":
                    b["hmac empty message"] += 1
            elif t[0] in ("fork", "assign"):
                b["copy mid-stream with partial buffer" if n % 64 else "copy mid-stream at a block boundary"] += 1
            elif t[0] == "hash":
                b["hash() static helper"] += 1
    return b


def nontrivial(h, out):
    if len(h) < 2 or not out:
        return None
    return (frozenset(l.split()[0] for l in h), out[-1])


def check(ctx):
    ctx.assumptions += [
        "total number of bytes fed to one hasher between resets < 2^61 for the statements that name FIPS (its 2^64-bit limit) and for hmac; streaming_any_length / byte_counter_wraps have no bound (the generators stay far below 2^61, the white-box stream presets count up to 2^64-64 and feeds on past 2^64)",
        "Memory::copy / Memory::zero behave like the documented memcpy / memset on the byte ranges they are given (modelled as the checked block writes storeAt / zeroAt)",
        "the byte ranges passed to update/hash/hmac are valid for their size (the harness passes exactly sized heap copies under ASan); an empty range may be (nullptr, 0) - exercised by the stream 'sha-null-args'",
        "a freshly constructed hasher's buffer content is indeterminate in C++; the model starts with zeros (never read before written: the harness poisons the storage with 0xAA)",
    ]
    proof_ok = C.proof_stage(ctx, PROPS, [DRIVER], gen=gen_sha.gen, leanchecker=(ctx.tier == "thorough"))
    ctx.cov["open_statements"] = open_statements()
    cfg = gen_sha.LAST_STATUS.get("config", "rolled")
    harness = C.build_harness(ctx, "sha", ["sha.cpp", C.REPO / "src/Crypto/Sha256.cpp", C.REPO / "src/Memory.cpp"],
                              extra_flags=[f'-DVERIF_SHA_VARIANT="{cfg}"'])
    if harness is None or not C.driver_path(DRIVER).exists():
        return
    # the configuration the sources select themselves (normally the rolled one) and the further build configurations
    # that -D can still select on top of it
    ctx.cov["configuration_of_the_sources"] = cfg
    src = ["sha.cpp", C.REPO / "src/Crypto/Sha256.cpp", C.REPO / "src/Memory.cpp"]
    harness_u2 = C.build_harness(ctx, "sha_u2", src, extra_flags=["-D_SHA256_UNROLL2", '-DVERIF_SHA_VARIANT="u2"']) if cfg != "u2" else None
    harness_u1 = C.build_harness(ctx, "sha_u1", src, extra_flags=["-D_SHA256_UNROLL", '-DVERIF_SHA_VARIANT="unroll"']) if cfg == "rolled" else None
    try:
        hs = histories_for(ctx)
        if not proof_ok:
            ctx.log("proof stage broken: searching harder for a failing input")
            hs += [two_way(ctx.rng, n) for n in range(301)] + [three_way(ctx.rng) for _ in range(2000)]
            hs += [hmac_hist(ctx.rng, list(range(i, i + 8))) for i in range(0, 200, 8)]
        ops = {}
        for h in hs:
            for l in h:
                ops[l.split()[0]] = ops.get(l.split()[0], 0) + 1
        ctx.cov["op_histogram"] = ops
        ctx.cov["branch_hits"] = branch_hits(hs)
        ctx.cov["samples"] = [" ; ".join(x if len(x) < 120 else x[:100] + "…" for x in h[:6]) for h in (hs[1:2] + hs[3:5] + hs[-2:])]
        # heavy histories first, spread over the workers
        order = sorted(range(len(hs)), key=lambda i: -sum(len(l) for l in hs[i]))
        hs = [hs[i] for i in order]
        parts = [hs[i::C.NCPU * 2] for i in range(C.NCPU * 2)]
        hs = [h for p in parts for h in p]
        diffs = C.differential(ctx, harness, C.driver_path(DRIVER), hs, reference, C.default_eq, nontrivial=nontrivial, timeout=600)
        ctx.log(f"{len(hs)} histories, {ctx.cov['evaluations']} op lines, {len(diffs)} disagreement(s)")
        report(ctx, diffs, harness, C.driver_path(DRIVER), "sha-ops")
        nh = null_histories(ctx.rng)
        for h in nh:
            for l in h:
                ops[l.split()[0]] = ops.get(l.split()[0], 0) + 1
        nd = C.differential(ctx, harness, C.driver_path(DRIVER), nh, reference, C.default_eq, nontrivial=nontrivial, chunk=1)
        ctx.log(f"null-argument stream: {len(nh)} histories, {len(nd)} disagreement(s)")
        report(ctx, nd, harness, C.driver_path(DRIVER), "sha-null-args")
        for n in (0, 1, 55, 56, 63, 64, 65, 119, 120, 200, 1000):       # self-test of the pure-Python oracle
            m = rbytes(ctx.rng, n)
            if py_sha256(m) != hashlib.sha256(m).hexdigest():
                ctx.broken.append("check machinery: py_sha256 disagrees with hashlib")
        ch = count_histories(ctx.rng, 40 if ctx.tier == "quick" else 2000)
        ops["setcount"] = len(ch)
        ctx.cov["branch_hits_count_width"] = count_hits(ch)
        cd = C.differential(ctx, harness, C.driver_path(DRIVER), ch, reference, C.default_eq, nontrivial=nontrivial)
        ctx.log(f"count-width stream (white box): {len(ch)} histories, {len(cd)} disagreement(s)")
        report(ctx, cd, harness, C.driver_path(DRIVER), "sha-count-width")
        xh = xform_histories(ctx.rng, 60 if ctx.tier == "quick" else 3000, cfg)
        ops["xform"] = sum(1 for h in xh for l in h if l.startswith("xform"))
        ops["variant"] = len(xh)
        xd = C.differential(ctx, harness, C.driver_path(DRIVER), xh, reference, C.default_eq, nontrivial=nontrivial)
        ctx.log(f"transform stream (white box): {len(xh)} histories, {len(xd)} disagreement(s)")
        report(ctx, xd, harness, C.driver_path(DRIVER), "sha-transform")
        nu2 = 0
        for hv, variant, flag in ((harness_u2, "u2", "-D_SHA256_UNROLL2"), (harness_u1, "unroll", "-D_SHA256_UNROLL")):
            if hv is None:
                continue
            uh = xform_histories(ctx.rng, 60 if ctx.tier == "quick" else 3000, variant) + u2_histories(ctx.rng, ctx.tier == "quick", variant)
            nu2 += len(uh)
            for h in uh:
                for l in h:
                    ops[l.split()[0]] = ops.get(l.split()[0], 0) + 1
            ud = C.differential(ctx, hv, C.driver_path(DRIVER), uh, reference, C.default_eq, nontrivial=nontrivial)
            ctx.log(f"{flag} build: {len(uh)} histories, {len(ud)} disagreement(s)")
            report(ctx, ud, hv, C.driver_path(DRIVER), "sha-" + variant)
        ctx.cov["op_histogram"] = ops
        ctx.cov["rule"] += (f"; + white-box stream 'sha-transform' ({len(xh)} histories of 8 single Transform calls on arbitrary chaining values/blocks: "
                            f"real code vs generated Transform vs pure-Python FIPS compression); + streams 'sha-u2'/'sha-unroll' ({nu2} histories run on two further harnesses "
                            f"compiled from the same sources with -D_SHA256_UNROLL2 / -D_SHA256_UNROLL: Transform calls against the generated Transform of that configuration, digest/hmac histories against model and hashlib)")
        ctx.cov["rule"] += (f"; + stream 'sha-null-args' ({len(nh)} histories: empty inputs passed as (nullptr, 0)); + white-box stream 'sha-count-width' "
                            f"({len(ch)} histories: count preset to multiples of 64 up to 2^64-64, real code vs model vs a pure-Python FIPS implementation with preset length, self-tested against hashlib)")
    finally:
        for hh in (harness, harness_u2, harness_u1):
            try:
                if hh is not None:
                    hh.unlink()
            except OSError:
                pass


def minimise_args(d, harness, driver, budget=400):
    """argument minimisation after the op-line ddmin of common.shrink_diff: shorten every byte-string
    argument (delta debugging over its bytes) while the same kind of disagreement persists"""
    calls = [0]
    h = list(d.hist[:d.idx + 1])

    def fails(hist):
        calls[0] += 1
        if calls[0] > budget:
            return False
        ds, _, _, _, _ = C.run_batch(harness, driver, [hist], reference, C.default_eq, 60)
        return bool(ds) and ds[0].kind == d.kind

    for li in range(len(h)):
        t = h[li].split()
        for ti in range(1, len(t)):
            if t[ti] == "-":
                continue
            try:
                b = list(unhx(t[ti]))
            except ValueError:
                continue

            def with_arg(bs, li=li, ti=ti):
                tt = h[li].split()
                tt[ti] = hx(bytes(bs))
                return h[:li] + [" ".join(tt)] + h[li + 1:]

            if fails(with_arg([])):
                b = []
            else:
                b = C.ddmin(b, lambda bs: fails(with_arg(bs)))
                if b and fails(with_arg([0] * len(b))):
                    b = [0] * len(b)
            h = with_arg(b)
    ds, _, _, _, _ = C.run_batch(harness, driver, [h], reference, C.default_eq, 60)
    return ds[0] if ds and ds[0].kind == d.kind else d


def report(ctx, diffs, harness, driver, stream_name, max_reports=3):
    """common.report_diffs plus argument minimisation (private variant, see AGENT_GUIDE section 1)"""
    if not diffs:
        return
    concrete = [d for d in diffs if d.kind in ("impl-vs-reference", "impl-crash", "impl-exit")]
    corr = [d for d in diffs if d.kind == "impl-vs-model"]
    seen = set()
    for d in sorted(concrete or corr, key=lambda d: sum(len(l) for l in d.hist[:d.idx + 1]))[:12]:
        if len(seen) >= max_reports:
            break
        d = C.shrink_diff(d, harness, driver, reference, C.default_eq)
        if d.kind != "impl-exit":
            d = minimise_args(d, harness, driver)
        key = "\n".join(d.hist[:d.idx + 1])
        if key in seen:
            continue
        seen.add(key)
        if d.kind == "impl-vs-model":
            ctx.broken.append(f"correspondence {stream_name}: implementation and model differ")
            ctx.violation(f"correspondence stream '{stream_name}' no longer checks (implementation vs Lean model); "
                          f"the independent reference (Python hashlib/hmac) found no failing input on the explored histories",
                          d.text(), no_input=True)
        else:
            ctx.violation(f"{d.kind} on stream '{stream_name}'", d.text(), no_input=False,
                          signature=f"{d.kind}:{d.hist[d.idx].split(' ')[0] if d.hist else ''}")


def open_statements():
    """theorem names announced as OPEN in Props.lean (comment block headed `OPEN:`)"""
    import re
    src = C.module_file(PROPS[0]).read_text()
    out = []
    for m in re.finditer(r"/-\s*OPEN:(.*?)-/", src, re.S):
        out += re.findall(r"theorem\s+(\S+)", m.group(1))
    return out


def replay(ctx, path):
    h = C.parse_replay(path)
    gen_sha.run()
    harness = C.build_harness(ctx, "sha", ["sha.cpp", C.REPO / "src/Crypto/Sha256.cpp", C.REPO / "src/Memory.cpp"])
    C.lake_build([DRIVER])
    if harness is None:
        return
    diffs = C.differential(ctx, harness, C.driver_path(DRIVER), [h], reference, C.default_eq)
    for d in diffs:
        print(d.text())
        ctx.violation(f"replay: {d.kind}", d.text())
    harness.unlink()
