"""C06  String is an independent byte-string value matching a reference model."""
import itertools
import re
import common as C
import gen_str

PROPERTIES = ["C06"]
MANIFEST = {
    "C06": {
        "technique": "Lean 4 proof + tie by translation (the bodies of ~String, detach(copyLength, minCapacity), the copy constructor, operator=, the C string views, operator char*, detach(), resize, reserve, the three append and two prepend overloads, clear, capacity, isEmpty and String::printf are translated from the current String.hpp by tools/gen_str.py and proved equal to the model steps: PropsBody.lean) (copy-on-write heap model of String: reference-count invariant, refinement of every mutating call to independent byte-list values, terminator/foreign-memory invariants, libc search functions against declarative references) + differential correspondence model vs real String.hpp/String.cpp under ASan/UBSan with an independent Python bytes oracle",
        "text": "Theorems over all operation histories of the Lean model of String (lazy-copy heap with reference counts, literal/attached foreign memory, detach with capacity rule); the model is tied to the current String.hpp/String.cpp on every run by executing identical op lines on both (exhaustive small scope incl. self arguments, every small byte string as argument of every query, random histories of up to 60 ops over 4 variables) and by an independent Python `bytes` reference; in addition the C++ bodies of the lazy-copy mechanism (destructor, detach, copy constructor, assignment, C string views, resize/reserve, append) are translated statement by statement on every run and machine-checked to be the model steps the theorems speak about, so a change of one of these bodies breaks a proof instead of having to be found by testing.",
        "note": "Proved in Lean (Props.lean, all for every number of variables, every foreign-memory content and every history): reference counts exact (refcount_exact), refinement of all 39 mutating calls (extension round: + operator+= (String/char), operator+ (String/literal), fromCString x2, fromBool, fromInt/UInt/Int64/UInt64, fromPrintf) to independent byte lists (refines, run_total) on the domain of the specification (calls that branch on chars get specified chars, C-string based calls NUL-free values), independence of copies incl. self arguments (independent), literal/attached memory and guard byte never written (foreign_untouched), owned text always NUL-terminated and the C string view terminated (owned_terminated, cstr_terminated), absence of faults and termination of every mutating call under exactly stated preconditions (no_fault, run_total) and of the comparisons/searches/split (no_fault_queries), (no_fault_queries, no_fault_queries_from), query results against declarative references (find/findLast/findOneOf/findLastOf/compare/compare(n)/compareIgnoreCase/equalsIgnoreCase/trim/split/find(char)/==/startsWith/endsWith/start-index searches/toBool). plus compareIgnoreCase(n), hash, the generated case maps (case_maps), the extended operations with the shared token list and String(ptr,len) operands (xrefines) and own-pointer arguments (prepend_alias_safe, append_alias_reserved, alias_append_faults). token(sep, start) with its new start and the iteration = split law (token_spec, token_iteration_spec), substr clamping stated independently (substr_spec); all theorems assume only the invariant Good, which is closed under every call incl. queries and extended operations (good_closed). Extension round: printf/fromPrintf model both vsnprintf attempts (the truncated first store stays in the block while len is 0; eff_detach_dirty restores the invariant); queries_more_spec (< <= > >=, !=, equalsIgnoreCase(n), isEmpty, split(HashSet)), capacity_spec (capacity() is 0 or >= length(); after reserve(n) >= n), static_helpers_spec (static compare/compareIgnoreCase/length/find... on C strings), attach_alias_spec and alias_attach_printf_cases (attach/printf with a pointer into the String's own storage: sub-range of foreign memory is fine, own exclusively owned block is a fault). Round 2: static_compareN_spec, static_startsWith_literal_spec (static startsWith, ==/!= with a literal), char_classes_spec (isSpace and the <cctype> wrappers for all 256 chars; the C-locale definitions are an assumption), printf_alias_spec, attach_alias_cases, dedupToks_spec, printf_any_output (any directive relative to the libc output). Round 7, tie by translation (PropsBody.lean + PropsBody2.lean, 25 theorems; PropsBody over every state with Sane s = unused next block id, positive counts of live blocks, no dangling data pointer; sane_of_inv: implied by the heap invariant every reachable state has): tools/gen_str.py parses the bodies of ~String(), detach(usize, usize), String(const String&), operator=, operator const char*() (both), operator char*(), detach(), resize, reserve, append x3, prepend x2 in the current String.hpp (small C++ subset; everything else is refused = broken tie) and regenerates Nstd/Generated/StrBody.lean over the hand-written load/store semantics Mach.lean; proved equal to the model steps: dtor_translated (= release), detach_translated (model detach = [convention step expose when growing in place: exposed chars become unspecified, not C++] + translated body), detach_translated_eq (equal outright when copyLength <= length() or reallocating), cview_translated (both bodies), mview_translated (operator char* and detach()), reserve_translated, resize_translated, ctorCopy_translated (slot holds no object), assign_translated (incl. self assignment), appendS_translated (incl. the self argument), appendP_translated (any pointer: read after the detach), appendC_translated, appendAlias_translated. PropsBody2.lean (every state with the heap invariant Inv, an unused temporary slot): prependS_translated (incl. the self argument), prependP_translated (any pointer), printf_translated (String::printf of String.cpp: the retry logic around vsnprintf — sizes passed, success test result >= 0 && (usize)result < capacity, length query, detach(0, result), second attempt, data->len stores, return value — equals the model's printfOut; vsnprintf itself is the stated definition Mach.vsnprintf). clear_translated, capacity_isEmpty_translated (clear(), capacity(), isEmpty()). findC_translated (find(char): the first translated loop — for-loops become fuel-recursive definitions; on states with a specified value and fuel > length() the translated loop returns the pointer to the first match and the model its index). The translator inlines helper member functions (releaseData/createData/terminatedText of the harmless change C06-h6 leave every proof intact). equalS_translated (operator== / != = equalS / notEqualS), startsWith_translated (startsWith / endsWith), both on every state (Memory::compare = Mach.memCompare); ctorCap_translated (explicit String(usize)); fromPrintf_translated (String::fromPrintf of String.cpp = ctorCap + printfTail on the temporary slot: both sites of the vsnprintf retry logic are now translated). ctorEmpty_translated (String()), ctorPtr_translated (String(const char*, usize); initialiser lists data(EXPR) are translated as a leading statement). Hand-translated only (tied by the correspondence run): the case-map loops, trim, split/replace/join, findLast(char), substr (recorded harmless changes rewrite them outside the subset), compare x4, the string searches, token, attach, the literal constructor, String(usize, char), operator+=/+, length() and the inline comparison operators, fromPrintf and every other function of String.cpp (the translator has no loop construct). Not in the Lean model on purpose: scanf and fromDouble (driven relative to the libc formatter only); printf directives beyond %d %u %lld %llu %s %c only relative to the libc output. Precondition stated in the theorems: (ptr,len)/const char* arguments do not point into the storage of the String being modified (String.hpp promises nothing; append with such a pointer is a use-after-free when it reallocates). Case maps, capacity masks, printf/fromPrintf buffers, replace slack, default arguments of trim/substr/split, isSpace bounds, fromBool literals and the hash multiplier are regenerated from the sources by tools/gen_str.py. Trusted: Lean kernel + the three standard axioms; the translator tools/gen_str.py and the statement semantics Mach.lean (usize = Nat without wrap-around, sizeof(char) = 1, C++17 evaluation order of E1[E2] = E3, Atomic::decrement followed by a load of the counter: one thread, header fields of a fresh block read as 0, return values not translated) for the translated bodies; for every other function the hand translation of String.hpp/String.cpp into the model, validated by the correspondence run, not proved; libc (strstr, strpbrk, strchr, memcmp, vsnprintf for %d %u %lld %llu %s %c) as Lean definitions of C-standard behaviour on NUL-terminated inputs; checked-memory abstraction (blocks are separate; uninitialised chars may be copied but not branched on; chars exposed by in-place growth are treated as unspecified); pointer arguments (ptr,len / const char*) do not alias the string's own storage; allocation never fails; one thread (reference counts are plain numbers).",
        "design_ref": "DESIGN.md 3/C06",
    }
}
PROPS = ["Nstd.Str.Props", "Nstd.Str.PropsBody", "Nstd.Str.PropsBody2"]
LEAN_TARGETS = PROPS + ["drv_str"]
DRIVER = "drv_str"
NV = 4
REGS = [bytes([97, 98, 0]), bytes([32, 97, 47, 66, 32, 0]), bytes([97, 98, 47, 32, 48, 0xEE]), bytes([98, 32, 97, 0])]
REGHEX = " ".join(r.hex() for r in REGS)
SOURCES = ["str.cpp", C.REPO / "src/String.cpp", C.REPO / "src/Memory.cpp"]


# ---- reference: one Python byte list per variable (None = unspecified byte) --------------------
def hexs(bs):
    return "-" if not bs else "".join("??" if b is None else f"{b:02x}" for b in bs)


def unhex(t):
    return [] if t == "-" else [int(t[i:i + 2], 16) for i in range(0, len(t), 2)]


def cpart(a):
    """the C string a NUL-terminated view of the bytes shows"""
    return a[:a.index(0)] if 0 in a else a


def lower(b):
    return b + 32 if 65 <= b <= 90 else b


def upper(b):
    return b - 32 if 97 <= b <= 122 else b


def cdiff(a, b, n=None):
    """C comparison of two NUL-terminated strings (first differing unsigned chars)"""
    a, b = cpart(a) + [0], cpart(b) + [0]
    i = 0
    while True:
        if n is not None and i >= n:
            return 0
        if a[i] != b[i] or a[i] == 0:
            return a[i] - b[i]
        i += 1


def sext(b):
    return b + (2 ** 64 - 256) if b >= 128 else b


def fmt_items(items):
    out = []
    for t in items:
        k, body = t[0], t[1:]
        if k == "L" or k == "S":
            out += unhex(body)
        elif k in "DQUW":
            out += list(str(int(body)).encode())
        elif k == "C":
            out.append(int(body))
    return out


MUT_NO_READ = {"new", "lit", "attach", "copy", "ptr", "fill", "cap", "assign", "clear", "detach", "cstr", "resize",
               "reserve", "fillfrom", "appendS", "append", "appendC", "prependS", "prepend", "substr", "join",
               "prependX", "appendX", "printf", "appendA", "prependA",
               "plusEqS", "plusEqC", "plus", "plusLit", "fromCStr", "fromCStrN", "fromBool", "fromInt", "fromInt64",
               "fromUInt", "fromUInt64", "fromPrintf", "substr1", "capacity", "isEmpty", "printfX", "fromDouble"}
STATIC2 = {"sCompare", "sCompareIC", "sFind", "sFindOneOf", "sFindLast", "sFindLastOf", "sCompareN", "sCompareICN"}
STATIC = STATIC2 | {"sLength", "sFindC", "sFindLastC", "sStartsWith", "isSpace", "toLowerC", "toUpperC", "ctype"}
OPERAND_OPS = ("compare", "compareN", "compareIC", "compareICN", "eq", "eqIC", "startsWith", "endsWith",
               "ne", "lt", "le", "gt", "ge", "eqICN")
PUNCT = set(b"!\"#$%&'()*+,-./:;<=>?@[\\]^_`{|}~")


def cfmt(fmt, arg):
    """what vsnprintf gives for a format with one conversion (Python's % operator after dropping the l/ll modifiers);
    arg = <K><value> as in the op line"""
    f = bytes(unhex(fmt)).decode("latin-1")
    f = re.sub(r"(%[-+ 0#]*\d*(?:\.\d+)?)l{1,2}([diuxXo])", r"\1\2", f)
    k, a = arg[0], arg[1:]
    if k in "DQUW": val = int(a)
    elif k == "C": val = chr(int(a))
    elif k == "F": val = float(a)
    else: val = bytes(unhex(a)).decode("latin-1")
    f = f.replace("%u", "%d")
    f = re.sub(r"(%[-+ 0#]*\d*(?:\.\d+)?)u", r"\1d", f)
    return list((f % val).encode("latin-1"))


def cscan_d(cs):
    """sscanf(cs, "%d", &x) on a NUL-free byte list: (result, x)"""
    i = 0
    while i < len(cs) and cs[i] in (32, 9, 10, 11, 12, 13):
        i += 1
    if i == len(cs):
        return -1, 0
    j = i
    if cs[j] in (43, 45):
        j += 1
    k = j
    while k < len(cs) and 48 <= cs[k] <= 57:
        k += 1
    if k == j:
        return 0, 0
    return 1, int(bytes(cs[i:k]).decode())


def px(v, fmt, arg):
    """op line `printfX`: format (text), argument <K><value>, and the text the formatter must produce"""
    fh = hexs(list(fmt.encode("latin-1")))
    return f"printfX {v} {fh} {arg} {hexs(cfmt(fh, arg))}"


def fd(v, x):
    return f"fromDouble {v} {x} {hexs(list(('%f' % float(x)).encode()))}"


DOUBLES = ["0", "1.5", "-2.25", "1e10", "123456.789", "1e-7", "0.125", "-0.5", "1e300", "-1e250", "3.0000005", "1e199", "1e200", "1e203"]


def scan_line(ref, v):
    n, x = cscan_d(cpart(ref.v[v]))
    if not -2 ** 31 <= x < 2 ** 31:
        # sscanf("%d") of a number outside the range of int is undefined (glibc stores the wrapped value): no expectation
        return f"isEmpty {v}"
    return f"scanfD {v} {n} {x}"


def ctype(k, c):
    up, lo, dg = 65 <= c <= 90, 97 <= c <= 122, 48 <= c <= 57
    return {"alnum": up or lo or dg, "alpha": up or lo, "digit": dg, "lower": lo, "upper": up,
            "print": 32 <= c <= 126, "punct": c in PUNCT,
            "xdigit": dg or 65 <= c <= 70 or 97 <= c <= 102}[k]


def dedup(toks):
    out = []
    for x in toks:
        if x not in out:
            out.append(x)
    return out


class Ref:
    def __init__(self):
        self.v = [[] for _ in range(NV)]
        self.toks = []

    def operand(self, t):
        return unhex(t[1:]) if t.startswith("x") else self.v[int(t)]

    def reads_unspecified(self, line):
        """would this op branch on an unspecified byte (the generator never asks for that)"""
        t = line.split()
        op = t[0]
        if op in MUT_NO_READ or op == "reset":
            return False
        if op in STATIC:
            return op == "sStartsWith" and not t[2].startswith("x") and None in self.v[int(t[2])]
        if op == "tokenS" and int(t[4]) > len(self.v[int(t[2])]):
            return True      # token(const char*, start): start <= length() is the caller's duty
        vs = [int(t[1])]
        if op in ("replaceS",):
            vs += [int(t[2]), int(t[3])]
        elif op in ("tokenC", "tokenS"):
            vs = [int(t[2])]
        elif op in OPERAND_OPS and not t[2].startswith("x"):
            vs.append(int(t[2]))
        return any(None in self.v[x] for x in vs)

    def apply(self, line):
        t = line.split()
        op = t[0]
        V = self.v
        res = "-"
        if op == "reset":
            self.__init__()
            return self.obs(res)
        if op in STATIC:
            return self.obs(self.static(t))
        v = int(t[1])
        a = V[v]
        if op == "new" or op == "clear" or op == "cap": V[v] = []
        elif op == "plusEqS": V[v] = a + list(V[int(t[2])])
        elif op == "plusEqC": V[v] = a + [int(t[2])]
        elif op == "plus": V[v] = list(V[int(t[2])]) + list(V[int(t[3])])
        elif op == "plusLit": V[v] = list(V[int(t[2])]) + list(REGS[int(t[3])][:-1])
        elif op == "fromCStr": V[v] = cpart(unhex(t[2]))
        elif op == "fromCStrN": V[v] = unhex(t[2])
        elif op == "fromBool": V[v] = list(b"true" if t[2] == "1" else b"false")
        elif op in ("fromInt", "fromInt64", "fromUInt", "fromUInt64"): V[v] = list(str(int(t[2])).encode())
        elif op == "fromPrintf": V[v] = fmt_items(t[2:])
        elif op == "printfX":
            out = cfmt(t[2], t[3])
            if out != unhex(t[4]): return "bad-line: the expected text of the line differs from the reference"
            V[v] = out
            res = str(len(out))
        elif op == "fromDouble":
            out = list(("%f" % float(t[2])).encode())
            if out != unhex(t[3]): return "bad-line: the expected text of the line differs from the reference"
            V[v] = out
        elif op == "scanfD":
            n, x = cscan_d(cpart(a))
            res = f"{n} {x}"
        elif op == "substr1": V[v] = self.substr(V[int(t[2])], int(t[3]), -1)
        elif op == "attachA":
            if int(t[2]) + int(t[3]) > len(a): return "bad-op"
            V[v] = a[int(t[2]):int(t[2]) + int(t[3])]
        elif op == "printfA":
            out = unhex(t[2]) + cpart(a) + unhex(t[3])
            V[v] = out
            res = str(len(out))
        elif op == "capacity": res = f">={len(a)}"       # policy: 0 (not exclusively owned) or at least length()
        elif op == "isEmpty": res = "1" if not a else "0"
        elif op == "ne": res = "1" if a != self.operand(t[2]) else "0"
        elif op == "eqLit": res = "1" if a == list(REGS[int(t[2])][:-1]) else "0"
        elif op == "neLit": res = "1" if a != list(REGS[int(t[2])][:-1]) else "0"
        elif op in ("lt", "le", "gt", "ge"):
            r = cdiff(a, self.operand(t[2]))
            res = "1" if {"lt": r < 0, "le": r <= 0, "gt": r > 0, "ge": r >= 0}[op] else "0"
        elif op == "eqICN":
            b = self.operand(t[2])
            res = "1" if cdiff([lower(x) for x in a], [lower(x) for x in b], int(t[3])) == 0 else "0"
        elif op == "lit": V[v] = list(REGS[int(t[2])][:-1])
        elif op == "attach": V[v] = list(REGS[int(t[2])][int(t[3]):int(t[3]) + int(t[4])])
        elif op in ("copy", "assign"): V[v] = list(V[int(t[2])])
        elif op == "ptr": V[v] = unhex(t[2])
        elif op == "fill": V[v] = [int(t[3])] * int(t[2])
        elif op in ("detach", "cstr", "reserve"): pass
        elif op == "resize":
            n = int(t[2])
            V[v] = a[:n] + [None] * (n - len(a))
        elif op == "fillfrom":
            i = int(t[2])
            V[v] = a[:i] + [int(t[3])] * max(0, len(a) - i)
        elif op == "appendS": V[v] = a + list(V[int(t[2])])
        elif op == "appendX": V[v] = a + list(self.operand(t[2]))
        elif op == "append": V[v] = a + unhex(t[2])
        elif op == "appendC": V[v] = a + [int(t[2])]
        elif op == "prependS": V[v] = list(V[int(t[2])]) + a
        elif op == "prependX": V[v] = list(self.operand(t[2])) + a
        elif op == "prepend": V[v] = unhex(t[2]) + a
        elif op == "appendA":
            if int(t[2]) + int(t[3]) > len(a): return "bad-op"
            V[v] = a + a[int(t[2]):int(t[2]) + int(t[3])]
        elif op == "prependA":
            if int(t[2]) + int(t[3]) > len(a): return "bad-op"
            V[v] = a[int(t[2]):int(t[2]) + int(t[3])] + a
        elif op == "replaceC":
            x, y = int(t[2]), int(t[3])
            k = len(cpart(a))
            V[v] = [y if b == x else b for b in a[:k]] + a[k:]
        elif op == "lower":
            k = len(cpart(a))
            V[v] = [lower(b) for b in a[:k]] + a[k:]
        elif op == "upper":
            k = len(cpart(a))
            V[v] = [upper(b) for b in a[:k]] + a[k:]
        elif op == "substr":
            V[v] = self.substr(V[int(t[2])], int(t[3]), int(t[4]))
        elif op in ("trim", "trimD"):
            chars = set(unhex(t[2]) if op == "trim" else [32, 9, 13, 10, 11]) | {0}
            i, j = 0, len(a)
            while i < j and a[i] in chars: i += 1
            while j > i and a[j - 1] in chars: j -= 1
            V[v] = a[i:j]
        elif op in ("replaceS", "replaceL"):
            nd = V[int(t[2])] if op == "replaceS" else unhex(t[2])
            rp = V[int(t[3])] if op == "replaceS" else unhex(t[3])
            if nd and 0 not in a and 0 not in nd:
                V[v] = list(bytes(a).replace(bytes(nd), bytes(rp)))
            elif nd:
                V[v] = self.creplace(a, nd, rp)
        elif op in ("tokenC", "tokenS"):
            src = V[int(t[2])]
            seps = [int(t[3])] if op == "tokenC" else unhex(t[3])
            start = int(t[4])
            cs = cpart(src)
            hit = None
            if not (op == "tokenC" and start >= len(src)):
                for i in range(start, len(cs)):
                    if cs[i] in seps:
                        hit = i
                        break
                if hit is None and 0 in seps:
                    hit = len(cs)
            if hit is not None:
                V[v] = self.substr(src, start, hit - start)
                res = str(hit + 1)
            else:
                V[v] = self.substr(src, start, -1)
                res = str(len(src))
        elif op in ("split", "splitD", "splitSet"):
            seps = unhex(t[2])
            skip = True if op == "splitD" else int(t[3]) != 0
            cs = cpart(a)
            toks, cur = [], []
            for b in cs:
                if b in seps:
                    toks.append(cur)
                    cur = []
                else:
                    cur.append(b)
            toks.append(cur + a[len(cs):])
            if skip:
                toks = [x for x in toks if x]
            if op == "splitSet":
                toks = dedup(toks)
            else:
                self.toks = toks
            res = " ".join([str(len(toks))] + [hexs(x) for x in toks])
        elif op == "join":
            out = []
            for i, x in enumerate(self.toks):
                if i: out.append(int(t[2]))
                out += x
            V[v] = out
        elif op == "printf":
            out = fmt_items(t[2:])
            V[v] = out
            res = str(len(out))
        elif op in ("compare", "compareN", "compareIC", "compareICN"):
            b = self.operand(t[2])
            n = int(t[3]) if op.endswith("N") else None
            if "IC" in op:
                res = str(cdiff([lower(x) for x in a], [lower(x) for x in b], n))
            else:
                res = str(cdiff(a, b, n))
        elif op == "eq": res = "1" if a == self.operand(t[2]) else "0"
        elif op == "eqIC":
            b = self.operand(t[2])
            res = "1" if len(a) == len(b) and cdiff([lower(x) for x in a], [lower(x) for x in b]) == 0 else "0"
        elif op == "startsWith":
            b = self.operand(t[2])
            res = "1" if a[:len(b)] == b else "0"
        elif op == "endsWith":
            b = self.operand(t[2])
            res = "1" if len(a) >= len(b) and a[len(a) - len(b):] == b else "0"
        elif op == "findC": res = str(bytes(a).find(bytes([int(t[2])])))
        elif op == "findLastC": res = str(bytes(a).rfind(bytes([int(t[2])])))
        elif op == "findCFrom":
            c, st = int(t[2]), int(t[3])
            cs = cpart(a)
            if st >= len(a): res = "-1"
            elif c == 0: res = str(max(st, len(cs)) if st <= len(cs) else st + len(cpart(a[st:])))
            else: res = str(bytes(cpart(a[st:])).find(bytes([c])) + st if c in cpart(a[st:]) else -1)
        elif op in ("findS", "findSFrom", "findOneOf", "findOneOfFrom", "findLastS", "findLastOf"):
            nd = unhex(t[2])
            st = int(t[3]) if op.endswith("From") else 0
            if op.endswith("From") and st >= len(a):
                res = "-1"
            else:
                h = bytes(cpart(a[st:]))
                if op.startswith("findS"): r = h.find(bytes(nd))
                elif op == "findLastS": r = h.rfind(bytes(nd))
                elif op.startswith("findOneOf"): r = min([i for i, b in enumerate(h) if b in nd], default=-1)
                else: r = max([i for i, b in enumerate(h) if b in nd], default=-1)
                res = str(r + st if r >= 0 else -1)
        elif op == "toBool":
            cs = bytes(cpart(a))
            m = re.fullmatch(rb"(0*)\.(0*)", cs)
            false = (not a or (len(a) == 5 and cs.lower() == b"false") or a == [48]
                     or (m is not None and (len(m.group(2)) > 0 or a[0] == 48)))
            res = "0" if false else "1"
        elif op == "hash":
            n = len(a)
            s = a + [0]
            M = 2 ** 64
            h = n
            h = (h * 16807) % M
            h ^= sext(s[0])
            h = (h * 16807) % M
            h ^= sext(s[n // 2])
            h = (h * 16807) % M
            h ^= sext(s[n - (1 if n else 0)])
            res = str(h)
        else:
            return "bad-op"
        return self.obs(res)

    def static(self, t):
        op = t[0]
        if op in ("isSpace", "toLowerC", "toUpperC"):
            c = int(t[1])
            if op == "isSpace": return "1" if (9 <= c <= 13 or c == 32) else "0"
            return str(lower(c) if op == "toLowerC" else upper(c))
        if op == "ctype":
            return "1" if ctype(t[1], int(t[2])) else "0"
        a = unhex(t[1])
        if op == "sLength": return str(len(a))
        if op == "sFindC": return str(bytes(a).find(bytes([int(t[2])])) if int(t[2]) else -1)
        if op == "sFindLastC": return str(bytes(a).rfind(bytes([int(t[2])])) if int(t[2]) else -1)
        if op == "sStartsWith":
            b = self.operand(t[2])
            ain = a + [0]
            for i in range(len(b)):
                if ain[i] == 0 or ain[i] != b[i]:
                    return "1" if ain[i] == b[i] else "0"
            return "1"
        b = unhex(t[2])
        if op == "sCompare": return str(cdiff(a, b))
        if op == "sCompareN": return str(cdiff(a, b, int(t[3])))
        if op == "sCompareIC": return str(cdiff([lower(x) for x in a], [lower(x) for x in b]))
        if op == "sCompareICN": return str(cdiff([lower(x) for x in a], [lower(x) for x in b], int(t[3])))
        if op == "sFind": return str(bytes(a).find(bytes(b)))
        if op == "sFindLast": return str(bytes(a).rfind(bytes(b)))
        if op == "sFindOneOf": return str(min([i for i, x in enumerate(a) if x in b], default=-1))
        return str(max([i for i, x in enumerate(a) if x in b], default=-1))

    @staticmethod
    def substr(a, start, length):
        n = len(a)
        if start < 0: start = max(0, n + start)
        elif start > n: start = n
        end = min(n, start + length) if length >= 0 else n
        return list(a[start:end])

    @staticmethod
    def creplace(a, nd, rp):
        """replace on the C string part (content with an embedded NUL)"""
        cs = cpart(a)
        nd = cpart(nd)
        if not nd or bytes(cs).find(bytes(nd)) < 0:
            return a
        out, p = [], 0
        while True:
            m = bytes(cs).find(bytes(nd), p)
            if m < 0:
                return out + a[p:]
            out += cs[p:m] + rp
            p = m + len(nd)

    def obs(self, res):
        return res + " ; " + " | ".join(f"{len(x)} {hexs(x)}" for x in self.v)


def reference(hist):
    r = Ref()
    return [r.apply(l) for l in hist]


def ref_eq(impl, ref):
    """impl `res ; len bytes term owned | ... # regions`  against the reference `res ; len bytes | ...`"""
    if ref == "bad-op" or impl == "bad-op":
        return impl == ref
    if " ; " not in impl or " # " not in impl:
        return False
    ires, irest = impl.split(" ; ", 1)
    rres, rrest = ref.split(" ; ", 1)
    if rres.startswith(">="):
        if not ires.isdigit() or not (int(ires) == 0 or int(ires) >= int(rres[2:])):
            return False
    elif ires != rres:
        return False
    ivars, iregs = irest.split(" # ")
    if iregs != REGHEX:
        return False                      # literal / attached memory or its guard byte changed
    iv, rv = ivars.split(" | "), rrest.split(" | ")
    if len(iv) != len(rv):
        return False
    for a, b in zip(iv, rv):
        ta, tb = a.split(" "), b.split(" ")
        if len(ta) != 4 or ta[0] != tb[0] or not C.wildcard_eq(ta[1], tb[1]):
            return False
        if ta[3] == "1" and ta[2] != "00":    # an owned block is NUL-terminated at length()
            return False
    return True


reference.eq = ref_eq


def sanitize(hist):
    """drop the op lines that would branch on unspecified bytes (after a growing resize)"""
    r = Ref()
    out = []
    for l in hist:
        if r.reads_unspecified(l):
            continue
        r.apply(l)
        out.append(l)
    return out


# ---- generators -----------------------------------------------------------------------------------
ALPHA = [0x61, 0x62, 0x2f, 0x20, 0x80]


def small_strings(maxlen):
    out = []
    for n in range(maxlen + 1):
        for p in itertools.product(ALPHA, repeat=n):
            out.append(hexs(list(p)))
    return out


def rand_bytes(rng, n, alpha=None):
    alpha = alpha or [0x61, 0x62, 0x41, 0x2f, 0x20, 0x80, 0x30, 0x2e, 0x78]
    return hexs([rng.choice(alpha) for _ in range(n)])


CORE_OPS = [
    "lit 0 0", "attach 0 2 0 4", "attach 0 3 0 3", "ptr 0 616261", "ptr 0 61622f20", "assign 0 1", "assign 1 0", "assign 0 0",
    "copy 2 0", "clear 0", "cstr 0", "resize 0 1", "resize 0 5", "reserve 0 8", "appendS 0 0", "appendS 0 1", "append 0 2f206180",
    "prependS 0 0", "prependS 0 1", "prepend 0 20", "replaceC 0 97 47", "substr 1 0 1 2", "trim 0 2061", "replaceS 0 0 1",
    "replaceS 0 1 0", "replaceL 0 61 6261",
]
MORE_OPS = [
    "new 0", "cap 0 8", "fill 0 3 98", "detach 0", "fillfrom 0 0 66", "appendC 0 47", "upper 0", "lower 0", "substr 0 0 -2 -1",
    "tokenC 1 0 47 0", "tokenS 1 0 2f20 1", "split 0 2f 0", "split 0 20 1", "join 0 32", "join 1 47", "replaceS 0 1 1", "replaceS 0 0 0",
    "printf 0 L61 D-5", "assign 2 0", "appendS 1 0", "prependS 1 0", "clear 1", "attach 1 2 1 2", "lit 1 1", "trim 1 20",
    "compare 0 1", "eq 0 1", "findLastS 0 -", "hash 0", "toBool 0", "prependA 0 0 1", "prependA 0 1 2",
    "plusEqS 0 0", "plusEqS 0 1", "plusEqC 0 32", "plus 0 0 1", "plus 1 0 0", "plusLit 0 0 0", "fromCStr 0 612f", "fromBool 1 0",
    "fromInt 0 -12", "fromPrintf 0 L2f S6162", "trimD 0", "substr1 1 0 1", "capacity 0", "splitSet 0 2f 0",
    px(0, "%4x|", "U171"), fd(1, "1.5"), "attach 0 2 1 0",
]


OLD_MORE = 32      # MORE_OPS[:OLD_MORE] = the ops of scope B before the extension rounds


def exhaustive(ops, depth):
    return [sanitize(list(p)) for d in range(1, depth + 1) for p in itertools.product(ops, repeat=d)]


QUERY1 = ["compare", "compareIC", "eq", "eqIC", "startsWith", "endsWith"]
QUERYS = ["findS", "findOneOf", "findLastS", "findLastOf", "trim", "split"]


def query_histories(subj_len, arg_len, holders):
    """every small byte string as argument of every query op, on every small subject"""
    hs = []
    args = small_strings(arg_len)
    chunks = [args[i:i + 10] for i in range(0, len(args), 10)]
    for subj in small_strings(subj_len):
        n = len(unhex(subj))
        for hold in holders:
            pre = [f"ptr 0 {subj}"]
            target = 0
            if hold == "shared":
                pre += ["assign 1 0"]
            elif hold == "copy":
                pre += ["copy 1 0", "new 0"]
                target = 1
            for chunk in chunks:
                h = list(pre)
                for a in chunk:
                    for q in QUERY1:
                        h.append(f"{q} {target} x{a}")
                    for q in ("ne", "lt", "le", "gt", "ge"):
                        h.append(f"{q} {target} x{a}")
                    h.append(f"eqICN {target} x{a} {max(1, n)}")
                    if subj != "-" or True:
                        h.append(f"sStartsWith {subj} x{a}")
                    if hold == holders[0]:      # the static helpers do not depend on who holds the subject
                        for q in sorted(STATIC2 - {"sCompareN", "sCompareICN"}):
                            h.append(f"{q} {subj} {a}")
                        h.append(f"sCompareN {subj} {a} {len(unhex(a))}")
                        h.append(f"sCompareICN {subj} {a} {max(0, n - 1)}")
                    h.append(f"splitSet {target} {a} 0")
                    h.append(f"compareN {target} x{a} {len(unhex(a))}")
                    h.append(f"compareICN {target} x{a} {max(0, n - 1)}")
                    for q in QUERYS:
                        if q == "trim":
                            h += [f"assign 2 {target}", f"trim 2 {a}"]
                        elif q == "split":
                            h += [f"split {target} {a} 0", f"split {target} {a} 1"]
                        else:
                            h.append(f"{q} {target} {a}")
                    for st in range(0, n + 1):
                        h.append(f"findSFrom {target} {a} {st}")
                        h.append(f"findOneOfFrom {target} {a} {st}")
                        h.append(f"tokenS 2 {target} {a} {st}")
                    h += [f"assign 2 {target}", f"replaceL 2 {a} 2f2f", f"assign 2 {target}", f"replaceL 2 6261 {a}"]
                hs.append(h)
            h = list(pre)
            for c in ALPHA + [0x41]:
                h += [f"findC {target} {c}", f"findLastC {target} {c}"]
                for st in range(0, n + 2):
                    h += [f"findCFrom {target} {c} {st}", f"tokenC 2 {target} {c} {st}"]
                h += [f"assign 2 {target}", f"replaceC 2 {c} 98"]
            for c in ALPHA + [0x41, 0]:
                h += [f"sFindC {subj} {c}", f"sFindLastC {subj} {c}"]
            h += [f"hash {target}", f"toBool {target}", f"assign 2 {target}", "upper 2", "lower 2", f"sLength {subj}",
                  f"fromCStr 2 {subj}", f"fromCStrN 2 {subj}", f"isEmpty {target}", f"capacity {target}", f"eqLit {target} 0",
                  f"neLit {target} 0", f"plus 2 {target} {target}", f"plusLit 2 {target} 1", f"assign 2 {target}", "trimD 2",
                  f"splitD {target} 2f20", f"substr1 2 {target} 1", f"substr1 2 {target} -1"]
            hs.append(h)
    return hs


def foreign_query_histories(arg_len):
    """the same queries on literal / attached (unterminated) subjects: every sub-range of the regions"""
    hs = []
    args = small_strings(arg_len)
    for r in range(4):
        size = len(REGS[r]) - 1
        for off in range(size + 1):
            for ln in range(size - off + 1):
                for a in args:
                    for q in QUERY1 + ["findS", "findOneOf", "findLastS", "findLastOf", "trim", "compareN", "replaceL", "tokenS", "findSFrom"]:
                        h = [f"attach 0 {r} {off} {ln}"]
                        if q in QUERY1: h.append(f"{q} 0 x{a}")
                        elif q == "compareN": h.append(f"compareN 0 x{a} 2")
                        elif q == "replaceL": h.append(f"replaceL 0 {a} 78")
                        elif q == "tokenS": h.append(f"tokenS 1 0 {a} {ln // 2}")
                        elif q == "findSFrom": h.append(f"findSFrom 0 {a} {ln // 2}")
                        else: h.append(f"{q} 0 {a}")
                        hs.append(h)
                for q in ["hash 0", "toBool 0", "upper 0", "lower 0", "replaceC 0 97 98", "findCFrom 0 97 1", "tokenC 1 0 47 0",
                          "split 0 2f20 0", "cstr 0", "detach 0", "compare 0 0", "eq 0 0", "appendS 0 0", "prependS 0 0", "assign 0 0",
                          "replaceS 0 0 0", "findC 0 32", "findLastC 0 97", "resize 0 1", "reserve 0 9", "clear 0", "printf 0 S6162 C47"]:
                    hs.append([f"attach 0 {r} {off} {ln}", q])
    return hs


def gen_history(rng, length):
    """structured random history over 4 variables; never branches on unspecified bytes"""
    r = Ref()
    h = []
    sizes = [0, 0, 1, 1, 2, 3, 4, 5, 7, 8, 9, 12]
    tries = 0
    while len(h) < length and tries < length * 4:
        tries += 1
        v, w, w2 = rng.randrange(NV), rng.randrange(NV), rng.randrange(NV)
        if rng.random() < 0.25:
            w = v
        n = rng.choice(sizes)
        ln = len(r.v[v])
        k = rng.random()
        arg = rand_bytes(rng, rng.choice([0, 1, 1, 2, 3]))
        x = (str(w) if rng.random() < 0.6 else "x" + rand_bytes(rng, rng.choice([0, 1, 2, 3, 5])))
        if k < 0.04: op = f"lit {v} {rng.randrange(2)}"
        elif k < 0.09:
            rg = rng.randrange(4)
            size = len(REGS[rg]) - 1
            off = rng.randrange(size + 1)
            op = f"attach {v} {rg} {off} {rng.randrange(size - off + 1)}"
        elif k < 0.13: op = f"ptr {v} {rand_bytes(rng, n)}"
        elif k < 0.14: op = f"fill {v} {n} {rng.choice([97, 48, 32])}"
        elif k < 0.15: op = f"cap {v} {n}"
        elif k < 0.16: op = f"new {v}"
        elif k < 0.18 and v != w: op = f"copy {v} {w}"
        elif k < 0.25: op = f"assign {v} {w}"
        elif k < 0.27: op = f"clear {v}"
        elif k < 0.29: op = f"detach {v}"
        elif k < 0.32: op = f"cstr {v}"
        elif k < 0.36: op = f"resize {v} {rng.randrange(ln + 1)}"
        elif k < 0.38:
            h.append(f"resize {v} {ln + n}")
            r.apply(h[-1])
            op = f"fillfrom {v} {ln} {rng.choice([97, 122, 32])}"
        elif k < 0.385: op = f"resize {v} {ln + n}"
        elif k < 0.41: op = f"reserve {v} {rng.choice(sizes + [20, 40])}"
        elif k < 0.46: op = f"appendS {v} {w}"
        elif k < 0.50: op = f"append {v} {rand_bytes(rng, n)}"
        elif k < 0.52: op = f"appendC {v} {rng.choice([97, 47, 32, 128, 48])}"
        elif k < 0.56: op = f"prependS {v} {w}"
        elif k < 0.59: op = f"prepend {v} {rand_bytes(rng, n)}"
        elif k < 0.592:
            o = rng.randrange(ln + 1)
            op = f"prependA {v} {o} {rng.randrange(ln - o + 1)}"
        elif k < 0.596:
            # append with a pointer into the string itself is only defined when nothing is reallocated
            o = rng.randrange(ln + 1)
            n2 = rng.randrange(ln - o + 1)
            h.append(f"reserve {v} {ln + n2 + rng.choice([0, 0, 1, 5])}")
            r.apply(h[-1])
            op = f"appendA {v} {o} {n2}"
        elif k < 0.60: op = f"prependX {v} {x}"
        elif k < 0.61: op = f"appendX {v} {x}"
        elif k < 0.63: op = f"replaceC {v} {rng.choice([97, 98, 47, 32])} {rng.choice([97, 47, 120])}"
        elif k < 0.65: op = f"lower {v}"
        elif k < 0.67: op = f"upper {v}"
        elif k < 0.71: op = f"substr {v} {w} {rng.randrange(-4, ln + 3)} {rng.randrange(-1, 6)}"
        elif k < 0.74: op = f"trim {v} {rand_bytes(rng, rng.choice([1, 2, 3]), [0x20, 0x61, 0x2f, 0x2e])}"
        elif k < 0.76: op = f"tokenC {v} {w} {rng.choice([47, 32, 97])} {rng.randrange(len(r.v[w]) + 2)}"
        elif k < 0.78: op = f"tokenS {v} {w} {rand_bytes(rng, rng.choice([0, 1, 2]), [0x20, 0x2f, 0x61])} {rng.randrange(len(r.v[w]) + 1)}"
        elif k < 0.80: op = f"split {v} {rand_bytes(rng, rng.choice([0, 1, 2]), [0x20, 0x2f, 0x61])} {rng.randrange(2)}"
        elif k < 0.82: op = f"join {v} {rng.choice([47, 32, 44])}"
        elif k < 0.85: op = f"replaceS {v} {w} {w2}"
        elif k < 0.87: op = f"replaceL {v} {rand_bytes(rng, rng.choice([0, 1, 1, 2]), [0x61, 0x62, 0x2f, 0x20])} {rand_bytes(rng, rng.choice([0, 1, 2, 3]))}"
        elif k < 0.885:
            items = []
            for _ in range(rng.randrange(1, 4)):
                items.append("L" + rand_bytes(rng, rng.randrange(0, 3)))
            nd = 0
            out = []
            for it in items:
                out.append(it)
                if nd < 2 and rng.random() < 0.8:
                    nd += 1
                    kind = rng.choice("DUQWSC")
                    if kind == "D": out.append(f"D{rng.choice([0, -1, 7, -2147483648, 2147483647, rng.randrange(-10**6, 10**6)])}")
                    elif kind == "U": out.append(f"U{rng.choice([0, 4294967295, rng.randrange(10**6)])}")
                    elif kind == "Q": out.append(f"Q{rng.choice([0, -9223372036854775808, 9223372036854775807, rng.randrange(-10**12, 10**12)])}")
                    elif kind == "W": out.append(f"W{rng.choice([0, 18446744073709551615, rng.randrange(10**15)])}")
                    elif kind == "S": out.append("S" + rand_bytes(rng, rng.choice([0, 1, 3, 8, 190, 199, 200, 201, 203, 204, 260]), [0x61, 0x62, 0x20, 0x80]))
                    else: out.append(f"C{rng.choice([97, 47, 255, 1])}")
            op = f"printf {v} " + " ".join(out)
        elif k < 0.895:
            j = rng.randrange(12)
            if j == 0: op = f"plusEqS {v} {w}"
            elif j == 1: op = f"plusEqC {v} {rng.choice([97, 47, 0x80])}"
            elif j == 2: op = f"plus {v} {w} {w2}"
            elif j == 3: op = f"plusLit {v} {w} {rng.randrange(2)}"
            elif j == 4: op = f"fromCStr {v} {rand_bytes(rng, n)}"
            elif j == 5: op = f"fromCStrN {v} {rand_bytes(rng, n)}"
            elif j == 6: op = f"fromBool {v} {rng.randrange(2)}"
            elif j == 7: op = rng.choice([f"fromInt {v} {rng.choice([0, -1, -2147483648, 2147483647, rng.randrange(-10**6, 10**6)])}",
                                          f"fromInt64 {v} {rng.choice([0, -9223372036854775808, 9223372036854775807, rng.randrange(-10**12, 10**12)])}",
                                          f"fromUInt {v} {rng.choice([0, 4294967295, rng.randrange(10**6)])}",
                                          f"fromUInt64 {v} {rng.choice([0, 18446744073709551615, rng.randrange(10**15)])}"])
            elif j == 8: op = f"fromPrintf {v} L{rand_bytes(rng, 2)} S{rand_bytes(rng, rng.choice([0, 3, 197, 198, 199, 200, 201, 260]), [0x61, 0x62, 0x20])} D{rng.randrange(-99, 99)}"
            elif j == 9: op = rng.choice([f"trimD {v}", f"substr1 {v} {w} {rng.randrange(-4, ln + 3)}", f"splitD {v} {arg}"])
            elif j == 10: op = rng.choice([f"capacity {v}", f"isEmpty {v}", f"eqLit {v} {rng.randrange(2)}", f"neLit {v} {rng.randrange(2)}",
                                           f"splitSet {v} {arg} {rng.randrange(2)}"])
            elif j == 11 and rng.random() < 0.5:
                wdt = rng.choice([1, 3, 8, 197, 199, 200, 201, 203, 204, 207, 208, 260])
                op = rng.choice([px(v, f"%{wdt}d", f"D{rng.randrange(-999, 999)}"), px(v, f"%-{wdt}x|", f"U{rng.randrange(10**6)}"),
                                 px(v, f"%.{rng.randrange(4)}f", f"F{rng.choice(DOUBLES[:8])}"), fd(v, rng.choice(DOUBLES)),
                                 px(v, f"%{wdt}s", "S" + rand_bytes(rng, rng.choice([0, 2, 5]), [0x61, 0x62, 0x20]))]
                                + ([scan_line(r, v)] if None not in r.v[v] else []))
            else: op = rng.choice([f"{rng.choice(['ne', 'lt', 'le', 'gt', 'ge'])} {v} {x}", f"eqICN {v} {x} {rng.randrange(0, 6)}",
                                   f"sStartsWith {rand_bytes(rng, rng.choice([0, 1, 2, 3]))} {x}"])
        elif k < 0.905: op = f"{rng.choice(QUERY1)} {v} {x}"
        elif k < 0.915: op = f"{rng.choice(['compareN', 'compareICN'])} {v} {x} {rng.randrange(0, 6)}"
        elif k < 0.93: op = f"{rng.choice(['findC', 'findLastC'])} {v} {rng.choice([97, 98, 47, 32, 128, 65])}"
        elif k < 0.94: op = f"findCFrom {v} {rng.choice([97, 98, 47, 32, 128])} {rng.randrange(ln + 2)}"
        elif k < 0.965: op = f"{rng.choice(['findS', 'findOneOf', 'findLastS', 'findLastOf'])} {v} {arg}"
        elif k < 0.975: op = f"{rng.choice(['findSFrom', 'findOneOfFrom'])} {v} {arg} {rng.randrange(ln + 2)}"
        elif k < 0.99: op = f"toBool {v}"
        else: op = f"hash {v}"
        if r.reads_unspecified(op):
            continue
        if sum(len(x) for x in r.v) > 3000:
            op = f"clear {v}"
        r.apply(op)
        h.append(op)
    return h


BOOLS = ["-", "30", "31", "3030", "2e", "302e", "2e30", "302e30", "30302e3030", "302e3031", "66616c7365", "46414c5345", "46616c7365",
         "66616c736578", "74727565", "61", "2e3061", "302e", "2e2e", "20", "30303030302e"]


def special_histories():
    hs = [[f"ptr 0 {b}", "toBool 0", "assign 1 0", "toBool 1"] for b in BOOLS]
    allbytes = hexs(list(range(1, 256)))
    hs.append([f"ptr 0 {allbytes}", "assign 1 0", "upper 0", "lower 1", "assign 2 0", "lower 2", "compareIC 0 1", "eqIC 0 1", "hash 0"])
    for n in (195, 199, 200, 201, 202, 203, 204, 207, 208, 300):
        s = hexs([0x61] * n)
        hs.append([f"printf 0 S{s}", "printf 0 L61 D1", f"ptr 1 {s}", f"printf 1 S{s} C47", "cap 2 250", f"printf 2 S{s} C47", "assign 3 2", f"printf 2 S{s} C47"])
    for n in (0, 1, 197, 198, 199, 200, 201, 202, 203, 204, 205, 260, 450):
        t = hexs([0x61] * n)
        hs.append([f"fromPrintf 0 S{t}", "capacity 0", f"fromPrintf 1 S{t} C47", "assign 2 1", f"fromPrintf 1 L78 S{t}", "capacity 1",
                   f"ptr 3 {t if n else '-'}", "assign 0 3", f"printf 3 S{t} C47", "capacity 3", f"printf 3 L78"])
    hs.append(["fromInt 0 0", "fromInt 1 -2147483648", "fromInt 2 2147483647", "fromInt64 3 -9223372036854775808", "plus 0 1 2",
               "fromInt64 0 9223372036854775807", "fromUInt 1 4294967295", "fromUInt64 2 18446744073709551615", "fromUInt 3 0",
               "fromBool 0 1", "fromBool 1 0", "toBool 0", "toBool 1", "plus 2 0 1", "eqLit 0 0", "compare 0 1"])
    chars = []
    for c in range(256):
        chars += [f"isSpace {c}", f"toLowerC {c}", f"toUpperC {c}"] + [f"ctype {k} {c}" for k in
                  ("alnum", "alpha", "digit", "lower", "print", "punct", "upper", "xdigit")]
    hs += [chars[i:i + 704] for i in range(0, len(chars), 704)]
    # printf relative to the libc formatter: flags, widths, precisions, further conversions; result lengths swept over
    # the first buffer and the capacity by the field width
    fx = [("%5d|", "D42"), ("%-5d|", "D-42"), ("%05d", "D-42"), ("%+d", "D7"), ("% d", "D7"), ("%x", "U255"), ("%X", "U48879"), ("%#x", "U255"),
          ("%o", "U8"), ("%08.3f", "F3.14159"), ("%f", "F2.5"), ("%.0f", "F0.5"), ("%.2f", "F0.125"), ("%e", "F12345.678"), ("%g", "F0.0001"),
          ("%G", "F1e20"), ("%10.3f|", "F-1.5"), ("%.3s|", "S61626364"), ("%6s|", "S6162"), ("%-6s|", "S6162"), ("%c%%", "C47"), ("100%%%d", "D3"),
          ("%lld", "Q-9223372036854775808"), ("%llx", "W18446744073709551615"), ("%llu", "W0"), ("%i", "D-1"), ("%3c|", "C97"), ("%f", "F1e300")]
    hs.append([px(i % 4, f, a) for i, (f, a) in enumerate(fx)] + ["plus 0 1 2", px(0, "%300.1f", "F1.25"), "capacity 0"])
    for n in (1, 150, 198, 199, 200, 201, 202, 203, 204, 205, 206, 207, 208, 209, 400):
        hs.append([px(0, f"%{n}d", "D-7"), "capacity 0", px(0, f"%-{n}s", "S6162"), "ptr 1 6162", "assign 2 1", px(1, f"%{n}x", "U255"),
                   "cap 3 204", px(3, f"%0{n}d", "D5"), "capacity 3", px(3, "%d", "D1"), "capacity 3"])
    hs.append([fd(i % 4, x) for i, x in enumerate(DOUBLES)] + ["capacity 1", "plus 0 1 2"])
    for subj in ("3132", "202d3778", "616263", "-", "2b35", "2020", "2d", "30303039", "0931320a", "2d2d31"):
        r = Ref()
        h = [f"ptr 0 {subj}", "assign 1 0"]
        for l in h: r.apply(l)
        hs.append(h + [scan_line(r, 0), scan_line(r, 1)])
    for rg, off, ln in ((2, 4, 1), (2, 0, 5), (3, 0, 3), (1, 0, 5), (2, 3, 2), (0, 0, 2)):
        r = Ref()
        h = [f"attach 0 {rg} {off} {ln}"]
        r.apply(h[0])
        hs.append(h + [scan_line(r, 0), "cstr 0", scan_line(r, 0)])
    # replace with self-overlapping needles (matches are taken left to right, non-overlapping)
    for subj, nd in (("616161", "6161"), ("61616161", "6161"), ("6161616161", "616161"), ("6162616261", "616261"),
                     ("61626162616261", "616261"), ("612f612f61", "612f61"), ("2f2f2f", "2f2f")):
        for rp in ("-", "78", nd, "78797a7879"):
            hs.append([f"ptr 0 {subj}", "assign 1 0", f"replaceL 0 {nd} {rp}", f"ptr 2 {nd}", f"ptr 3 {rp}", "replaceS 1 2 3",
                       "eq 0 1", "capacity 0"])
    # copies of an EMPTY non-owned string (descriptor of 0 chars of a literal / attached range, or the empty singleton),
    # then the SOURCE is re-attached / reassigned / destroyed, then the copies are read and modified
    for r in range(4):
        for off in (0, 1, len(REGS[r]) - 1):
            for change in (f"attach 0 {(r + 1) % 4} 0 2", f"attach 0 {r} 0 {len(REGS[r]) - 1}", "lit 0 1", "ptr 0 7879", "new 0",
                           "append 0 7879", "printf 0 L78 D1"):
                hs.append([f"attach 0 {r} {off} 0", "copy 1 0", "assign 2 0", "plus 3 0 0", change, "cstr 1", "isEmpty 1", "eq 1 2",
                           "appendC 1 47", "appendS 2 0", "capacity 3", change, "compare 1 2"])
    for change in ("attach 0 2 0 4", "lit 0 0", "ptr 0 78"):
        hs.append(["new 0", "copy 1 0", change, "isEmpty 1", "appendC 1 47"])
        hs.append(["lit 0 0", "attachA 0 2 0", "copy 1 0", change, "isEmpty 1", "appendC 1 47"])
    hs += alias_histories()
    return hs


def alias_histories():
    """own-pointer arguments of attach/printf where the library's behaviour is defined: the pointer points into memory
    the String never owned (literal, attached range with a NUL behind it) or the block stays alive (shared) /
    the string is empty"""
    hs = []
    for r in (0, 1, 3):
        size = len(REGS[r]) - 1
        for off in range(size + 1):
            ln = size - off                      # the range ends at the NUL: the C string view does not detach
            pre = [f"attach 0 {r} {off} {ln}"]
            for o in range(ln + 1):
                for n in range(ln - o + 1):
                    hs.append(pre + [f"attachA 0 {o} {n}", "cstr 0", "appendC 0 47"])
            hs.append(pre + ["printfA 0 3c 3e", "capacity 0"])
            hs.append(pre + ["printfA 0 - -"])          # (a second printfA would run on an exclusively owned block:
            hs.append(pre + ["printfA 0 61 -"])         #  the output buffer overlaps the argument — undefined, the model faults)
    hs.append(["lit 0 0", "attachA 0 0 2", "attachA 0 1 1", "printfA 0 3c 3e"])
    hs.append(["new 0", "attachA 0 0 0", "printfA 0 3c 3e"])
    for n in (1, 3, 150, 199, 200, 203, 204, 300):
        t = hexs([0x62] * n)
        hs.append([f"ptr 0 {t}", "assign 1 0", "printfA 0 3c 3e", "capacity 0"])      # shared: the old block stays alive
        hs.append([f"ptr 0 {t}", "copy 1 0", "copy 2 0", "printfA 1 - 2f", "printfA 2 2f -"])
    return hs


def boundary_histories(quick):
    """capacity boundaries of `detach(copyLength, minCapacity)`: for every growing call the needed capacity is
    swept over cap-1, cap, cap+1, cap+2 of an exclusively owned block (fast path / reallocation) and of a shared
    block (always reallocates); capacities are set exactly by `String(usize capacity)`.  Returns the histories
    and the coverage histogram  "<call>:<excl|shared>:need-cap=<d>" -> count."""
    hs, cov = [], {}

    def add(h, call, shared, delta):
        hs.append(h + ["capacity 0"])
        k = f"{call}:{'shared' if shared else 'excl'}:need-cap={delta:+d}"
        cov[k] = cov.get(k, 0) + 1

    fill = lambda n, b=0x61: hexs([b] * n)
    caps = [3, 4, 7, 8, 11] if quick else [0, 1, 2, 3, 4, 5, 7, 8, 11, 12, 15, 16, 19]
    for C_ in caps:
        for L in sorted({0, 1, max(0, C_ - 1), C_}):
            if L > C_:
                continue
            for shared in (False, True):
                pre = [f"cap 0 {C_}"] + ([f"append 0 {fill(L)}"] if L else []) + (["assign 1 0"] if shared else [])
                for d in (-1, 0, 1, 2):
                    need = C_ + d
                    k = need - L                      # chars to add
                    if k >= 0:
                        add(pre + [f"append 0 {fill(k, 0x62)}"], "append(ptr,len)", shared, d)
                        add(pre + [f"prepend 0 {fill(k, 0x62)}"], "prepend(ptr,len)", shared, d)
                        add(pre + [f"ptr 2 {fill(k, 0x63)}", "appendS 0 2"], "append(String)", shared, d)
                        add(pre + [f"ptr 2 {fill(k, 0x63)}", "prependS 0 2"], "prepend(String)", shared, d)
                        add(pre + [f"appendX 0 x{fill(k, 0x64)}"], "append(String temp)", shared, d)
                        toks = hexs(([0x62] * max(0, k - 1) + [0x2F]) if k > 0 else [])
                        # join() clears first: the joined text of k chars needs capacity k
                        add(pre + [f"ptr 2 {toks if k else '-'}", "split 2 2f 0", "join 0 47"], "join", shared, k - C_)
                    if k == 1:
                        add(pre + ["appendC 0 47"], "append(char)", shared, d)
                    if 0 <= k <= L:
                        add(pre + [f"prependA 0 0 {k}"], "prepend(own pointer)", shared, d)
                        if d <= 0 and not shared:
                            # defined only while nothing is reallocated: needed capacity up to exactly cap
                            add(pre + [f"appendA 0 {L - k} {k}"], "append(own pointer)", shared, d)
                    if 2 * L == need:
                        add(pre + ["appendS 0 0"], "append(self)", shared, d)
                        add(pre + ["prependS 0 0"], "prepend(self)", shared, d)
                    if need >= 0:
                        add(pre + [f"resize 0 {need}"], "resize", shared, d)
                        add(pre + [f"reserve 0 {need}"], "reserve", shared, d)
                        add(pre + [f"resize 0 {need}", f"fillfrom 0 {min(L, need)} 122"], "resize+fill", shared, d)
    # printf: first attempt into max(capacity, printfBuf|mask); the fits test `result < capacity`
    for C_ in ([200, 203, 204] if quick else [0, 100, 199, 200, 201, 202, 203, 204, 207, 250]):
        for shared in (False, True):
            pre = [f"cap 0 {C_}"] + (["assign 1 0"] if shared else [])
            eff = C_ if (C_ >= 200 and not shared) else 203
            for d in (-2, -1, 0, 1, 2):
                n = eff + d
                add(pre + [f"printf 0 S{fill(n - 1)} C47"], "printf", shared, d)
                add(pre + [f"printf 0 S{fill(n - 1)} C47", "printf 0 L61 D7"], "printf twice", shared, d)
    # replace: `String result(len + 10 * replacement.len)`, the result outgrows it after > 10*r/(r-n) matches
    for nmatch in ([19, 20, 21, 22] if quick else range(9, 34)):
        for shared in (False, True):
            subj = fill(nmatch)
            pre = [f"ptr 0 {subj}"] + (["assign 1 0"] if shared else [])
            # needle "a" (1), replacement "bc" (2): result 2k chars, capacity k + 20
            add(pre + ["replaceL 0 61 6263"], "replace", shared, 2 * nmatch - (nmatch + 20))
            add(pre + ["ptr 2 61", "ptr 3 626364", "replaceS 0 2 3"], "replace", shared, 3 * nmatch - (nmatch + 30))
    return hs, cov


def token_iteration_histories(maxlen):
    """`start = 0; while(start < length()) t = s.token(seps, start);` driven by the `start` values the reference
    returns (the implementation's new `start` is the printed result of every token line and is compared)."""
    hs = []
    for subj in small_strings(maxlen):
        n = len(unhex(subj))
        for seps, form in (("2f", "S"), ("2f20", "S"), ("47", "C"), ("32", "C")):
            r = Ref()
            h = [f"ptr 0 {subj}", "assign 3 0"]
            for l in h:
                r.apply(l)
            start, guard = 0, 0
            while start < n and guard < 10:
                guard += 1
                line = f"tokenS 1 0 {seps} {start}" if form == "S" else f"tokenC 1 0 {seps} {start}"
                res = r.apply(line).split(" ; ")[0]
                h.append(line)
                start = int(res)
            h.append(f"split 3 {seps if form == 'S' else format(int(seps), '02x')} 0")
            hs.append(h)
    return hs


def nontrivial(h, out):
    if len(h) < 3 or not out:
        return None
    last = out[-1]
    if " ; " not in last:
        return None
    state = last.split(" ; ", 1)[1]
    if state.startswith("0 - 00 0 | 0 - 00 0 | 0 - 00 0 | 0 - 00 0"):
        return None
    return (frozenset(l.split()[0] for l in h), state)


def histories_for(ctx):
    rng = ctx.rng
    quick = ctx.tier == "quick"
    corpus = C.load_corpus(ctx.prop)
    ex1 = exhaustive(CORE_OPS, 3 if quick else 4)
    # scope B: every sequence of length <= 2 over the whole alphabet; thorough adds length 3 with the first two ops
    # from the 56-op alphabet of before the extension rounds and the third from the whole alphabet (keeps the tier < 15 min)
    ex2 = exhaustive(CORE_OPS + MORE_OPS, 2)
    if not quick:
        old = CORE_OPS + MORE_OPS[:OLD_MORE]
        ex2 += [sanitize(list(p)) for p in itertools.product(old, old, CORE_OPS + MORE_OPS)]
    qs = query_histories(2 if quick else 3, 2 if quick else 3, ["owned", "shared"] if quick else ["owned", "shared", "copy"])
    if not quick:
        qs += query_histories(2, 4, ["owned", "shared"])
    fq = foreign_query_histories(1 if quick else 2)
    sp = special_histories()
    bd, bcov = boundary_histories(quick)
    ti = token_iteration_histories(3 if quick else 4)
    ctx.cov.setdefault("branch_hits", {})["detach_capacity_boundary"] = dict(sorted(bcov.items()))
    rnd = [gen_history(rng, rng.choice([8, 20, 40, 60])) for _ in range(8000 if quick else 90000)]
    ctx.cov["rule"] = (
        f"corpus ({len(corpus)}) + exhaustive A: all op sequences of length <= {3 if quick else 4} over a {len(CORE_OPS)}-op alphabet on 3 variables "
        f"(literal, unterminated/terminated attached memory, capacity boundaries len 3/4 -> cap 3/7, self arguments of assign/append/prepend/replace) "
        f"({len(ex1)} histories) + exhaustive B: length <= 2 over {len(CORE_OPS) + len(MORE_OPS)} ops{'' if quick else ' and length 3 = two ops of the first ' + str(len(CORE_OPS) + OLD_MORE) + ' followed by any op'} ({len(ex2)}) + "
        f"query scope: every byte string over {{a,b,'/',' ',0x80}} of length <= {2 if quick else 3} as subject (owned, shared{'' if quick else ', copied'}) x every such string "
        f"of length <= {2 if quick else 3}{'' if quick else ' (and subjects <= 2 x arguments <= 4)'} as argument of every query/search/split/trim/replace/token op at every start index ({len(qs)} histories) + "
        f"every sub-range of the 4 foreign regions as attached subject x arguments of length <= {1 if quick else 2} ({len(fq)}) + "
        f"{len(sp)} special (toBool table, all 255 bytes through the case maps, printf/fromPrintf around the 200-char buffer, number factories at their extremes, "
        f"isSpace/toLowerCase/toUpperCase/<cctype> over all 256 chars, replace with self-overlapping needles, own-pointer attach/printf on every terminated foreign sub-range) + "
        f"{len(bd)} capacity-boundary histories (every growing call x needed capacity = cap-1..cap+2 x exclusive/shared block, printf around its buffer, "
        f"replace around its result slack; histogram in branch_hits.detach_capacity_boundary) + "
        f"{len(ti)} token iterations (`while(start < length()) token(seps, start)` on every small subject, the returned start fed back, followed by split) + "
        f"{len(rnd)} random histories of 8..60 ops over 4 variables, 2 literals, 2 attached ranges; "
        "distinct_nontrivial = distinct (op-kind set, final observation of all variables) among histories with >= 3 ops and a non-empty final state")
    ctx.cov["exhaustive"] = False
    ctx.cov["exhaustive_scope"] = (f"A: length<={3 if quick else 4} over {len(CORE_OPS)} ops: {len(ex1)} histories; B: length<=2 over "
                                   f"{len(CORE_OPS) + len(MORE_OPS)} ops{'' if quick else ' + length 3 (two of the first ' + str(len(CORE_OPS) + OLD_MORE) + ' ops, then any)'}: {len(ex2)}; queries: {len(qs)} subject histories; foreign: {len(fq)}")
    return corpus + sp + bd + ti + ex1 + ex2 + qs + fq + rnd


ASSUMPTIONS = [
    "memory model of the Lean model: every heap block / literal / attached range is a separate block, loads are range-checked, branching on an uninitialised char is a fault, chars exposed by in-place growth are unspecified",
    "libc functions (strstr, strpbrk, strchr, memcmp, vsnprintf with %d %u %lld %llu %s %c) behave as the C standard says on NUL-terminated inputs (Lean definitions strstrL, strpbrkL, strchrL, strcmpL, render)",
    "arguments passed as pointer (ptr,len / const char*) do not point into the string's own storage (the own-pointer forms of append/prepend/attach/printf are modelled separately: appendAlias, prependAlias, attachAlias, printfAlias); String arguments may be the string itself",
    "<cctype> functions (isalnum … isxdigit) behave as in the \"C\" locale",
    "attached memory has one readable byte behind the attached range (documented contract of attach: str[len] is read by the C string view)",
    "token(const char*, start) is called with start <= length(); C-string arguments are NUL-free",
    "allocation never fails; one thread (reference counts are plain numbers, release logic itself belongs to C09)",
]


def setup():
    """tools/setup.py: regenerate lean/Nstd/Generated/StrTables.lean and StrBody.lean before the Lean build"""
    ok, msg = gen_str.run()
    if not ok:
        print("gen_str:", msg)


def limit_memory():
    # a runaway String (e.g. replace with an empty needle on an unrepaired tree) must end as a crash, not eat the machine
    if "hard_rss_limit_mb" not in C.SAN_ENV["ASAN_OPTIONS"]:
        C.SAN_ENV = dict(C.SAN_ENV, ASAN_OPTIONS=C.SAN_ENV["ASAN_OPTIONS"] + ":hard_rss_limit_mb=2500")


def check(ctx):
    ctx.assumptions += ASSUMPTIONS
    limit_memory()
    proof_ok = C.proof_stage(ctx, PROPS, [DRIVER], gen=gen_str.gen, leanchecker=(ctx.tier == "thorough"))
    harness = C.build_harness(ctx, "str", SOURCES)
    if harness is None or not C.driver_path(DRIVER).exists():
        return
    try:
        hs = histories_for(ctx)
        if not proof_ok:
            ctx.log("proof stage broken: searching harder for a failing input")
            hs += [gen_history(ctx.rng, 40) for _ in range(15000)]
        ops = {}
        for h in hs:
            for l in h:
                k = l.split()[0]
                ops[k] = ops.get(k, 0) + 1
        ctx.cov["op_histogram"] = ops
        ctx.cov["samples"] = [" ; ".join(h)[:600] for h in (hs[-3:] + hs[len(hs) // 2: len(hs) // 2 + 2])]
        diffs = C.differential(ctx, harness, C.driver_path(DRIVER), hs, reference, C.wildcard_eq, nontrivial=nontrivial, timeout=300 if ctx.tier == "quick" else 1200)
        ctx.log(f"{len(hs)} histories, {ctx.cov['evaluations']} op lines, {len(diffs)} disagreement(s)")
        C.report_diffs(ctx, diffs, harness, C.driver_path(DRIVER), reference, C.wildcard_eq, "str-ops")
    finally:
        try:
            harness.unlink()
        except OSError:
            pass


def replay(ctx, path):
    h = C.parse_replay(path)
    limit_memory()
    harness = C.build_harness(ctx, "str", SOURCES)
    gen_str.run()
    C.lake_build([DRIVER])
    diffs = C.differential(ctx, harness, C.driver_path(DRIVER), [h], reference, C.wildcard_eq)
    for d in diffs:
        print(d.text())
        ctx.violation(f"replay: {d.kind}", d.text())
    harness.unlink()
