"""C20  Child processes get exact arguments; option parsing follows getopt rules."""
import getopt as pygetopt
import itertools
import os
import zlib
import common as C
import gen_args

PROPERTIES = ["C20"]
MANIFEST = {
    "C20": {
        "technique": "Lean 4 proof + TIE BY TRANSLATION (tools/gen_args.py translates, C++ subset -> Lean, on every run, the current bodies of "
                     "Process::Arguments::nextChar / read, the Arguments constructor, Private::splitCommandLine, the Process object functions "
                     "(constructor, destructor, isRunning, kill, join, close, exit, read x2, write, setEnvironmentVariable) and String::length / "
                     "find / compare; PropsCode / PropsProc / PropsSel / PropsStr.lean prove the translated functions equal to the model's for "
                     "every table / state / command line / object / select oracle) + Lean 4 proof about the model "
                     "(checked-memory model of Process::Arguments refined to a declarative getopt_long-convention parser; "
                     "model of splitCommandLine refined to a reference tokenizer, termination on every buffer, expressibility of every "
                     "argument vector; argv/environment handed to execvpe; descriptor tables of open()) + kernel-model-level theorems "
                     "(unconstrained pipe system for arbitrary parent/child programs, documented protocol against arbitrary child programs, "
                     "wait/interrupt/join over a process table with pid reuse) + differential correspondence model vs real Process.cpp + tests against the "
                     "real kernel with a helper child",
        "text": "TRANSLATED from the current sources and proved equal to the model (PropsCode.lean): Arguments::nextChar, Arguments::read "
                "(for every option table, every model state and every object representing it, out-parameters and locals arbitrary: same "
                "fault / same return value / same (character, argument) / objects representing the same new state), the constructor (every "
                "argv incl. argc = 0), the while(read) loop of the translated code = getopt conventions for every table and argv "
                "(translated_read_sequence_eq_getopt); splitCommandLine (every terminated buffer, any prior contents of the output list: "
                "appends exactly the model's = the reference tokenizer's words); the Process object (PropsProc.lean): constructor, destructor, "
                "isRunning, kill, join(exitCode), join(), close(streams) translated over a kernel ghost (system-call trace, waitpid oracle) and "
                "proved, for every object and both waitpid outcomes, to change the '0 = closed' flags and return as Proc.step says, to store "
                "WEXITSTATUS, and to make exactly the system calls of Kernel.joinProgram in its order (close stdin end, waitpid, close read "
                "ends) - the action list of join_returns_exit_code_in_pipe_model is thereby derived from the current body; Process::exit passes "
                "its argument to _exit; setEnvironmentVariable = the model's function (POSIX setenv/unsetenv as primitives); the 3-argument "
                "read (PropsSel.lean): fd_set handling, maxFd, the select loop with its continues, the FD_ISSET order and ::read translated and "
                "proved equal to ReadSel.read3 for every object, request, length and select oracle, so the PropsRead theorems hold for the "
                "current body (never a blocking ::read, -1 only as EINVAL, stdout first, ...); daemonize (PropsDmn.lean) = Kernel.daemonizeFds for "
                "every table and every answer of ::open / fork; the 'prepare argv of child' statement of start(program, argc, argv, env) and of "
                "open(executable, argc, argv, streams, env) (fragment translation, PropsVec.lean) = the model's prepareArgv for every program, "
                "argc and pointer vector (same fault, same resulting vector) - so argv_env_exact* speak about the current argv preparation; three "
                "more fragments of open() (PropsOpen.lean): the three pipe()-creating statements with their goto error (= Kernel.pipesUntilFailure / "
                "errorPath for every mask, table, descriptor choice and failing call), the parent branch behind vfork(), the child branch up to execvpe and the error: path "
                "= the components of Kernel.openFds / openFdsFailed on every table and whatever the pipe arrays hold - so open_pipe_ends_exact "
                "and open_failure_restores_table speak about the current close/dup2 sequences.  "
                "A change of these C++ bodies changes the generated Lean "
                "definitions and the equality proofs fail; a construct outside the translated subset is refused (broken tie).  "
                "PROVED about the model of the code, for all inputs: option tables x argument vectors (result sequence = getopt "
                "conventions, no read outside the argument strings / option names, termination); command lines (tokenizer refinement, "
                "termination on every buffer, every argument vector is expressible by the quoting rules and read back exactly); what "
                "open/start pass to execvpe (file, argv, environment) and which pipe ends parent and child hold afterwards (also when "
                "vfork fails); argc = 0.  KERNEL-MODEL LEVEL (theorems named *_in_pipe_model and PropsWait.lean; the kernel side is an explicit "
                "assumed model): for ARBITRARY parent and child programs, all schedules and chunkings - on every pipe the bytes read plus "
                "the bytes queued are the bytes written, end-of-file means everything written was read and is final, join stores the exit "
                "code (0 only after SIGPIPE, which needs an early close by the parent); the documented protocol (write all, close stdin, read "
                "to end-of-file, join) against an arbitrary child program over read/readAll/write/close actions: no deadlock when the payload "
                "fits the pipe or the child writes at most one capacity per stream before it has read its input (deadlock example otherwise), "
                "finite runs, exact delivery; join() as coded entered while the child still reads and writes; Process::wait/interrupt/join/"
                "kill over a process table WITH pid reuse and a child-exit oracle: no waitpid ever hits a foreign child, every child is held by "
                "exactly one holder and reaped exactly once, wait returns only a terminated listed child, returns null only when interrupted / "
                "a child outside the list terminated / no child exists, a pending interrupt always wakes wait and is never lost; "
                "Process::read(buffer, length, streams) with select as an oracle (any number of time-outs and EINTRs): EINVAL iff no requested "
                "stream is open, ::read only on a readable descriptor (maxFd), delivery = first min(length, queued) bytes of a requested "
                "readable stream, stdout first, 0 only at end-of-file, returns iff a requested stream is readable, every delivery is a step of "
                "the unconstrained pipe system; descriptor tables after a failing k-th pipe() of open(), after start(), after daemonize() "
                "(stdout/stderr to the log file, nothing else); failed start/join keep the object consistent.  "
                "TESTED against the real kernel on every run: identical op lines on harness and model driver (exhaustive small scopes, "
                "exactly sized heap buffers under ASan, watchdog), independent Python reference; exec, pipes, exit codes 0..255, payloads "
                "around the pipe capacity, join/destructor/kill while the child still reads or writes, descriptor tables through /proc, "
                "Process::wait/interrupt with real children and an interrupter thread, Process::exit, the 2-argument read, environ entries "
                "without '=', failing pipe()/vfork()/waitpid(), the 3-argument read under an interposed select (time-outs, EINTR, both "
                "descriptor orders), daemonize in a forked copy; the getopt reference is cross-checked against Python's getopt.gnu_getopt on their common class.",
        "note": "Trusted: Lean kernel + standard axioms; the semantics tools/gen_args.py gives the translated C++ subset (CSem.lean: checked "
                "blocks, pointer = null | (block, offset), char** / const Option* as indices, operands left to right, &&/||/?: as control "
                "flow, loops over fuel) and its parser; String::length / find / compare are translated from String.hpp and proved to be "
                "strlenL / findL / cmpN (PropsStr.lean); String::attach / append / clear / isEmpty and List::append are primitives modelled by "
                "hand (slice, list append), not translated; the translated-code theorems "
                "assume argv bytes < 256 (needed where the code narrows int to char) and compare splitCommandLine on terminated buffers only.  "
                "System calls of the translated Process-object functions: ::close / ::kill append to a trace, `waitpid(pid, &status, 0) != "
                "(pid_t)pid` is one oracle-answered condition (waitpid returns the requested pid or -1), CSemProc.lean.  "
                "Everything of Process.cpp OTHER than nextChar / read / the Arguments constructor / splitCommandLine / Process(), ~Process, "
                "isRunning, kill, join, close, exit, the 2- and 3-argument read, write, setEnvironmentVariable, getEnvironmentVariable, daemonize (i.e. of start and open: the pid check, the environment preparation, vfork and execvpe themselves; start(commandLine)'s vector building; wait, interrupt, getEnvironmentVariables, prepareEnv) is still a HAND translation into the model, validated by the "
                "correspondence run, not proved.  A harmless restructuring of the control flow of a translated body breaks the equality proof (reported as "
                "'proof obligations / model tie no longer check' without failing input: harmless C20-h1, -h2, -h4, -h5); renamed locals, const "
                "locals that name a variable or literal, private static helpers with reference parameters (inlined), ASSERTs and reordered close "
                "calls in open() do not (harmless C20-h3, -h6 quiet).  Checked-memory abstraction (one block per argv word / option name, the option table holds "
                "null or NUL-free terminated names); Map iteration = ascending key order (C01).  'getopt rules' means the "
                "reference parser of Spec.lean: long options match exactly (no GNU abbreviations), non-options are returned in order as "
                "character 0.  PARTIAL in the proof sense (process_delivery_partial, OPEN block in Props.lean): vfork/execvpe/pipe/dup2/"
                "waitpid/select/read/write are the kernel's - what the child observes, exit codes, end-of-file and payload delivery on "
                "Linux are tested, not proved; the *_in_pipe_model theorems and open_pipe_ends_exact hold in the abstract kernel model of "
                "Kernel.lean whose adequacy is an assumption; join with child output larger than the pipes and nobody reading blocks "
                "(caller's protocol, outside the theorems); a failing pipe() in open() is the error path with the reduced mask (tested: "
                "openfailpipe).  Wait model: one owner thread, interrupt() atomic (it holds the mutex), its vfork assumed to succeed (when "
                "it fails the code drops the interrupt), waitid reports the oldest terminated child (Linux; only the correspondence run uses "
                "this); a terminated child outside the list makes wait return null every time until it is joined (observation).  Not "
                "covered: the Windows branch.  Outside C20 (documented, not patched): interrupt() drops the interrupt when its vfork fails; "
                "daemonize leaves stdin as it is.  env_*/proc_* theorems are auxiliary (hand abstractions).  The '0 = closed' bookkeeping assumes pipe() never "
                "returns descriptor 0.  Observations (not defects): with single blanks only between the words a trailing empty word "
                "cannot be written (a blank behind it can); a fully quoted word ending in a backslash swallows its closing quote "
                "(write the backslash outside the quotes); join reports 0 for a child terminated by a signal.  The model mirrors the "
                "code repaired by fixes/args/0001-0010 (0009: Process::exit passed 0 to _exit whatever the argument; 0010: read(buf, len, "
                "streams) reused the cleared fd_set and the consumed time-out after a select time-out and never returned).",
        "design_ref": "DESIGN.md 3/C20",
    }
}
PROPS = ["Nstd.Args.Props", "Nstd.Args.PropsWait", "Nstd.Args.PropsRun", "Nstd.Args.PropsRead", "Nstd.Args.PropsFds",
         "Nstd.Args.PropsCode", "Nstd.Args.PropsProc", "Nstd.Args.PropsSel", "Nstd.Args.PropsStr", "Nstd.Args.PropsDmn", "Nstd.Args.PropsVec", "Nstd.Args.PropsOpen"]
LEAN_TARGETS = PROPS + ["drv_args"]
DRIVER = "drv_args"
SOURCES = ["args.cpp", C.REPO / "src/String.cpp", C.REPO / "src/Memory.cpp", C.REPO / "src/Debug.cpp",
           C.REPO / "src/File.cpp", C.REPO / "src/Directory.cpp"]       # Process.cpp is #included by the harness

CHILD = b"CHILD"


def setup():
    """regenerate lean/Nstd/Generated/ArgsCode.lean (translation of Arguments::nextChar / read / constructor and
    splitCommandLine) and ArgsProc.lean (Process object: constructor, destructor, isRunning, kill, join, close) from the
    current sources before the Lean targets are built"""
    ok, msg = gen_args.run()
    if not ok:
        print("args translate:", msg)


def hx(b):
    return b.hex() if b else "-"


def unhx(t):
    return b"" if t == "-" else bytes.fromhex(t)


# ---- independent reference 1: getopt_long conventions (in-order variant used by libnstd) ----------------------
# Results are (character, argument): options yield (letter, value or ""), non-options (0, word), an unknown option
# ('?', option text), a missing required value (':', option text); "--" ends option parsing; "-" is a non-option.
def parse_opts(tok):
    if tok == "-":
        return []
    res = []
    for e in tok.split(","):
        c, n, f = e.split(".")
        res.append((int(c), None if n == "~" else unhx(n), int(f)))
    return res


def ref_getopt(opts, words):
    out = []
    i = 0
    while i < len(words):
        w = words[i]
        i += 1
        if w == b"--":
            out += [(0, x) for x in words[i:]]
            break
        if w.startswith(b"--"):
            name, sep, val = w[2:].partition(b"=")
            cands = [o for o in opts if o[1] is not None and o[1] == name and (not sep or o[2] & 1)]
            if not cands:
                out.append((63, w))
                continue
            c, _, fl = cands[0]
            if not fl & 1:
                out.append((c, b""))
            elif sep:
                out.append((c, val))
            elif fl & 2:
                out.append((c, b""))
            elif i < len(words):
                out.append((c, words[i]))
                i += 1
            else:
                out.append((58, w))
        elif w.startswith(b"-") and len(w) > 1:
            j = 1
            while j < len(w):
                b = w[j]
                j += 1
                sc = b if b < 128 else b - 256
                cands = [o for o in opts if o[0] == sc]
                if not cands:
                    out.append((63, b"-" + bytes([b])))
                    continue
                fl = cands[0][2]
                if not fl & 1:
                    out.append((sc, b""))
                    continue
                if j < len(w):
                    out.append((sc, w[j:]))
                elif fl & 2:
                    out.append((sc, b""))
                elif i < len(words):
                    out.append((sc, words[i]))
                    i += 1
                else:
                    out.append((58, b"-" + bytes([b])))
                break
        else:
            out.append((0, w))
    return out


# ---- cross-check of reference 1 with the standard library's getopt.gnu_getopt ---------------------------------------
# on the class both speak about: flags without value / with required value, distinct alphanumeric option letters, distinct
# non-empty alphanumeric long names, ASCII words, no abbreviated long options (the library matches long names exactly)
PYGETOPT = {"agree": 0, "both-error": 0, "skipped": 0}


def _alnum(b):
    return bool(b) and all(48 <= c <= 57 or 65 <= c <= 90 or 97 <= c <= 122 for c in b)


def pygetopt_check(opts, words, res):
    """None = not in the common class; True/False = gnu_getopt agrees / disagrees with `res`"""
    if os.environ.get("POSIXLY_CORRECT") is not None:
        return None
    chars = [o[0] for o in opts]
    names = [o[1] for o in opts if o[1] is not None]
    if (any(o[2] not in (0, 1) for o in opts) or len(set(chars)) != len(chars) or len(set(names)) != len(names)
            or not all(0 < c < 128 and _alnum(bytes([c])) for c in chars) or not all(_alnum(n) for n in names)
            or any(any(c >= 128 or c == 0 for c in w) for w in words)):
        return None
    for w in words:
        if w.startswith(b"--") and len(w) > 2:
            x = w[2:].partition(b"=")[0]
            if x not in names and any(n.startswith(x) for n in names):
                return None                   # an abbreviation: accepted by gnu_getopt, not by the library
    short = "".join(chr(o[0]) + (":" if o[2] & 1 else "") for o in opts)
    longs = [o[1].decode() + ("=" if o[2] & 1 else "") for o in opts if o[1] is not None]
    try:
        po, pa = pygetopt.gnu_getopt([w.decode("latin-1") for w in words], short, longs)
    except pygetopt.GetoptError:
        return any(c in (63, 58) for c, _ in res)
    if any(c in (63, 58) for c, _ in res):
        return False
    byname = {o[1].decode(): o[0] for o in opts if o[1] is not None}
    mine_o = [(c, a) for c, a in res if c != 0]
    mine_a = [a for c, a in res if c == 0]
    theirs = [((byname[k[2:]] if k.startswith("--") else ord(k[1])), v.encode("latin-1")) for k, v in po]
    return theirs == mine_o and [a.encode("latin-1") for a in pa] == mine_a


# ---- independent reference 3: Process::wait / interrupt / join at the level of the property ---------------------------
class WaitRef:
    """wait(list) returns null when an interrupt is pending (and consumes it); otherwise the terminated child the kernel
    reports (the oldest one) if its object is in the list, null if it is not, null at once when there is no child at all;
    otherwise it blocks until interrupted.  interrupt() sets the pending flag (once).  join/kill reap exactly their child."""

    def __init__(self):
        self.objs, self.pend, self.seq = [None] * 4, False, 0

    def end(self):
        kids = [o for o in self.objs if o]
        return f" pend={int(self.pend)} kids={len(kids)} zombies={sum(1 for o in kids if o['z'])}"

    def oldest_zombie(self):
        z = [(o["seq"], i) for i, o in enumerate(self.objs) if o and o["z"]]
        return min(z)[1] if z else None

    def blocks(self, lst):
        """would wait(lst) block without an interrupt?"""
        if self.pend:
            return False
        if not lst:
            return True
        return self.oldest_zombie() is None and any(self.objs)

    def step(self, t):
        op = t[1]
        if op == "new":
            self.__init__()
            return "w new" + self.end()
        if op == "intr":
            self.pend = True
            return "w intr" + self.end()
        if op == "wait":
            lst = [] if t[2] == "-" else [int(c) for c in t[2]]
            ms = int(t[3])
            if self.pend:
                self.pend, ret, late = False, None, ms > 0
            elif not lst:
                if ms == 0:
                    return "BLOCK"
                ret, late = None, False
            else:
                z = self.oldest_zombie()
                if z is not None:
                    ret, late = (z if z in lst else None), ms > 0
                elif not any(self.objs):
                    ret, late = None, ms > 0
                elif ms == 0:
                    return "BLOCK"
                else:
                    ret, late = None, False
            if late:
                self.pend = True              # the other thread's interrupt() came after the return
            return ("w wait ret=null" if ret is None else f"w wait ret={ret} term=1") + self.end()
        i = int(t[2])
        o = self.objs[i]
        if op == "start":
            if o:
                return "w start ok=0" + self.end()
            self.seq += 1
            self.objs[i] = {"z": t[3] == "z", "code": int(t[4]) if t[3] == "z" else 0, "seq": self.seq}
            return "w start ok=1" + self.end()
        if op == "die":
            if not o or o["z"]:
                return "w die ok=0" + self.end()
            o["z"], o["code"] = True, 0       # terminated by a signal: WEXITSTATUS 0
            return "w die ok=1" + self.end()
        if op == "join":
            if not o:
                return "w join ok=0 code=-" + self.end()
            if not o["z"]:
                return "BLOCK"
            self.objs[i] = None
            return f"w join ok=1 code={o['code']}" + self.end()
        if op == "kill":
            if not o:
                return "w kill ok=0" + self.end()
            self.objs[i] = None
            return "w kill ok=1" + self.end()
        return "bad-op"


# ---- independent reference 4: Process::read(buffer, length, streams) at the level of the property ---------------------
def ref_sel(t):
    """both streams are redirected and open; a stream is readable when it holds data or its writer is gone; stdout is served
    before stderr; the call delivers min(length, queued) bytes, 0 = end-of-file, and names the stream; EINVAL when no
    requested stream is open; time-outs and EINTRs of select are invisible"""
    q = {1: int(t[1]), 2: int(t[2])}
    hold = t[3] != "0"
    out = "sel ok=1"
    for tok in t[5:]:
        ln, st, _ = tok.split(".")
        ln, st = int(ln), int(st)
        req = [b for b in (1, 2) if st & b]
        if not req:
            out += " r=einval"
            continue
        ready = [b for b in req if q[b] > 0 or not hold]
        if not ready:
            return out + " BLOCK"
        b = ready[0]
        n = min(ln, q[b])
        q[b] -= n
        out += f" r={n}/{b}/{'-' if n == 0 else 'oe'[b - 1]}"
    return out + " | done=1 after=0"


def sel_blocks(t):
    return ref_sel(t).endswith("BLOCK")


# ---- independent reference 2: the documented quoting rules of the command-line form --------------------------
def ref_split(s):
    """words are separated by single blanks (every blank ends a word, also an empty one; a trailing empty word is
    dropped); a double quote opens/closes a quoted segment in which blanks do not separate and `\\"` is a quote;
    every other character, also a backslash, stands for itself; an unterminated segment runs to the end"""
    words, cur, i, n = [], bytearray(), 0, len(s)
    while i < n:
        c = s[i]
        if c == 0x22:
            i += 1
            while i < n and s[i] != 0x22:
                if s[i] == 0x5C and i + 1 < n and s[i + 1] == 0x22:
                    cur.append(0x22)
                    i += 2
                else:
                    cur.append(s[i])
                    i += 1
            i += 1
        elif c == 0x20:
            words.append(bytes(cur))
            cur = bytearray()
            i += 1
        else:
            cur.append(c)
            i += 1
    if cur:
        words.append(bytes(cur))
    return words


# ---- payload pattern of harness/args_child.c -------------------------------------------------------------------
_BASE = bytes((k * 7) & 255 for k in range(256))
_SHIFT = [bytes((b + a) & 255 for b in range(256)) for a in range(256)]
_crc_cache = {}


def pattern_crc(n, seed):
    key = (n, seed)
    if key not in _crc_cache:
        crc = 0
        for j in range((n + 255) // 256):
            blk = _BASE.translate(_SHIFT[(seed + j * 13 + (j >> 8) * 5) & 255])
            if (j + 1) * 256 > n:
                blk = blk[:n - j * 256]
            crc = zlib.crc32(blk, crc)
        _crc_cache[key] = crc & 0xFFFFFFFF
    return _crc_cache[key]


def parse_env(tok):
    if tok == "-":
        return {}
    m = {}
    for e in tok.split(","):
        k, v = e.split("=")
        m[unhx(k)] = unhx(v)
    return m


def ref_line(line, penv=None):
    t = line.split()
    op = t[0]
    if op == "reset":
        return "ready"
    if op == "args0":
        return "r end"                        # argc == 0: nothing to deliver
    if op == "args":
        opts, words = parse_opts(t[1]), [unhx(w) for w in t[2:]]
        res = ref_getopt(opts, words)
        agree = pygetopt_check(opts, words, res)
        if agree is None:
            PYGETOPT["skipped"] += 1
        elif not agree:
            return "r REFERENCE-DISAGREES-WITH-PYTHON-GETOPT"
        else:
            PYGETOPT["both-error" if any(c in (63, 58) for c, _ in res) else "agree"] += 1
        return "r" + "".join(f" {c}:{hx(a)}" for c, a in res) + " end"
    if op == "split":
        if line in RENDER_EXPECT:             # a rendered argument vector: the vector itself is expected
            return RENDER_EXPECT[line]
        ws = ref_split(unhx(t[1]))
        return f"s {len(ws)}" + "".join(" " + hx(w) for w in ws)
    if op == "run":
        form, streams, env, words = t[1], int(t[2]), parse_env(t[3]), [unhx(w) for w in t[4:]]
        if form in ("cmd", "startcmd"):
            argv = ref_split(CHILD + (b" " + words[0] if words[0] else b""))
        elif form in ("argvz", "startargvz"):
            argv = words                      # a vector that is already null-terminated is passed through
        else:
            argv = [CHILD] + words[1:]        # argv[0] is replaced by the executable
        if env:
            envs = ",".join(hx(k + b"=" + env[k]) for k in sorted(env))           # Map order: by name
        else:                                                                  # inherited: API-set variables, sorted as strings
            envs = "inherit:" + (",".join(hx(e) for e in sorted(k + b"=" + v for k, v in (penv or {}).items())) or "-")
        return (f"x ok=1 pipes={streams & 7} argv={','.join(hx(a) for a in argv)} env={envs}"
                f" | joined=1 exit=42 eof=1 err=- after=0")
    if op == "io":
        m, n, seed, code = int(t[1]), int(t[2]), int(t[3]), int(t[4])
        z = "0:00000000"
        return (f"io ok=1 pipes={m & 7} | joined=1 exit={code} eof=1 written={n if m & 4 else -1} "
                f"in={f'{n}:{pattern_crc(n, seed + 2):08x}' if m & 4 else z} "
                f"out={f'{n}:{pattern_crc(n, seed):08x}' if m & 1 else z} "
                f"err={f'{n}:{pattern_crc(n, seed + 1):08x}' if m & 2 else z}")
    if op == "exit":
        return f"exit ok=1 | running=1 joined=1 code={int(t[1])} after=0"
    if op == "sel":
        return ref_sel(t)
    if op == "joinfail":                      # waitpid fails k times: false each time, stdin end closed, pid and read ends kept; then the code
        m, k, code = int(t[1]) & 7, min(int(t[2]), 7), int(t[3])
        return "jf ok=1" + f" j=0/1{m & 1}{(m >> 1) & 1}0" * k + f" j=1/0000/{code}"
    if op == "startfail":                     # vfork fails (EAGAIN): 0, the object stays idle
        return "sf pid=0 st=0000 | eagain=1"
    if op == "dmn":                           # daemonize: stdout and stderr go to the log file, nothing else changes; the caller exits 0
        if t[1] == "ok":
            return "dmn ret=1 fd0=same fd1=log fd2=log fd3=closed | sid=1 inparent=0 astatus=0"
        return "dmn ret=0 fd0=same fd1=same fd2=same fd3=closed | sid=0 inparent=1 astatus=7"
    if op == "pexit":                         # Process::exit(code) ends the calling process with that status
        return f"pexit ok=1 code={int(t[1]) & 255}"
    if op == "ids":
        return "ids pid=1 exe=1"
    if op == "io2":
        n, seed, code = int(t[1]), int(t[2]), int(t[3])
        return (f"io2 ok=1 pipes=5 | joined=1 exit={code} eof=1 written={n} closedrefuses=1 in={n}:{pattern_crc(n, seed + 2):08x} "
                f"out={n}:{pattern_crc(n, seed):08x} after=0")
    return "bad-op"


def ref_proc(t, st):
    """the Process object: st = [running, out, err, in, exit code of the child]; pid and descriptors are 0 when idle/closed"""
    op = t[1]
    shown = lambda ok: f"p ok={ok} st=" + "".join(str(int(bool(x))) for x in st[:4])
    if op == "new":
        st[:] = [0, 0, 0, 0, None]
        return shown(1)
    if op == "openfailpipe":              # the k-th pipe() fails (EMFILE): nothing changes; with fewer pipes than k the open succeeds
        m, k = int(t[2]) & 7, int(t[3])
        if st[0]:
            return shown(0) + " | einval=1"
        if 1 <= k <= bin(m).count("1"):
            return shown(0) + " | einval=0"
        st[:] = [1, m & 1, m & 2, m & 4, 0]
        return shown(1) + " | einval=0"
    if op in ("start", "open", "startargv", "opencmd"):
        isstart = op.startswith("start")
        if st[0]:
            return shown(0) + (" | pid=0 einval=1" if isstart else " | einval=1")
        m = 0 if isstart else int(t[2])
        st[:] = [1, m & 1, m & 2, m & 4, int(t[-1])]
        return shown(1) + (" | pid=new einval=0" if isstart else " | einval=0")
    if op == "joinv":
        if not st[0]:
            return shown(0) + " | einval=1"
        st[:] = [0, 0, 0, 0, None]
        return shown(1) + " | einval=0"
    if op == "openfail":              # vfork fails (EAGAIN): nothing changes; EINVAL when a child is still attached
        return shown(0) + f" | einval={1 if st[0] else 0}"
    if op in ("join", "kill"):
        if not st[0]:
            return shown(0) + " | einval=1"
        code = st[4]
        st[:] = [0, 0, 0, 0, None]
        return shown(1) + (f" | code={code}" if op == "join" else " | einval=0")
    if op == "close":
        m = int(t[2])
        for k, b in ((1, 1), (2, 2), (3, 4)):
            if m & b:
                st[k] = 0
        return shown(1)
    if op == "running":
        return shown(int(bool(st[0]))) + f" | pid={int(bool(st[0]))}"
    if op == "read3":
        m = int(t[2])
        ready = (m & 1 and st[1]) or (m & 2 and st[2])
        return shown(1) + " | n=0" if ready else shown(0) + " | n=-1"      # the child writes nothing: end-of-file
    return "bad-op"


def ref_env(t, penv):
    """setenv/unsetenv/getenv semantics (POSIX): names are non-empty and contain no `=`; an empty value removes the variable"""
    if t[1] == "set":
        k, v = unhx(t[2]), unhx(t[3])
        if not k or b"=" in k:
            return "e ok=0"
        if v:
            penv[k] = v
        else:
            penv.pop(k, None)
        return "e ok=1"
    if t[1] == "putraw":                  # an entry without `=` in environ is not a variable: nothing to see through the API
        return "e ok=1"
    if t[1] == "get":
        return "e val=" + hx(penv.get(unhx(t[2]), unhx(t[3])))
    if t[1] == "all":
        return "e all=" + (",".join(hx(k + b"=" + penv[k]) for k in sorted(penv)) or "-")
    return "bad-op"


def reference(hist):
    st = [0, 0, 0, 0, None]
    penv = {}
    wref = WaitRef()
    out = []
    for l in hist:
        t = l.split()
        if t[0] == "w":
            out.append(wref.step(t))
        elif t[0] == "p":
            out.append(ref_proc(t, st))
        elif t[0] == "env":
            out.append(ref_env(t, penv))
        elif t[0] == "run":
            out.append(ref_line(l, penv))
        elif t[0] == "killtest":
            # the parent holds exactly its ends of the requested pipes (stdin always here), the blocked child holds nothing
            # beyond the standard descriptors
            m = (int(t[1]) & 3) | 4
            out.append(f"kill ok=1 | running=1 parentpipes={bin(m).count('1')} childextra=0 killed=1 after=0")
        elif t[0] == "execfail":
            # execvpe fails in the child: `<program>: <strerror(ENOENT)>` on stderr, exit code EXIT_FAILURE
            m = int(t[2])
            prog = b"/nonexistent-nstd-verif/args-child" if t[1] == "path" else b""
            err = hx(prog + b": No such file or directory\n") if m & 2 else "-"
            out.append(f"xf ok=1 pipes={m & 7} | joined=1 exit=1 eof=1 out=- err={err} after=0")
        elif t[0] == "late":
            # join() returns the child's exit code whatever the parent has read before, also when the child writes to its
            # redirected streams only after join()/the destructor was entered; the child always runs to completion
            # (marker file) unless it is killed or the parent itself closed the read ends (then SIGPIPE: status 0)
            order, m, code = t[1], int(t[2]) & 7, int(t[4])
            if order in ("join", "readjoin"):
                out.append(f"late ok=1 pipes={m} exit={code} completed=1 | joined=1 killed=0 eof=1 after=0")
            elif order == "dtor":
                out.append(f"late ok=1 pipes={m} exit=- completed=1 | joined=0 killed=0 eof=1 after=0")
            elif order == "closejoin":
                broken = bool(m & 3)
                out.append(f"late ok=1 pipes={m} exit={0 if broken else code} completed={0 if broken else 1} | joined=1 killed=0 eof=1 after=0")
            elif order == "kill":
                out.append(f"late ok=1 pipes={m} exit=- completed=0 | joined=0 killed=1 eof=1 after=0")
            else:
                out.append("bad-op")
        elif t[0] == "eofjoin":
            # join()/the destructor end the child's input themselves; the child then writes and exits: join returns its code
            m, code = (int(t[2]) & 3) | 4, int(t[4])
            seen = "in=-" if m & 1 else "in=3:352441c2"          # the child's report is on the (never read) stdout pipe otherwise
            if t[1] == "join":
                out.append(f"ej ok=1 pipes={m} exit={code} | written=3 joined=1 {seen} after=0")
            else:
                out.append(f"ej ok=1 pipes={m} exit=- | written=3 joined=0 {seen} after=0")
        elif t[0] == "sig":
            # observation: join() stores WEXITSTATUS also for a child terminated by a signal, i.e. 0
            out.append(f"sig ok=1 pipes={int(t[1]) & 7} | joined=1 exit=0 after=0")
        elif t[0] == "killbusy":
            out.append(f"kb ok=1 pipes={int(t[1]) & 7} | killed=1 after=0")
        elif t[0] == "fdtable":
            # only the parent holds its end (read end of stdout/stderr, write end of stdin) in the member that names it,
            # only the child holds the other end, as descriptor 1 / 2 / 0
            m = int(t[1])
            out.append(f"ft ok=1 out={'P:r@out;C:w@1' if m & 1 else 'none'} err={'P:r@err;C:w@2' if m & 2 else 'none'} "
                       f"in={'P:w@in;C:r@0' if m & 4 else 'none'} | killed=1 after=0")
        elif t[0] == "fds":
            # no descriptor is left behind: only the pipe ends the Process object currently holds are open
            out.append(f"fds | open={sum(1 for x in st[1:4] if x)}")
        else:
            out.append(ref_line(l))
    return out


reference.eq = lambda impl, ref: impl == ref


def model_eq(impl, model):
    """the model speaks about everything before ` | ` (what is parsed / passed to execvpe and pipe)"""
    return impl == model or impl.split(" | ")[0] == model


# ---- generators -----------------------------------------------------------------------------------------------------
TABLE = "97.616c706861.0,98.~.0,111.6f7574.1,112.6f7074.3"      # a/alpha flag, b flag (no long name), o/out required, p/opt optional
WORDS = [b"-a", b"-ab", b"-o", b"-ov", b"v", b"--", b"-", b"--alpha", b"--out=v", b"--out", b"--zz",
         b"-p", b"-pv", b"--opt", b"--opt=v", b"--alpha=v"]
NAMES = [None, b"", b"alpha", b"out", b"opt", b"al", b"alphabet", b"o"]


def args_line(table, words):
    return "args " + table + "".join(" " + hx(w) for w in words)


def exhaustive_args(maxlen):
    return [args_line(TABLE, ws) for n in range(maxlen + 1) for ws in itertools.product(WORDS, repeat=n)]


# second exhaustive scope: a table with duplicate letters / names, the letters '-' and ':', an empty long name
TABLE2 = "45.~.0,58.~.1,97.~.0,97.616c706861.1,120.-.1,121.616c706861.0,122.-.0"
WORDS2 = [b"-a", b"--", b"-", b"-:", b"-:v", b"--=v", b"--=", b"---", b"-a-", b"--alpha", b"--alpha=v", b"v", b"-x", b"-xa"]


def exhaustive_args2(maxlen):
    return [args_line(TABLE2, ws) for n in range(maxlen + 1) for ws in itertools.product(WORDS2, repeat=n)]


def rand_word(rng):
    k = rng.random()
    if k < 0.3:
        return rng.choice(WORDS)
    if k < 0.4:
        return b"--" + rng.choice(NAMES[1:]) + rng.choice([b"", b"=", b"=v", b"=-a", b"=a=b"])
    alpha = b"-abopvz=" if k < 0.95 else b"-a\xe9\xff= "
    return bytes(rng.choice(alpha) for _ in range(rng.choice([0, 1, 2, 2, 3, 3, 4, 6])))


def rand_table(rng):
    n = rng.choice([0, 1, 2, 3, 4, 4, 5, 6])
    es = []
    for _ in range(n):
        c = rng.choice([97, 98, 111, 112, 122, 45, 61, 118, -23, 0, 63, 58])
        nm = rng.choice(NAMES)
        es.append(f"{c}.{'~' if nm is None else hx(nm)}.{rng.choice([0, 0, 1, 1, 3, 2])}")
    return ",".join(es) if es else "-"


def random_args(rng, count):
    return [args_line(rand_table(rng) if rng.random() < 0.8 else TABLE, [rand_word(rng) for _ in range(rng.choice([0, 1, 2, 3, 4, 5, 8]))])
            for _ in range(count)]


SPLIT_SYMS = [b"w", b" ", b'"', b"\\"]


def exhaustive_split(maxlen, syms=SPLIT_SYMS):
    return ["split " + hx(b"".join(p)) for n in range(maxlen + 1) for p in itertools.product(syms, repeat=n)]


def random_split(rng, count):
    al = b'ab "\\\\""  \t\'x'
    return ["split " + hx(bytes(rng.choice(al) for _ in range(rng.choice([3, 8, 9, 10, 12, 20, 40])))) for _ in range(count)]


def render_word(w):
    """universal rendering of the quoting rules: blank -> `" "`, quote -> `"\\""`, anything else as itself, empty word -> `""`"""
    if not w:
        return b'""'
    return b"".join(b'" "' if c == 0x20 else b'"\\""' if c == 0x22 else bytes([c]) for c in w)


def rendered_split(rng, count):
    """argument vectors written as command lines (terminator style: every vector; separator style: last word non-empty);
    the expected result is the vector itself, independent of ref_split"""
    lines, expect = [], {}
    al = b'ab "\\\xc3'
    for _ in range(count):
        ws = [bytes(rng.choice(al) for _ in range(rng.choice([0, 1, 1, 2, 3, 5]))) for _ in range(rng.choice([0, 1, 2, 3, 4]))]
        if rng.random() < 0.5 or (ws and not ws[-1]):
            cl = b"".join(render_word(w) + b" " for w in ws)
        else:
            cl = b" ".join(render_word(w) for w in ws)
        line = "split " + hx(cl)
        lines.append(line)
        expect[line] = f"s {len(ws)}" + "".join(" " + hx(w) for w in ws)
    return lines, expect


RENDER_EXPECT = {}

ENVS = ["-", "4e565f58=31", "4e565f59=74776f20776f726473,4e565f58=31", "42=-,41=3d3d,43=2078"]
RUN_WORDS = [b"", b"a", b"a b", b'c"d', b"-x", b"\\", b"--k=v", b"'q'", b"\xc3\xa9"]
CMD_RESTS = [b"", b"a", b"a b", b'"a b" c', b'"q\\"r" z', b'"a\\b"', b'x "" y', b'a  b', b'"unterminated x', b'a"b c"d e', b"tail\\",
             b'"\\\\" k']


def run_lines(rng, quick):
    lines = []
    forms = ["argv", "argvz", "list", "startargv", "startargvz"]
    for form in forms + ["cmd", "startcmd"]:
        for streams in ([0] if form.startswith("start") else range(8)):
            for env in ENVS if (not quick or streams in (0, 1, 7)) else ENVS[:2]:
                if form in ("cmd", "startcmd"):
                    rests = CMD_RESTS if (streams in (0, 1) and (not quick or env == ENVS[0])) else [rng.choice(CMD_RESTS)]
                    for r in rests:
                        lines.append(f"run {form} {streams} {env} {hx(r)}")
                else:
                    nw = [0, 1, 2, 4] if streams in (0, 1) and (not quick or env == ENVS[1]) else [rng.choice([1, 2, 3])]
                    for n in nw:
                        if n == 0 and form.endswith("z"):
                            continue          # an empty argument vector: what the child sees depends on the kernel version
                        ws = [rng.choice(RUN_WORDS) for _ in range(n)]
                        lines.append(f"run {form} {streams} {env}" + "".join(" " + hx(w) for w in ws))
    return lines


SIZES = [0, 1, 65535, 65536, 65537, 1 << 20]


def io_lines(rng, quick):
    lines = []
    for m in range(8):
        for n in SIZES:
            lines.append(f"io {m} {n} {rng.randrange(250)} {rng.choice([0, 1, 3, 200])}")
    if not quick:
        for _ in range(60):
            lines.append(f"io {rng.randrange(8)} {rng.choice([2, 4095, 4096, 4097, 131071, 131072, 131073, 300000])} {rng.randrange(250)} {rng.randrange(256)}")
    return lines


def exit_lines(rng, quick):
    codes = sorted(set([0, 1, 2, 42, 126, 127, 128, 129, 254, 255] + [rng.randrange(256) for _ in range(22)])) if quick else range(256)
    return [f"exit {c}" for c in codes]


POPS = ["p start 3", "p open 0 4", "p open 1 5", "p open 7 6", "p join", "p kill", "p close 1", "p close 6", "p running",
        "p read3 1", "p read3 3", "p new", "p openfail 7"]


def proc_histories(rng, quick):
    depth = 3 if quick else 4
    hs = [list(p) for d in range(1, depth + 1) for p in itertools.product(POPS, repeat=d)]
    for _ in range(300 if quick else 3000):
        h = []
        for _ in range(rng.choice([5, 8, 12])):
            k = rng.random()
            h.append(rng.choice(POPS) if k < 0.6 else f"p open {rng.randrange(8)} {rng.randrange(256)}" if k < 0.75
                     else f"p close {rng.randrange(8)}" if k < 0.85 else f"p read3 {rng.randrange(8)}" if k < 0.95 else f"p start {rng.randrange(256)}")
        hs.append(h)
    extra = ["p joinv", "p startargv 9", "p opencmd 3 8", "p opencmd 7 1", "p openfailpipe 7 1", "p openfailpipe 7 2", "p openfailpipe 7 3",
             "p openfailpipe 5 2", "p openfailpipe 2 1", "p openfailpipe 1 2", "p openfailpipe 0 1"]
    hs += [[a, b] for a in extra for b in extra + POPS[:8]] + [[b, a] for a in extra for b in POPS[:4]]
    for _ in range(100 if quick else 1000):
        hs.append([rng.choice(extra + POPS) for _ in range(rng.choice([4, 7, 10]))])
    hs.append([f"killtest {m}" for m in range(4)])
    hs.append([f"fdtable {m}" for m in range(8)])
    return [h + ["p new", "fds"] for h in hs]


ENV_NAMES = [b"NVT_A", b"NVT_A1", b"NVT_B", b"NVT_", b"NVT_long_name_0123456789"]
ENV_BAD = [b"", b"A=B", b"=", b"NVT_A="]
ENV_VALUES = [b"", b"", b"1", b"two words", b"=", b"a=b", b"\xc3\xa9"]


def env_histories(rng, quick):
    hs = []
    for _ in range(150 if quick else 2000):
        h = []
        for _ in range(rng.choice([4, 8, 14])):
            k = rng.random()
            if k < 0.45:
                h.append(f"env set {hx(rng.choice(ENV_NAMES) if rng.random() < 0.85 else rng.choice(ENV_BAD))} {hx(rng.choice(ENV_VALUES))}")
            elif k < 0.7:
                # only valid names: what getenv answers for a name containing `=` is the C library's business
                h.append(f"env get {hx(rng.choice(ENV_NAMES))} {hx(rng.choice([b'', b'dflt']))}")
            elif k < 0.85:
                h.append("env all")
            else:
                form = rng.choice(["argv", "list", "cmd", "startargv", "startcmd"])
                streams = 0 if form.startswith("start") else rng.choice([0, 1, 3])
                h.append(f"run {form} {streams} {rng.choice(ENVS[:2])} {hx(b'a')}")
        hs.append(h)
    # entries without `=` put into environ by the application itself are skipped by getEnvironmentVariables (no launches here:
    # such an entry is inherited by a child as it is)
    for _ in range(10 if quick else 100):
        h = []
        for _ in range(rng.choice([3, 6])):
            k = rng.random()
            h.append(f"env putraw {hx(rng.choice([b'NVT_RAW', b'NVT_A', b'NVT_zz9']))}" if k < 0.4 else
                     f"env set {hx(rng.choice(ENV_NAMES))} {hx(rng.choice(ENV_VALUES))}" if k < 0.6 else
                     f"env get {hx(rng.choice(ENV_NAMES + [b'NVT_RAW']))} {hx(b'dflt')}" if k < 0.8 else "env all")
        hs.append(h + ["env all"])
    return hs


def late_histories(rng, quick):
    """join / destructor / kill while the child is still going to write; each slow op in a history of its own"""
    hs = []
    codes = [1, 7, 99, 255, 3, 42, 200, 128]
    for m in range(8):
        h = [f"late {order} {m} {100 if quick else rng.choice([60, 100, 250])} {codes[(m + i) % len(codes)]}"
             for i, order in enumerate(("join", "dtor", "readjoin"))]
        hs.append(h + ["fds"])
        hs.append([f"late closejoin {m} {1500 if m & 3 else 50} {codes[m]}", "fds"])
    for m in (0, 3, 6, 7):
        hs.append([f"late kill {m} 5000 {codes[m]}", "fds"])
    if not quick:
        for m in range(8):
            hs.append([f"late join {m} {d} {c}" for d, c in ((0, 0), (20, 5), (400, 77))] + ["fds"])
    for m in range(4):
        hs.append([f"eofjoin {order} {m} {n} {codes[(m + n) % len(codes)]}" for order in ("join", "dtor") for n in ((0, 1, 40) if quick else (0, 1, 40, 4096, 60000))] + ["fds"])
    hs.append([f"sig {m} {sg}" for m in (0, 1, 7) for sg in (9, 15, 2, 10)] + ["fds"])
    hs.append([f"killbusy {m}" for m in (0, 1, 2, 3, 7)] + ["fds"])
    return hs


def wait_histories(rng, quick):
    """Process::wait / interrupt: scripted scenarios + random histories steered by the reference so that no call blocks
    for ever (a wait that would block gets an interrupter thread)"""
    hs = [
        ["w new", "w start 0 z 7", "w start 1 r", "w wait 10 0 0", "w wait 01 0 0", "w join 0", "w wait 1 30 -", "w kill 1", "w wait 01 0 -"],
        ["w new", "w intr", "w intr", "w wait - 0 -", "w wait - 30 -", "w start 2 z 3", "w intr", "w wait 2 0 2", "w wait 2 0 2", "w join 2"],
        ["w new", "w start 0 r", "w start 1 z 5", "w wait 0 0 1", "w wait 0 0 1", "w join 1", "w die 0", "w wait 0 0 0", "w join 0"],
        ["w new", "w start 3 z 255", "w start 2 z 0", "w start 1 z 1", "w wait 123 0 3", "w join 3", "w wait 123 0 2", "w join 2", "w wait 123 0 1",
         "w join 1", "w wait 123 0 -", "w intr", "w wait 123 0 -"],
        ["w new", "w start 0 r", "w wait 0 30 -", "w wait 0 30 -", "w intr", "w start 1 z 9", "w wait 01 0 1", "w wait 01 0 1", "w join 1", "w kill 0"],
        ["w new", "w start 0 z 4", "w wait 0 30 0", "w wait 0 0 0", "w wait 0 0 0", "w join 0", "w join 0", "w kill 0", "w die 0"],
    ]
    for _ in range(120 if quick else 1500):
        ref, h = WaitRef(), ["w new"]
        for _ in range(rng.choice([4, 8, 12, 16])):
            k = rng.random()
            i = rng.randrange(4)
            if k < 0.22:
                l = f"w start {i} z {rng.choice([0, 1, 7, 200, 255])}"
            elif k < 0.34:
                l = f"w start {i} r"
            elif k < 0.42:
                l = f"w die {i}"
            elif k < 0.57:
                l = f"w join {i}"
            elif k < 0.62:
                l = f"w kill {i}"
            elif k < 0.72:
                l = "w intr"
            else:
                n = rng.choice([0, 1, 1, 2, 3, 4])
                lst = rng.sample(range(4), n)
                ms = 30 if ref.blocks(lst) else (30 if rng.random() < 0.04 else 0)
                z = ref.oldest_zombie()
                l = f"w wait {''.join(map(str, lst)) or '-'} {ms} {'-' if z is None else z}"
            t = l.split()
            if t[1] == "join" and ref.objs[i] and not ref.objs[i]["z"]:
                l = f"w die {i}"              # joining a running child would block: let it terminate instead
            ref.step(l.split())
            h.append(l)
        hs.append(h)
    return [h + ["w new", "fds"] for h in hs]


SEL_SCRIPTS = ["", "", "I", "T", "IT", "TTI", "TIT", "IIII"]


def sel_lines(rng, quick):
    """the three-argument read: queued data x end-of-file x descriptor order x request masks x select scripts; calls that would
    block are cut off"""
    ls = []
    for nout in (0, 3):
        for nerr in (0, 2):
            for hold in (0, 1):
                for swap in (0, 1):
                    for _ in range(6 if quick else 40):
                        reads = []
                        for _ in range(rng.choice([1, 2, 3, 4, 6])):
                            tok = f"{rng.choice([1, 2, 8, 8])}.{rng.choice([0, 1, 2, 3, 3, 3, 7, 4])}.{rng.choice(SEL_SCRIPTS)}"
                            if sel_blocks(["sel", str(nout), str(nerr), str(hold), str(swap)] + reads + [tok]):
                                break
                            reads.append(tok)
                        ls.append(f"sel {nout} {nerr} {hold} {swap}" + "".join(" " + r for r in reads))
    ls += [f"sel 60000 60000 {h} {sw} 60000.3.T 1.3.I 60000.3.TI" + (" 60000.3." if not h else "") for h in (0, 1) for sw in (0, 1)]
    return ls


def fail_lines(rng, quick):
    ls = [f"joinfail {m} {k} {rng.choice([0, 3, 200])}" for m in range(8) for k in ((0, 1, 3) if quick else (0, 1, 2, 3, 7))]
    return ls + ["startfail cmd", "startfail argv", "dmn ok", "dmn nofile"]


def misc_lines(rng, quick):
    ls = [f"pexit {c}" for c in ([0, 1, 7, 42, 255, 256, 300] if quick else range(0, 300, 7))] + ["ids", "args0"]
    ls += [f"io2 {n} {rng.randrange(250)} {rng.choice([0, 3, 77])}" for n in ([0, 1, 4096, 65536, 200000] if quick else [0, 1, 4095, 4096, 4097, 65536, 65537, 200000, 1 << 20])]
    return ls


def execfail_lines():
    return [f"execfail {k} {m}" for k in ("path", "empty", "blank") for m in range(8)]


def chunks(lines, n):
    return [lines[i:i + n] for i in range(0, len(lines), n)]


BRANCH_HITS = {}


def _hit(k, n=1):
    BRANCH_HITS[k] = BRANCH_HITS.get(k, 0) + n


def nontrivial(h, out):
    """distinct = distinct observation lines of ops that produced at least two results / two words / ran a child;
    also counts which kinds of results the implementation delivered (evidence: branch_hits)"""
    keys = set()
    for l, o in zip(h, out):
        if o.startswith("r"):
            for r in o.split()[1:-1]:
                c, a = r.split(":")
                _hit("args:unknown-option" if c == "63" else "args:missing-value" if c == "58" else
                     ("args:non-option" if a != "-" else "args:empty-non-option") if c == "0" else
                     "args:option-with-value" if a != "-" else "args:option-without-value")
            _hit("args:vectors")
        elif o.startswith("s "):
            _hit("split:lines")
            _hit("split:words", int(o.split()[1]))
            if '22' in [l.split()[1][i:i + 2] for i in range(0, len(l.split()[1]), 2)]:
                _hit("split:lines-with-quote")
        elif o.startswith("x "):
            _hit("run:env-inherited" if " env=inherit" in o else "run:env-given")
        elif o.startswith("late "):
            _hit("late:" + l.split()[1])
        elif o.startswith("p "):
            _hit("proc:call-refused" if o.startswith("p ok=0") else "proc:call-ok")
        elif o.startswith("sel "):
            for tok in l.split()[5:]:
                sc = tok.split(".")[2]
                _hit("read3:select-timeout-then-delivery" if "T" in sc else "read3:select-eintr-then-delivery" if "I" in sc else "read3:plain")
            _hit("read3:eof-reported", o.count("/-"))
            _hit("read3:einval", o.count("r=einval"))
            _hit("read3:stderr-served", o.count("/2/e"))
            keys.add(o)
        elif o.startswith(("jf ", "dmn ", "sf ")):
            keys.add(o)
        elif o.startswith("w wait"):
            if "ret=null" in o:
                w = l.split()
                _hit("wait:null-interrupted-while-blocked" if w[3] != "0" and w[4] == "-" else "wait:null-pending-or-foreign-or-nochild")
            else:
                _hit("wait:returned-terminated-child")
            if len(h) >= 3:
                keys.add((tuple(h[:h.index(l) + 1]) if l in h else tuple(h), o))
        if o.startswith(("p ", "e ")) and len(h) >= 3:
            keys.add((tuple(h), o))
        elif o.count(":") >= 2 or (o.startswith("s ") and not o.startswith("s 0") and not o.startswith("s 1 ")) or o.startswith(("x ", "io ", "exit ", "late ", "sig ", "kb ", "ej ")):
            keys.add(o.split(" | ")[0] if o.startswith("x ") else o)
    return frozenset(keys) if keys else None


def build_child(ctx):
    out = C.BUILD / f"args_child_{os.getpid()}"
    rc, o = C.sh([os.environ.get("CC", "gcc"), "-O1", "-o", str(out), str(C.VERIF / "harness" / "args_child.c")], timeout=300)
    if rc != 0:
        ctx.broken.append("helper child does not compile: " + o[-600:])
        return None
    if any(ch in str(out) for ch in ' "\\'):
        ctx.broken.append(f"build directory {out} contains a blank, quote or backslash: the command-line form cannot name the helper child")
        return None
    return out


AMAX = {True: 4, False: 5}      # quick / thorough: words per argument vector in the exhaustive scope
SMAX = {True: 8, False: 9}      # symbols per command line in the exhaustive scope


def histories_for(ctx):
    rng, quick = ctx.rng, ctx.tier == "quick"
    corpus = C.load_corpus(ctx.prop)
    ea = exhaustive_args(AMAX[quick])
    ra = random_args(rng, 20000 if quick else 300000)
    es = exhaustive_split(SMAX[quick])
    es2 = [] if quick else exhaustive_split(6, [b"a", b"b", b" ", b'"', b"\\"])
    rs = random_split(rng, 4000 if quick else 60000)
    rr, expect = rendered_split(rng, 3000 if quick else 40000)
    RENDER_EXPECT.clear()
    RENDER_EXPECT.update(expect)
    rs = rs + rr
    rl, il, xl = run_lines(rng, quick), io_lines(rng, quick), exit_lines(rng, quick)
    ph = proc_histories(rng, quick)
    eh = env_histories(rng, quick)
    lh = late_histories(rng, quick)
    wh = wait_histories(rng, quick)
    ea2 = exhaustive_args2(3 if quick else 4)
    ml = misc_lines(rng, quick)
    sl, fl = sel_lines(rng, quick), fail_lines(rng, quick)
    hs = corpus + ph + eh + wh + chunks(ea2, 40) + [c + ["fds"] for c in chunks(ml, 4) + chunks(sl, 6) + chunks(fl, 5)] + chunks(ea, 40) + chunks(ra, 40) + chunks(es + es2, 40) + chunks(rs, 40) + [c + ["fds"] for c in chunks(rl, 8) + chunks(il, 3) + chunks(xl, 8) + chunks(execfail_lines(), 6)]
    # the histories with waiting children are spread over the list so that they land in different parallel chunks
    step = max(1, len(hs) // (len(lh) + 1))
    for i, h in enumerate(lh):
        hs.insert(min(len(hs), (i + 1) * step + i), h)
    ctx.cov["rule"] = (
        f"corpus ({len(corpus)}) + args: every argv of <= {AMAX[quick]} words over {len(WORDS)} words "
        f"({', '.join(w.decode() for w in WORDS)}) with the option table a/alpha=flag, b=flag without long name, o/out=required value, "
        f"p/opt=optional value ({len(ea)} vectors), each word and option name in an exactly sized heap buffer under ASan, "
        f"+ {len(ra)} random vectors of 0..8 words over random tables (0..6 options, null/empty/prefix/duplicate names, all four flag values, "
        f"negative and special characters); split: every command line of <= {SMAX[quick]} symbols over w, blank, quote, backslash "
        f"({len(es)}){'' if quick else f' and <= 6 symbols over a, b, blank, quote, backslash ({len(es2)})'} + {len(rs) - len(rr)} random lines + {len(rr)} random argument vectors (empty words, blanks, quotes, backslashes) rendered by the universal quoting (expected result: the vector itself), 20 s watchdog; "
        f"run: {len(rl)} launches of the helper child through every start/open form x redirection mask x environment (empty=inherit, 1..3 variables) "
        f"with argv/environment echoed back; io: redirection masks 0..7 x payload sizes {SIZES} ({len(il)} runs, stdin payload written and "
        f"stdout/stderr read to end-of-file, CRC-32 compared); exit: {len(xl)} exit codes through start(command)+join; Process object: every sequence of <= {3 if quick else 4} calls over {len(POPS)} calls (start, open with masks 0/1/7, join, kill, close, isRunning, read with stream selection, destructor, open with a failing vfork) + random sequences ({len(ph)} histories; pid/descriptor bookkeeping, results, EINVAL; every history ends with a count of leaked descriptors), join/destructor/close+join/kill while the child is still going to write to its redirected streams ({len(lh)} histories: all masks, the child waits, writes one line per redirected output stream, leaves a marker file and exits with a non-zero code; join must return that code whether or not the parent has read anything), join/destructor with a child that first reads its redirected stdin to the end (the parent neither closes stdin nor reads: join itself must end the input; 4 masks x sizes), children terminated by signals, a child writing without end is killed; a child blocked on its stdin is killed (4 masks); the descriptor tables of parent and child after open() read through /proc and compared with the descriptor-table model (8 masks); an executable that cannot be started (missing file, empty and blank command line) x masks 0..7: launch succeeds, exit code EXIT_FAILURE, `<program>: No such file or directory` on the redirected stderr; environment: {len(eh)} random histories of setEnvironmentVariable/getEnvironmentVariable/getEnvironmentVariables mixed with launches that inherit the environment. "
f"Added in the extension round: wait/interrupt: {len(wh)} histories over 4 Process objects (terminated / running children, child "
        f"exit from outside, join, kill, interrupt before / during (interrupter thread) / after wait, permuted and partial lists, count 0), "
        f"each line with pending flag and a census of the harness's children; every argv of <= {3 if quick else 4} words over {len(WORDS2)} words with "
        f"a table holding duplicate letters and names, the letters '-' and ':' and empty long names ({len(ea2)}); argc = 0; Process::exit x "
        f"codes, getCurrentProcessId, getExecutablePath, 2-argument read + write + close(streams) x sizes; join(), start(argv), "
        f"open(command) on a busy object, open() with the 1st/2nd/3rd pipe() failing; environ entries without '='. "
f"Round 2: sel: {len(sl)} runs of read(buf, len, streams) under a scripted select; joinfail/startfail/dmn: {len(fl)} lines. "
        "distinct_nontrivial = distinct observation lines with >= 2 results / >= 2 words / a child run")
    ctx.cov["open_statements"] = [
        "run-time delivery (the child observes argv/environ as given, join returns its exit code, redirected bytes arrive intact up to "
        "end-of-file): needs a kernel model; proved part = process_delivery_partial / argv_env_exact* (what is passed to execvpe, which pipes "
        "are requested), open_pipe_ends_exact and the protocol-level *_in_pipe_model theorems (over the abstract kernel model of Kernel.lean); that Linux behaves like "
        "that model and that execvpe hands argv/envp on unchanged is tested against the real kernel by the run/io/exit/late/eofjoin/sig/killbusy/execfail/p/killtest/fdtable streams"]
    ctx.cov["exhaustive"] = True
    ctx.cov["exhaustive_scope"] = (f"argv words<={AMAX[quick]} over {len(WORDS)}-word alphabet: {len(ea)}; command lines <= {SMAX[quick]} "
                                   f"symbols over 4: {len(es)}; redirection masks 8 x sizes {len(SIZES)}; exit codes: {len(xl)}")
    return hs


ASSUMPTIONS = [
    "tie by translation (tools/gen_args.py -> Nstd/Generated/ArgsCode.lean, proved equal to the model in PropsCode.lean): the semantics given to "
    "the translated C++ subset (CSem.lean: checked blocks, null | (block, offset) pointers, char** / const Option* as indices, operands "
    "evaluated left to right, short-circuit operators and ?: as control flow, loops over fuel, char compared as bytes, int <- char sign-extends); "
    "String::attach/append/clear/isEmpty and List::append are hand-modelled primitives (String::length/find/compare are translated: PropsStr.lean); "
    "argv bytes < 256; system calls of "
    "the translated Process functions: close/kill/_exit/read/write append to a trace, waitpid / select / ::read on a pipe are answered by an oracle "
    "resp. the assumed kernel of ReadSel.lean (CSemProc.lean, CSemSel.lean); setenv/unsetenv as POSIX documents",
    "memory model of the Lean model: every argv word and every option name is a separate block holding the bytes and the terminator; reads are checked against its extent",
    "the option table is an array of valid entries (names are null or C strings)",
    "Map<String,String> iterates in ascending key order (property C01)",
    "vfork/execvpe/pipe/dup2/waitpid/select/read/write behave as documented by POSIX/Linux; pipe() does not return descriptor 0; these run-time parts are tested against the real kernel, not proved",
    "allocation (alloca/new) never fails",
    "wait/interrupt model (Wait.lean): process table with arbitrary pid allocation incl. reuse of reaped pids, child-exit oracle, waitpid reaps, "
    "waitid(P_ALL, WEXITED|WNOWAIT) reports some terminated child without reaping / ECHILD without children, vfork returns in the parent after the "
    "child's _exit; one owner thread; interrupt() atomic and its vfork succeeds; correspondence run only: waitid reports the oldest terminated child",
    "read model (ReadSel.lean): select examines only descriptors below nfds and leaves the other bits, reports readable = data queued or no writer "
    "left, a time-out clears the examined bits and zeroes tv (Linux), EINTR leaves the set; a blocking ::read on a pipe returns min(length, queued)",
    "pipe model for arbitrary programs (Pipes.lean): one holder per pipe end, EPIPE for the parent (SIGPIPE ignored), SIGPIPE kills the child",
    "abstract kernel model (Kernel.lean): a pipe is a bounded FIFO with partial reads/writes and end-of-file when no write end is left; "
    "pipe() returns unused descriptors > 2; vfork copies the descriptor table; its adequacy for Linux is assumed and cross-checked by the io/fdtable streams",
]


def check(ctx):
    ctx.assumptions += ASSUMPTIONS
    proof_ok = C.proof_stage(ctx, PROPS, [DRIVER], gen=gen_args.gen, leanchecker=(ctx.tier == "thorough"))
    harness = C.build_harness(ctx, "args", SOURCES)
    child = build_child(ctx)
    if harness is None or child is None or not C.driver_path(DRIVER).exists():
        return
    try:
        hs = histories_for(ctx)
        if not proof_ok:
            ctx.log("proof stage broken: searching harder for a failing input")
            hs += chunks(random_args(ctx.rng, 200000), 40) + chunks(random_split(ctx.rng, 50000), 40)
        ops = {}
        for h in hs:
            for l in h:
                k = l.split()[0] + ("/" + l.split()[1] if l.startswith(("run", "env", "p ")) else "")
                ops[k] = ops.get(k, 0) + 1
        ctx.cov["op_histogram"] = ops
        ctx.cov["samples"] = [" ; ".join(h[:3]) for h in (hs[:1] + hs[len(hs) // 3: len(hs) // 3 + 1] + hs[len(hs) // 2: len(hs) // 2 + 2] + hs[-40:-39] + hs[-1:])]
        diffs = C.differential(ctx, harness, C.driver_path(DRIVER), hs, reference, model_eq, nontrivial=nontrivial,
                               harness_args=(str(child),), timeout=600)
        for k, v in PYGETOPT.items():
            BRANCH_HITS["args:python-gnu_getopt-" + k] = v
        ctx.cov["branch_hits"] = dict(sorted(BRANCH_HITS.items()))
        ctx.log(f"{len(hs)} histories, {ctx.cov['evaluations']} op lines, {len(diffs)} disagreement(s)")
        C.report_diffs(ctx, diffs, harness, C.driver_path(DRIVER), reference, model_eq, "args-ops", harness_args=(str(child),))
    finally:
        for f in (harness, child):
            try:
                f.unlink()
            except OSError:
                pass


def replay(ctx, path):
    h = C.parse_replay(path)
    harness = C.build_harness(ctx, "args", SOURCES)
    child = build_child(ctx)
    C.lake_build([DRIVER])
    if harness is None or child is None:
        return
    diffs = C.differential(ctx, harness, C.driver_path(DRIVER), [h], reference, model_eq, harness_args=(str(child),))
    for d in diffs:
        print(d.text())
        ctx.violation(f"replay: {d.kind}", d.text())
    for f in (harness, child):
        f.unlink()
