"""Sync area (C11): translator of the member-function bodies of Mutex / Signal / Monitor (POSIX branch) into their
POSIX-level control-flow tables (lean/Nstd/Generated/SyncCfg.lean), used by tools/areas/sync.py (`translate_cfg`).

A member function is parsed (small C++ subset, everything else is REFUSED) and executed symbolically: the library code
between two POSIX calls is straight-line code over the `signaled` flag, bool locals and the result of the last call; it
is run for both values of the flag and both results of the call (success / failure).  The result is a canonical table
(nodes numbered in order of discovery from the entry):

    node = the pending POSIX call; for (call succeeded?, flag value seen) an edge = (flag store or none,
           next node | return value);  no edge where a VERIFY(...) of the call result fails (the library traps)

Formatting, comments, names of locals, `for(;;)` vs `while`, `break` vs early `return` do not matter: equivalent
control flow gives the same table.  The Lean theorems `*_step_is_translated_code` (PropsCfg.lean) say that every step
of the hand-written transition systems that completes a POSIX call follows exactly these tables.
"""
import re

CALLS = {  # POSIX call -> (Lean constructor, argument pattern over normalised tokens)
    "pthread_mutex_lock": ("mutexLock", r"\( pthread_mutex_t \* \) m?data"),
    "pthread_mutex_trylock": ("mutexTryLock", r"\( pthread_mutex_t \* \) m?data"),
    "pthread_mutex_unlock": ("mutexUnlock", r"\( pthread_mutex_t \* \) m?data"),
    "pthread_cond_wait": ("condWait", r"\( pthread_cond_t \* \) cdata , \( pthread_mutex_t \* \) mdata"),
    "pthread_cond_timedwait": ("condTimedWait", r"\( pthread_cond_t \* \) cdata , \( pthread_mutex_t \* \) mdata , & ts"),
    "pthread_cond_signal": ("condSignal", r"\( pthread_cond_t \* \) cdata"),
    "pthread_cond_broadcast": ("condBroadcast", r"\( pthread_cond_t \* \) cdata"),
    # semaphore calls report failure as -1 (+ errno, which the three simple member functions do not look at)
    "sem_post": ("semPost", r"\( sem_t \* \) data"),
    "sem_wait": ("semWait", r"\( sem_t \* \) data"),
    "sem_trywait": ("semTryWait", r"\( sem_t \* \) data"),
}
MINUS_ONE = ("semPost", "semWait", "semTryWait")
_TOK = re.compile(r"[A-Za-z_]\w*|\d+|==|!=|&&|\|\||[^\s\w]")


class CfgErr(Exception):
    pass


class Parser:
    def __init__(self, text, what):
        self.t = _TOK.findall(text)
        self.i = 0
        self.what = what
        self.locals = set()

    def peek(self, k=0):
        return self.t[self.i + k] if self.i + k < len(self.t) else None

    def take(self, v=None):
        x = self.peek()
        if x is None or (v is not None and x != v):
            raise CfgErr(f"{self.what}: expected {v!r}, found {x!r} (token {self.i})")
        self.i += 1
        return x

    # ---- expressions ---------------------------------------------------------------------------
    def call(self):
        name = self.take()
        if name not in CALLS:
            raise CfgErr(f"{self.what}: call of {name} is not in the translated subset")
        self.take("(")
        depth, args = 1, []
        while depth:
            x = self.take()
            depth += {"(": 1, ")": -1}.get(x, 0)
            if depth:
                args.append(x)
        if not re.fullmatch(CALLS[name][1], " ".join(args)):
            raise CfgErr(f"{self.what}: unexpected arguments of {name}: {' '.join(args)}")
        return CALLS[name][0]

    def callcmp(self):
        """CALL (== | !=) (0 | -1)  ->  ("callcmp", call, truth_when_ok) : is the comparison true when the call succeeded"""
        c = self.call()
        op = self.take()
        if op not in ("==", "!="):
            raise CfgErr(f"{self.what}: result of {c} is not compared with == / !=")
        neg = False
        if self.peek() == "-":
            self.take()
            neg = True
        v = self.take()
        if c in MINUS_ONE:
            if (neg, v) != (True, "1"):
                raise CfgErr(f"{self.what}: a sem_ call is compared with {'-' if neg else ''}{v} (-1 expected)")
            return ("callcmp", c, op == "!=")
        if (neg, v) != (False, "0"):
            raise CfgErr(f"{self.what}: a pthread call is compared with {'-' if neg else ''}{v} (0 expected)")
        return ("callcmp", c, op == "==")

    def bexpr(self):
        a = self.band()
        while self.peek() == "||":
            self.take()
            a = ("or", a, self.band())
        return a

    def band(self):
        a = self.bun()
        while self.peek() == "&&":
            self.take()
            a = ("and", a, self.bun())
        return a

    def bun(self):
        x = self.peek()
        if x == "!":
            self.take()
            return ("not", self.bun())
        if x == "(":
            self.take()
            e = self.bexpr()
            self.take(")")
            return e
        if x in ("true", "false"):
            self.take()
            return (x,)
        if x == "signaled":
            self.take()
            return ("flag",)
        if x in self.locals:
            self.take()
            return ("var", x)
        raise CfgErr(f"{self.what}: {x!r} in a condition is not in the translated subset")

    def cond(self):
        """a condition is either ONE call comparison or a call-free boolean expression"""
        return self.callcmp() if self.peek() in CALLS else self.bexpr()

    # ---- statements ----------------------------------------------------------------------------
    def stmt(self):
        x = self.peek()
        if x == "{":
            self.take()
            l = []
            while self.peek() != "}":
                l.append(self.stmt())
            self.take()
            return ("block", tuple(l))
        if x == "if":
            self.take(); self.take("(")
            c = self.cond()
            self.take(")")
            a = self.stmt()
            b = None
            if self.peek() == "else":
                self.take()
                b = self.stmt()
            return ("if", c, a, b)
        if x == "for":
            self.take(); self.take("("); self.take(";"); self.take(";"); self.take(")")
            return ("loop", None, self.stmt())
        if x == "while":
            self.take(); self.take("(")
            c = self.bexpr()
            self.take(")")
            return ("loop", c, self.stmt())
        if x == "do":
            self.take()
            body = self.stmt()
            self.take("while"); self.take("(")
            c = self.bexpr()
            self.take(")"); self.take(";")
            return ("dowhile", c, body)
        if x == "DEADLINE":
            self.take(); self.take(";")
            return ("clock",)
        if x == "ASSERT":                      # debug-build check without effect on the control flow; must be call-free
            self.take(); self.take("(")
            depth = 1
            while depth:
                y = self.take()
                if y in CALLS or y in ("pthread_create", "pthread_join", "sem_timedwait", "usleep", "signaled", "="):
                    raise CfgErr(f"{self.what}: ASSERT with a call / the flag")
                depth += {"(": 1, ")": -1}.get(y, 0)
            self.take(";")
            return ("block", ())
        if x in ("break", "continue"):
            self.take(); self.take(";")
            return (x,)
        if x == "return":
            self.take()
            if self.peek() == ";":
                self.take()
                return ("return", None)
            e = self.cond()
            self.take(";")
            return ("return", e)
        if x == "VERIFY":
            self.take(); self.take("(")
            e = self.callcmp()
            self.take(")"); self.take(";")
            return ("verify", e)
        if x in CALLS:
            c = self.call()
            self.take(";")
            return ("bare", c)
        if x in ("const", "bool"):
            if x == "const":
                self.take()
            self.take("bool")
            name = self.take()
            if not re.fullmatch(r"[A-Za-z_]\w*", name) or name in ("signaled", "true", "false") or name in CALLS:
                raise CfgErr(f"{self.what}: bad local name {name}")
            self.locals.add(name)
            if self.peek() == ";":             # declared without a value: reading it before an assignment is refused by the executor
                self.take()
                return ("block", ())
            self.take("=")
            if self.peek() in CALLS:
                e = self.callcmp()
                self.take(";")
                return ("assigncall", name, e)
            e = self.bexpr()
            self.take(";")
            return ("assign", name, e)
        if x == "signaled" or x in self.locals:
            self.take(); self.take("=")
            if x != "signaled" and self.peek() in CALLS:
                e = self.callcmp()
                self.take(";")
                return ("assigncall", x, e)
            e = self.bexpr()
            self.take(";")
            return ("assign", "signaled" if x == "signaled" else x, e)
        raise CfgErr(f"{self.what}: statement starting with {x!r} is not in the translated subset")

    def body(self):
        l = []
        while self.peek() is not None:
            l.append(self.stmt())
        return ("block", tuple(l))


class ThreadParser(Parser):
    """Thread.cpp / Thread.hpp: the role of the flag is played by the handle `thread` (truth value: attached).  Input is the
    normalised POSIX branch in which tools/areas/sync.py has replaced the functor statements of the member overload by
    `STOREFUNC ;` and inlined `return start(...)` / `join()`.  Locals: the new handle (`pthread_t h;`), a copy of the member
    handle (`const pthread_t h = (pthread_t)thread;`), the result pointer (`void* r [= 0];`) - any names."""

    def __init__(self, text, what):
        super().__init__(text, what)
        self.hlocal = None           # local that receives the handle from pthread_create
        self.halias = None           # local copy of the member handle (for pthread_join)
        self.result = None           # void* filled by pthread_join

    @property
    def shadow(self):
        return self.hlocal == "thread"

    def args(self):
        self.take("(")
        depth, args = 1, []
        while depth:
            x = self.take()
            depth += {"(": 1, ")": -1}.get(x, 0)
            if depth:
                args.append(x)
        return " ".join(args)

    def call(self):
        name = self.take()
        a = self.args()
        if name == "pthread_create":
            if self.hlocal is None or a != f"& {self.hlocal} , 0 , ( void * ( * ) ( void * ) ) proc , param":
                raise CfgErr(f"{self.what}: unexpected arguments of pthread_create: {a}")
            return "threadCreate"
        if name == "pthread_join":
            ok = self.result is not None and (a == f"( pthread_t ) thread , & {self.result}" and not self.shadow
                                              or self.halias is not None and a == f"{self.halias} , & {self.result}")
            if not ok:
                raise CfgErr(f"{self.what}: unexpected arguments of pthread_join: {a}")
            return "threadJoin"
        raise CfgErr(f"{self.what}: call of {name} is not in the translated subset")

    def is_member(self):
        return (self.peek() == "thread" and not self.shadow) or (self.peek() == "this" and self.peek(1) == "-" and self.peek(2) == ">" and self.peek(3) == "thread")

    def take_member(self):
        if self.peek() == "this":
            self.take(); self.take("-"); self.take(">")
        self.take("thread")

    def bun(self):
        if self.is_member():
            self.take_member()
            return ("flag",)
        return super().bun()

    def cond(self):
        return self.callcmp() if self.peek() in ("pthread_create", "pthread_join") else self.bexpr()

    def stmt(self):
        x = self.peek()
        if x == "pthread_t" and self.peek(2) == ";":
            self.hlocal = self.peek(1)
            self.i += 3
            return ("block", ())
        if x == "const" and self.peek(1) == "pthread_t" and [self.peek(k) for k in range(3, 9)] == ["=", "(", "pthread_t", ")", "thread", ";"] and not self.shadow:
            self.halias = self.peek(2)
            self.i += 9
            return ("block", ())
        if x == "void" and self.peek(1) == "*" and (self.peek(3) == ";" or [self.peek(k) for k in range(3, 6)] == ["=", "0", ";"]):
            self.result = self.peek(2)
            self.i += 4 if self.peek(3) == ";" else 6
            return ("block", ())
        if x == "STOREFUNC":
            self.take(); self.take(";")
            return ("func",)
        if x == "VERIFY":
            self.take(); self.take("(")
            e = self.callcmp()
            self.take(")"); self.take(";")
            return ("verify", e)
        if x == "return":
            rest = []
            k = 1
            while self.peek(k) not in (";", None):
                rest.append(self.peek(k))
                k += 1
            if rest == ["0"]:
                self.i += 3
                return ("return", ("zero",))
            if self.result is not None and rest == ["(", "uint", ")", "(", "intptr_t", ")", self.result]:
                self.i += 9
                return ("return", ("joined",))
        if self.is_member() and x != "if":
            self.take_member()
            self.take("=")
            if self.peek() == "0":
                self.take(); self.take(";")
                return ("assign", "signaled", ("false",))
            if self.hlocal is None:
                raise CfgErr(f"{self.what}: the handle is set without a pthread_create result")
            for tk in ("(", "void", "*", ")", self.hlocal, ";"):
                self.take(tk)
            return ("assign", "signaled", ("true",))
        return super().stmt()


# ---- symbolic execution --------------------------------------------------------------------------
# continuation = tuple of frames, innermost first:  ("seq", stmts, idx)  rest of a block;  ("loop", loopstmt)  re-test the loop
class Run:
    def __init__(self, what):
        self.what = what

    def ev(self, e, env, flag):
        k = e[0]
        if k == "true":
            return True
        if k == "false":
            return False
        if k == "flag":
            return flag
        if k == "var":
            if e[1] not in env:
                raise CfgErr(f"{self.what}: local {e[1]} is read before it is assigned")
            return env[e[1]]
        if k == "not":
            return not self.ev(e[1], env, flag)
        if k == "and":
            return self.ev(e[1], env, flag) and self.ev(e[2], env, flag)
        if k == "or":
            return self.ev(e[1], env, flag) or self.ev(e[2], env, flag)
        raise CfgErr(f"{self.what}: internal: {k}")

    def unwind(self, cont, kind):
        """break / continue: pop frames up to the innermost loop"""
        for i, f in enumerate(cont):
            if f[0] == "loop":
                return cont[i + 1:] if kind == "break" else cont[i:]
        raise CfgErr(f"{self.what}: {kind} outside a loop")

    def run(self, cont, env, flag):
        """executes library code until the next POSIX call or the return; returns
           ("call", pcall, use, cont, env, flag, written, funcw) with use = ("verify"|"if"|"ret"|"bare", ...)   or
           ("ret", value, flag, written, funcw); value = None (void) | True | False | "zero" | "joined" """
        env = dict(env)
        written = None
        funcw = False        # the functor of Thread::start(obj, member) was stored
        clockr = False       # the clock was read / the deadline computed (DEADLINE marker)
        todo = None          # statement to execute next
        for _ in range(2000):
            if todo is None:
                if not cont:
                    return ("ret", None, flag, written, funcw, clockr)   # falls off the end of a void function
                f = cont[0]
                if f[0] == "seq":
                    _, stmts, idx = f
                    if idx >= len(stmts):
                        cont = cont[1:]
                        continue
                    todo = stmts[idx]
                    cont = (("seq", stmts, idx + 1),) + cont[1:]
                else:                                             # loop frame: test and (re-)enter the body
                    loop = f[1]
                    if loop[1] is None or self.ev(loop[1], env, flag):
                        todo = loop[2]
                    else:
                        cont = cont[1:]
                    continue
            s, todo = todo, None
            k = s[0]
            if k == "block":
                cont = (("seq", s[1], 0),) + cont
            elif k == "if":
                c = s[1]
                if c[0] == "callcmp":
                    return ("call", c[1], ("if", c[2], s[2], s[3]), cont, env, flag, written, funcw, clockr)
                br = s[2] if self.ev(c, env, flag) else s[3]
                todo = br
            elif k == "loop":
                cont = (("loop", s),) + cont
            elif k in ("break", "continue"):
                cont = self.unwind(cont, k)
            elif k == "return":
                if s[1] is None:
                    return ("ret", None, flag, written, funcw, clockr)
                if s[1][0] == "callcmp":
                    return ("call", s[1][1], ("ret", s[1][2]), cont, env, flag, written, funcw, clockr)
                if s[1][0] in ("zero", "joined"):
                    return ("ret", s[1][0], flag, written, funcw, clockr)
                return ("ret", self.ev(s[1], env, flag), flag, written, funcw, clockr)
            elif k == "verify":
                return ("call", s[1][1], ("verify", s[1][2]), cont, env, flag, written, funcw, clockr)
            elif k == "bare":
                return ("call", s[1], ("bare",), cont, env, flag, written, funcw, clockr)
            elif k == "assigncall":
                return ("call", s[2][1], ("assign", s[2][2], s[1]), cont, env, flag, written, funcw, clockr)
            elif k == "func":
                funcw = True
            elif k == "clock":
                clockr = True
            elif k == "dowhile":
                cont = (("loop", ("loop", s[1], s[2])),) + cont
                todo = s[2]
            elif k == "assign":
                v = self.ev(s[2], env, flag)
                if s[1] == "signaled":
                    flag, written = v, v
                else:
                    env[s[1]] = v
            else:
                raise CfgErr(f"{self.what}: internal: {k}")
        raise CfgErr(f"{self.what}: library code loops without a POSIX call")

    def resume(self, use, cont, env, ok, flag):
        """the pending call returned (ok = it succeeded): the code that consumes its result, then `run`"""
        k = use[0]
        if k == "bare":
            return self.run(cont, env, flag)
        truth = use[1] if ok else not use[1]
        if k == "verify":
            return None if not truth else self.run(cont, env, flag)
        if k == "ret":
            return ("ret", truth, flag, None, False, False)
        if k == "assign":
            env = dict(env)
            env[use[2]] = truth
            return self.run(cont, env, flag)
        br = use[2] if truth else use[3]
        return self.run(((("seq", (br,), 0),) if br is not None else ()) + cont, env, flag)


def table(text, what, parser=None):
    """returns (entry edges [flag=T, flag=F], nodes [(call, [okT, okF, failT, failF])]); an edge is None or
    (flag store | None, functor stored?, clock read?, ("node", n) | ("ret", v))"""
    p = (parser or Parser)(text, what)
    ast = p.body()
    r = Run(what)
    keys, nodes, pending = {}, [], []

    def key(res):
        _, c, use, cont, env = res[:5]
        return (c, use, cont, tuple(sorted(env.items())))

    def edge(res):
        if res is None:
            return None
        if res[0] == "ret":
            return (res[3], res[4], res[5], ("ret", res[1]))
        k = key(res)
        if k not in keys:
            keys[k] = len(nodes)
            nodes.append([res[1], None])
            pending.append(res)
            if len(nodes) > 40:
                raise CfgErr(f"{what}: more than 40 program points")
        return (res[6], res[7], res[8], ("node", keys[k]))

    entry = [edge(r.run((("seq", (ast,), 0),), {}, fl)) for fl in (True, False)]
    i = 0
    while i < len(pending):
        _, c, use, cont, env = pending[i][:5]
        nodes[i][1] = [edge(r.resume(use, cont, env, ok, fl)) for ok in (True, False) for fl in (True, False)]
        i += 1
    return minimise(entry, [(c, es) for c, es in nodes])


def minimise(entry, nodes):
    """merge program points with the same behaviour (partition refinement) and renumber in order of discovery from the
    entry, so that equivalent control flow gives the identical table"""
    cls = [c for c, _ in nodes]                       # initial classes: the pending call
    while True:
        def sig(i):
            c, es = nodes[i]
            return (cls[i],) + tuple(None if e is None else (e[0], e[1], e[2], ("node", cls[e[3][1]]) if e[3][0] == "node" else e[3]) for e in es)
        sigs = [sig(i) for i in range(len(nodes))]
        if len(set(sigs)) == len(set(cls)):
            break
        cls = sigs
    rep = {}
    for i, c in enumerate(cls):
        rep.setdefault(c, i)
    order, seen = [], {}

    def visit(e):
        if e is not None and e[3][0] == "node":
            c = cls[e[3][1]]
            if c not in seen:
                seen[c] = len(order)
                order.append(rep[c])
    for e in entry:
        visit(e)
    k = 0
    while k < len(order):
        for e in nodes[order[k]][1]:
            visit(e)
        k += 1
    ren = lambda e: None if e is None else (e[0], e[1], e[2], ("node", seen[cls[e[3][1]]]) if e[3][0] == "node" else e[3])
    return [ren(e) for e in entry], [(nodes[i][0], [ren(e) for e in nodes[i][1]]) for i in order]


def strip_deadline(norm_text, what):
    """wait(int64): replace `struct timespec ts; [VERIFY(]clock_gettime(CLOCK_REALTIME, &ts)[== 0)]; <statements that compute the
    deadline>` - wherever it stands - by the marker statement `DEADLINE ;` (the clock is read there) and drop `const long N = <number>;`
    declarations (the arithmetic is translated separately: Generated/SyncDeadline.lean, which also checks that `ts` is not touched
    afterwards)"""
    t = norm_text.split(" ")
    out, i = [], 0
    while i < len(t):                   # named constants of the arithmetic
        if t[i:i + 2] == ["const", "long"] and i + 5 < len(t) and t[i + 3] == "=" and t[i + 4].isdigit() and t[i + 5] == ";":
            i += 6
        else:
            out.append(t[i])
            i += 1
    t = out
    pre = "struct timespec ts ;".split(" ")
    starts = [k for k in range(len(t)) if t[k:k + len(pre)] == pre]
    if len(starts) != 1:
        raise CfgErr(f"{what}: expected exactly one `struct timespec ts;`")
    k = starts[0]
    i = k + len(pre)
    for clk in ("clock_gettime ( CLOCK_REALTIME , & ts ) ;", "VERIFY ( clock_gettime ( CLOCK_REALTIME , & ts ) == 0 ) ;"):
        c = clk.split(" ")
        if t[i:i + len(c)] == c:
            i += len(c)
            break
    else:
        raise CfgErr(f"{what}: `struct timespec ts;` is not followed by clock_gettime(CLOCK_REALTIME, &ts)")

    def skip_stmt(i):
        if t[i] == "{":
            d = 1
            i += 1
            while d:
                d += {"{": 1, "}": -1}.get(t[i], 0)
                i += 1
            return i
        while t[i] != ";":
            i += 1
        return i + 1
    while i < len(t):
        if t[i] in ("ts", "++", "--"):
            i = skip_stmt(i)
        elif t[i] == "ASSERT" and "ts" in t[i:skip_stmt(i)]:
            i = skip_stmt(i)
        elif t[i] == "if" and t[i + 1] == "(" and t[i + 2] == "ts":
            d, i = 1, i + 2
            while d:
                d += {"(": 1, ")": -1}.get(t[i], 0)
                i += 1
            i = skip_stmt(i)
            if i < len(t) and t[i] == "else":
                i = skip_stmt(i + 1)
        else:
            break
    return " ".join(t[:k] + ["DEADLINE", ";"] + t[i:])


# ---- Semaphore::wait(int64): the sem_timedwait retry loop and the ENOSYS polling loop ------------------------------
# Additional subset: `errno == EINTR | ENOSYS`, `continue`, `goto L` / label `L:` at the top level, `usleep(<constant>)`,
# and ONE counted loop `for(int i = A; i < timeout; i += B)` whose variable is used nowhere else: its test is symbolic, so
# the library code after a call is a small decision tree: (counter op?, if i < timeout then .. else ..).
class SemParser(Parser):
    SEM_CALLS = {"sem_timedwait": ("semTimedWait", r"\( sem_t \* \) data , & ts"), "sem_trywait": ("semTryWait", r"\( sem_t \* \) data")}

    def __init__(self, text, what, param="timeout"):
        super().__init__(text, what)
        self.param = param
        self.labels = set()

    def call(self):
        name = self.take()
        if name not in self.SEM_CALLS:
            raise CfgErr(f"{self.what}: call of {name} is not in the translated subset")
        self.take("(")
        depth, args = 1, []
        while depth:
            x = self.take()
            depth += {"(": 1, ")": -1}.get(x, 0)
            if depth:
                args.append(x)
        if not re.fullmatch(self.SEM_CALLS[name][1], " ".join(args)):
            raise CfgErr(f"{self.what}: unexpected arguments of {name}: {' '.join(args)}")
        return self.SEM_CALLS[name][0]

    def callcmp(self):
        c = self.call()
        op = self.take()
        if op not in ("==", "!="):
            raise CfgErr(f"{self.what}: result of {c} is not compared with == / !=")
        self.take("-"); self.take("1")
        return ("callcmp", c, op == "!=")

    def cond(self):
        if self.peek() in self.SEM_CALLS:
            return self.callcmp()
        if self.peek() == "errno":
            self.take()
            op = self.take()
            v = self.take()
            if op not in ("==", "!=") or v not in ("EINTR", "ENOSYS"):
                raise CfgErr(f"{self.what}: errno test not in the translated subset")
            e = ("errno", v)
            return e if op == "==" else ("not", e)
        return self.bexpr()

    def const(self, stop):
        toks = []
        while self.peek() not in stop:
            x = self.take()
            if not re.fullmatch(r"\d+|[*+()]", x):
                raise CfgErr(f"{self.what}: {x!r} in a constant expression")
            toks.append(x)
        try:
            v = eval("".join(toks), {"__builtins__": {}}, {})
        except Exception:
            raise CfgErr(f"{self.what}: bad constant expression {' '.join(toks)}")
        if not isinstance(v, int) or v < 0 or v >= 2 ** 31:
            raise CfgErr(f"{self.what}: constant out of range")
        return v

    def stmt(self):
        x = self.peek()
        if x == "goto":
            self.take()
            l = self.take(); self.take(";")
            return ("goto", l)
        if x == "usleep":
            self.take(); self.take("(")
            depth, toks = 1, []
            while depth:
                y = self.take()
                depth += {"(": 1, ")": -1}.get(y, 0)
                if depth:
                    toks.append(y)
            self.take(";")
            sub = SemParser(" ".join(toks) + " ;", self.what)
            return ("bare", ("usleep", sub.const((";",))))
        if x == "for" and self.peek(2) in ("int", "int64", "long"):
            self.take(); self.take("("); self.take()
            v = self.take(); self.take("=")
            a = self.const((";",)); self.take(";")
            if self.take() != v:
                raise CfgErr(f"{self.what}: loop test is not on the loop variable")
            self.take("<"); self.take(self.param); self.take(";")
            if self.take() != v:
                raise CfgErr(f"{self.what}: loop step is not on the loop variable")
            self.take("+"); self.take("=")
            b = self.const((")",)); self.take(")")
            body = self.stmt()
            if v in self.t[self.i:] or self.t[:self.i].count(v) != 3:
                raise CfgErr(f"{self.what}: the loop variable {v} is used outside the loop head")
            return ("cfor", a, b, body)
        if x == "if":
            self.take(); self.take("(")
            c = self.cond()
            self.take(")")
            a = self.stmt()
            b = None
            if self.peek() == "else":
                self.take()
                b = self.stmt()
            return ("if", c, a, b)
        if re.fullmatch(r"[A-Za-z_]\w*", x or "") and self.peek(1) == ":" and x not in ("default", "case"):
            self.take(); self.take(":")
            self.labels.add(x)
            return ("label", x)
        return super().stmt()


class SemRun(Run):
    """results are decision trees:  leaf = ("call", c, use, cont, env, ctr) | ("ret", v, ctr);  ("iflt", ctr, then, else)
    where ctr = None | ("init", a) | ("add", b): the counter operation performed before the leaf / the test"""

    def __init__(self, what, top):
        super().__init__(what)
        self.top = top           # the top-level statement tuple (targets of goto)

    def ev(self, e, env, flag):
        if e[0] == "errno":
            return env.get("errno") == e[1]
        return super().ev(e, env, flag)

    def run(self, cont, env, flag, ctr=None):
        env = dict(env)
        todo = None
        for _ in range(2000):
            if todo is None:
                if not cont:
                    return ("ret", None, ctr)
                f = cont[0]
                if f[0] == "seq":
                    _, stmts, idx = f
                    if idx >= len(stmts):
                        cont = cont[1:]
                        continue
                    todo = stmts[idx]
                    cont = (("seq", stmts, idx + 1),) + cont[1:]
                elif f[0] == "cforstep":          # end of the body of the counted loop: i += B; test
                    if ctr is not None:
                        raise CfgErr(f"{self.what}: two counter operations between POSIX calls")
                    loop = f[1]
                    return ("iflt", ("add", loop[2]), self.run((("seq", (loop[3],), 0),) + cont, env, flag), self.run(cont[1:], env, flag))
                else:
                    loop = f[1]
                    if loop[1] is None or self.ev(loop[1], env, flag):
                        todo = loop[2]
                    else:
                        cont = cont[1:]
                    continue
            s, todo = todo, None
            k = s[0]
            if k == "block":
                cont = (("seq", s[1], 0),) + cont
            elif k in ("label", "clock"):
                pass
            elif k == "goto":
                idx = [i for i, st in enumerate(self.top) if st == ("label", s[1])]
                if len(idx) != 1:
                    raise CfgErr(f"{self.what}: goto {s[1]}: no single top-level label")
                cont = (("seq", self.top, idx[0] + 1),)
            elif k == "cfor":
                if ctr is not None:
                    raise CfgErr(f"{self.what}: two counter operations between POSIX calls")
                c2 = (("cforstep", s),) + cont
                return ("iflt", ("init", s[1]), self.run((("seq", (s[3],), 0),) + c2, env, flag), self.run(cont, env, flag))
            elif k == "if":
                c = s[1]
                if c[0] == "callcmp":
                    return ("call", c[1], ("if", c[2], s[2], s[3]), cont, env, ctr)
                todo = s[2] if self.ev(c, env, flag) else s[3]
            elif k == "loop":
                cont = (("loop", s),) + cont
            elif k in ("break", "continue"):
                for i, f in enumerate(cont):
                    if f[0] in ("loop", "cforstep"):
                        cont = cont[i + 1:] if k == "break" else cont[i:]
                        break
                else:
                    raise CfgErr(f"{self.what}: {k} outside a loop")
            elif k == "return":
                if s[1] is None:
                    return ("ret", None, ctr)
                if s[1][0] == "callcmp":
                    return ("call", s[1][1], ("ret", s[1][2]), cont, env, ctr)
                return ("ret", self.ev(s[1], env, flag), ctr)
            elif k == "verify":
                return ("call", s[1][1], ("verify", s[1][2]), cont, env, ctr)
            elif k == "bare":
                return ("call", s[1], ("bare",), cont, env, ctr)
            elif k == "assign" and s[1] != "signaled":
                env[s[1]] = self.ev(s[2], env, flag)
            else:
                raise CfgErr(f"{self.what}: statement {k} is not in the subset of Semaphore::wait(int64)")
        raise CfgErr(f"{self.what}: library code loops without a POSIX call")

    def resume(self, use, cont, env, outcome):
        """outcome = "ok" | "EINTR" | "ENOSYS" | "other" """
        env = dict(env)
        env["errno"] = None if outcome == "ok" else outcome
        ok = outcome == "ok"
        k = use[0]
        if k == "bare":
            return self.run(cont, env, False) if ok else None
        truth = use[1] if ok else not use[1]
        if k == "verify":
            return None if not truth else self.run(cont, env, False)
        if k == "ret":
            return ("ret", truth, None)
        br = use[2] if truth else use[3]
        return self.run(((("seq", (br,), 0),) if br is not None else ()) + cont, env, False)


def sem_table(text, what, param):
    """(entry tree, nodes [(call, {outcome: tree | None})]); tree = ("node", n) | ("ret", bool) | ("iflt", thn, els), each with a counter op"""
    p = SemParser(text, what, param)
    ast = p.body()
    r = SemRun(what, ast[1])
    keys, nodes, pending = {}, [], []

    def conv(res):
        if res is None:
            return None
        if res[0] == "iflt":
            a, b = conv(res[2]), conv(res[3])
            if a is None or b is None or a[0] is not None or b[0] is not None:
                raise CfgErr(f"{what}: counter operation / trap inside a branch of the loop test")
            return (res[1], ("iflt", a[1], b[1]))
        if res[0] == "ret":
            if res[1] is None:
                raise CfgErr(f"{what}: falls off the end of a bool function")
            return (res[2], ("ret", res[1]))
        _, c, use, cont, env, ctr = res
        k = (c, use, cont, tuple(sorted((a, b) for a, b in env.items() if a != "errno")))
        if k not in keys:
            keys[k] = len(nodes)
            nodes.append([c, None])
            pending.append(res)
            if len(nodes) > 20:
                raise CfgErr(f"{what}: more than 20 program points")
        return (ctr, ("node", keys[k]))

    entry = conv(r.run((("seq", (ast,), 0),), {}, False))
    i = 0
    while i < len(pending):
        _, c, use, cont, env, _ = pending[i]
        outs = ("ok",) if isinstance(c, tuple) else ("ok", "EINTR", "ENOSYS", "other")
        nodes[i][1] = {o: conv(r.resume(use, cont, env, o)) for o in outs}
        i += 1
    return entry, nodes


def lean_ptree(t):
    if t[0] == "node":
        return f"(.node {t[1]})"
    if t[0] == "ret":
        return f"(.ret {'true' if t[1] else 'false'})"
    return f"(.ifLess {lean_ptree(t[1])} {lean_ptree(t[2])})"


def lean_pedge(e):
    if e is None:
        return "none"
    ctr, t = e
    c = "none" if ctr is None else f"(some (.{ctr[0]} {ctr[1]}))"
    return f"(some ⟨{c}, {lean_ptree(t)}⟩)"


def lean_sem_fn(name, doc, tab):
    entry, nodes = tab
    rows = []
    for c, es in nodes:
        call = f"(.usleep {c[1]})" if isinstance(c, tuple) else "." + c
        rows.append(f"    ⟨{call}, {lean_pedge(es.get('ok'))}, {lean_pedge(es.get('EINTR'))}, {lean_pedge(es.get('ENOSYS'))}, {lean_pedge(es.get('other'))}⟩")
    return f"/-- {doc} -/\ndef {name} : PollFn :=\n  ⟨{lean_pedge(entry)}, [\n" + ",\n".join(rows) + "]⟩\n"


def lean_edge(e):
    if e is None:
        return "none"
    st, fw, ck, nx = e
    s = "none" if st is None else f"(some {'true' if st else 'false'})"
    if nx[0] == "node":
        n = f"(.node {nx[1]})"
    else:
        n = {None: "(.ret .void)", True: "(.ret (.bool true))", False: "(.ret (.bool false))", "zero": "(.ret .zero)", "joined": "(.ret .joined)"}[nx[1]]
    return f"(some ⟨{s}, {'true' if fw else 'false'}, {'true' if ck else 'false'}, {n}⟩)"


def lean_fn(name, doc, tab):
    entry, nodes = tab
    out = [f"/-- {doc} -/", f"def {name} : Fn :=",
           f"  ⟨{lean_edge(entry[0])}, {lean_edge(entry[1])}, ["]
    out.append(",\n".join(f"    ⟨.{c}, {', '.join(lean_edge(e) for e in es)}⟩" for c, es in nodes) + "]⟩")
    return "\n".join(out) + "\n"
