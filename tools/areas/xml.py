"""C16  XML parsing is total and safe; serialising then parsing is identity.

Stand-alone test of harness vs reference (no Lean driver needed):
    NSTD_REPO=/tmp/wt-xml python3 tools/areas/xml.py [quick|thorough] [seed]
"""
import os
import sys

_here = os.path.dirname(os.path.abspath(__file__))
sys.path[:] = [p for p in sys.path if os.path.abspath(p or ".") != _here]   # this file must not shadow the stdlib package `xml`
sys.path.insert(0, os.path.dirname(_here))

import bisect                                   # noqa: E402
import concurrent.futures as cf                 # noqa: E402
import hashlib                                  # noqa: E402
import itertools                                # noqa: E402
import re                                       # noqa: E402
import xml.etree.ElementTree as ET              # noqa: E402
import common as C                              # noqa: E402

PROPERTIES = ["C16"]
MANIFEST = {
    "C16": {
        "technique": "Lean 4 proof about an executable model of src/Document/Xml.cpp (skipSpace/comment loop, readToken, parseElement/content loop with cursor rewind, processing-instruction loop, unescapeString/escapeString, Element::toString) and of the Xml::Variant / Xml::Element handle heap of Xml.hpp (reference-counted blocks, sharing copies, clear, mutable accessors that clone unless the count is one) + differential correspondence model vs the real Xml.cpp (ASan/UBSan, exactly sized heap copies, watchdog, allocation budget) + independent Python reference (strict regex tokenizer with tag stack, xml.etree, own serialiser, escape/unescape, position checks) + tie by TRANSLATION for the tokenizer: tools/gen_xml.py (lexer + parser + continuation-passing compiler of a C++ subset; refuses what it does not know) rewrites the current bodies of skipSpace / readToken / parseText / syntaxError / String::isSpace / the processing-instruction loop of parse / the loop body and tables of escapeString / unescapeString into Lean on every run (helpers inlined, conditions normalised), and theorems prove the model functions equal to them",
        "text": "Machine-checked theorems over ALL byte strings / ALL element trees of the model: parse_total (the loop fuel text-length+2 handed to every loop and to the recursion is never exhausted), parse_no_oob (every read goes through peek/cstr which yield .oob behind the terminator; never reached), error_pos_inside (a reported line/column is exactly the line/column of an offset 0..length of the text, CR LF / CR / LF line ends), error_pos_exact, element_positions_exact (every element of a successful parse, at any depth, carries the line/column — computed from the text — of an offset at which a '<' stands; the proof carries 'the cursor's line number and line start are the line state of its offset' through every loop, so a stale line start such as a comment end kept as a bare pointer breaks it), comments_are_whitespace + comments_between_tokens + comments_in_content (same-text forms: at every place where the parser looks for a token or for element content, starting in front of a complete comment equals starting behind it — token, next cursor, children, texts, final cursor; in front of a comment <!--body--> with no earlier '-->' skipSpace continues exactly as its outer loop does behind it, with right line bookkeeping; skipSpace is the only white-space skipper), pi_before_root (a <?..?> with ANY body that does not contain '?>' — '<', '<!--', lone '?', CR / LF / CRLF anywhere — is stepped over by one round of the prologue loop: it ends at its first '?>'), pi_prologue_skipped (end to end: white space + any number of such instructions + '<' of the root: parseDoc = parsing the root at the cursor behind the prologue, line bookkeeping right), escape_unescape (unescape(escape s) = s for text and attribute mode), unescape_no_growth, escape_no_overflow_policy (for EVERY reserve policy that reserves at least the minimum), escape_no_overflow (escapeString's own buffer management — initial slack, reserve at every escape, String::detach rounding, raw pointer writes — modelled with checked memory over constants regenerated from the sources: never a write at or behind the capacity, buffer = escape s), roundtrip / roundtrip_element / roundtrip_inside (parse(toString e) = e up to recorded line/column for every tree with well-formed names, distinct attribute keys, arbitrary NUL-free values, non-blank non-adjacent texts; by mutual induction on the tree with the parser positioned inside a larger text).; PropsDecor: roundtrip_decorated / comments_do_not_change_result (two-text form of the comment clause: for every well-formed tree, every placement of white-space/comment runs at every place where the tokenizer skips white space — before the root, inside start and end tags, around '=', before child elements and end tags, next to text — and either quote kind per attribute, the decorated text parses to the same tree as the plain serialisation); PropsHeap (copy independence on the handle heap, under the invariant 'reference count >= number of handles'): release_keeps_values (dropping handles frees only blocks nobody points to and keeps the value of every variable), step_independent / independent / copy_then_any_history / assign_copies_value / reach_inv (for ALL histories of ALL operations of the model — Variant copy assignment, clear, operator=(const String&) incl. its in-place write when the count is one, and writes through the mutable toElement() down any path (clone of a shared element, replacement of a text/null, in-place use when the count is one) followed by any edit: rename, attribute, append text/element/another variable's Variant, remove first child, Element::clear, text assignment to a content entry —, values of any depth and sharing: the copy has the source's value and a variable no operation writes to keeps its value; the invariant holds in every reachable state).; PropsGen (tie by translation, over Nstd/Generated/XmlScan.lean regenerated from the CURRENT Xml.cpp / String.hpp on every run): skipSpace_is_translation (the model's skipLoop = the iteration of the translated bodies of the outer loop and of the comment loop of skipSpace, for every text, fuel, mode, cursor, commentEnd), readToken_is_translation (the translated body of readToken behind its skipSpace() = the model's tokenAt: token type, value, position, next cursor, error line/column/message; nothing else written), name_scan_is_translation, isSpace_is_translation, syntaxError_is_translation, parseText_is_translation (parseText = iteration of the translated loop body), parsePi_is_translation (the model's piInner = iteration of the translated body of the loop over one processing instruction of Xml::Private::parse), escapeByte_is_translation / escape_is_translation (ONE run of the translated loop body of escapeString — plain-byte test, String::find in escapeChars, choice of escapeStrings / lineBreakStrings entry, writes through dest — appends exactly the model's escapeByte, for both modes and every byte; escape = flatMap of it), unescapeString_body_is_step / unescapeF_is_translation / unescape_is_translation (unescapeString: ONE run of the translated loop body — plain byte, '&' without ';', numeric reference through sscanf(\"#%u\") = '#' + the decimal reader scanU and Unicode::toString = utf8, named entity by first-match search in the generated escapeStrings / escapeChars with the goto out of the table loop, anything else keeps the '&' — is one step of the model's unescapeF; unescape = copied prefix in front of the first '&' ++ the iteration of that body), escapePlain_translated / entityTable_translated; PropsRef: unescape_numeric_ref (every decimal numeric character reference: UTF-8 of its value, 2^64 saturation, cut to 32 bit), utf8_length (boundaries 0x80 / 0x800 / 0x10000 / 0x110000: nothing from 0x110000 on), attrSet_keys / attrSet_lookup_self / attrSet_lookup_other (attribute order = first occurrence, last value of a repeated name wins).  The model is tied to the current Xml.cpp on every run by executing identical op lines (parse, tostr, rt = Xml::toString then parse, esc, unesc, copy, deep; pparse/parser/file/nofile = the public entry points Xml::parse(const String&), Xml::Parser, Xml::save+load incl. their failure branches (missing directory, a directory opened as a file); hassign/hclear/hsetstr/hmut = histories over 4 Xml::Variant variables with the value of EVERY variable printed after EVERY op: copy assignment, clear, text assignment, mutable toElement() along a path followed by rename/attribute/append/remove/clear/text assignment/append of another variable, all histories of <= 3 ops over 12 ops plus state-aware random histories) on both and comparing ok/fail, error line/column/message class, the dump of the parsed tree with element positions, and serialised bytes, and for escm the capacity of the String escapeString returns: every byte string of length <= 3 (thorough 4) over a 14-symbol markup alphabet, all small element bodies / attribute lists, generated decorated documents (comments next to text, processing instructions with line breaks, '<' and '<!--' behind '?' / line breaks inside them, entity and numeric references, both quote kinds), mutated and truncated documents, generated element trees incl. depth 1000, long values with many escapes swept across the capacity boundaries of escapeString's buffer (runs of 1..131 of each escapable byte, tails 0..3, plain heads, dense random values).",
        "note": "Trusted: Lean kernel + propext/Classical.choice/Quot.sound; TRANSLATED from the current sources and proved equal to the model (PropsGen.lean): skipSpace, readToken, parseText, syntaxError, String::isSpace, the loop over one processing instruction in parse, the loop body of escapeString with escapeChars/escapeStrings/lineBreakStrings, unescapeString (source pointers as suffixes of a NUL-free string; str.scanf(\"#%u\") and Unicode::toString are STATED definitions: CSem.scanfHashU = '#' then the model's scanU (glibc %u as observed: white space, sign, digits, strtoul saturation, cut to 32 bit), utf8 = the encoder of Unicode::append; prologue, loop header and the statements behind the loop checked against their known form) — trusted there: the translator tools/gen_xml.py and its semantics (Nstd/Xml/CSem.lean: text pointers as offsets with checked reads, findOneOf/find/length/compare as list functions on the C string at a checked offset, `while(test of *e incl. *e != 0) ++e` as a span, signed char comparisons, Position / commentEnd as records, one function per loop body with continue / enter / break / return outcomes); parameterless private helper functions are executed in place, the statements behind a loop are compiled in place at every break, a chain of consecutive byte tests and String::compare(p, lit, n) == 0 become the same condition, `*(dest++) = x` / Memory::copy + advance append to the output of escapeString, the re-seating of its buffer between result.resize and dest = destStart + result.length() is left to escape_no_overflow; the equality proofs split on the byte found by findOneOf (one of the stop set) and evaluate every generated test, so reshaped bodies (harmless C16-h1 / C16-h2) re-prove; a source outside the translated subset (functions with parameters, goto, other loop forms, changed member types) is reported as a broken tie.  HAND-translated and tied by the correspondence run only: the rest of parse (while test, skipSpace calls, root), parseElement (attribute loop, content loop with rewind), Element::toString, Xml.hpp; the hand translation of Xml.cpp into the model (validated by the correspondence run, not proved) — it mirrors the REPAIRED sources (fixes/xml/0001-0005: line breaks in attribute values as &#10;/&#13;, no endless loop on a comment next to text, rewind after a failed look-ahead, line breaks counted inside <?..?>, no white space / comment skipping inside <?..?>); entity table and escape condition of the model are proved equal to the generated ones (escapeByte_is_translation; the buffer constants of escapeString are generated too, tools/areas/xml.py gen -> Nstd/Generated/XmlEscape.lean) and covered by esc/unesc on every single byte and all short strings; hexadecimal character references are not decoded by the code (`&#x41;` stays as it is; recorded in PropsRef.lean, not part of the property).  libnstd String/HashMap/List are used as given (HashMap iteration = insertion order, append replaces an existing key's value); libc strpbrk/strchr/strncmp/strlen are list functions on the C string at a checked offset; glibc sscanf(\"#%u\") is modelled from its observed behaviour (white space, sign, strtoul saturation, cut to 32 bit).  pi_before_root / pi_prologue_skipped hold at full strength for the sources carrying fixes/xml/0005 (inside a processing instruction the loop no longer calls skipSpace, so '<!--' behind a '?' or a line break starts no comment); on sources without it the correspondence run reports \"<?a ?<!--?><r/>\" (corpus/C16/d39-pi-comment.txt).  OPEN in Props.lean: the two-text form of the comment clause (parse(pre++comment++post) vs parse(pre++post)).  'copies of element values are independent': proved on the handle heap model for all operations as INDEPENDENCE (variables other than the target keep their value; the copy gets the source's value); OPEN (PropsHeap.lean): `refines`, the functional effect of clear / text assignment / edits on the TARGET variable itself (tested against an eager-copy Python reference), ; release_fuel_suffices: the fuel handed to the destruction loop always suffices (strictly decreasing measure), that nothing leaks is NOT claimed here — reference-count exactness is C09 (Rc).  The general two-text comment statement for arbitrary (ill-formed) texts is OPEN (Props.lean / PropsDecor.lean).  Stack depth of the recursive C++ parser is not modelled (documents nested 1000 deep are run; 10000 deep overflows the stack, outside the property's bound).  int overflow of line/column not modelled.  Allocation never fails.",
        "design_ref": "DESIGN.md 3/C16",
    }
}
PROPS = ["Nstd.Xml.Props", "Nstd.Xml.PropsDecor", "Nstd.Xml.PropsHeap", "Nstd.Xml.PropsGen", "Nstd.Xml.PropsRef"]
LEAN_TARGETS = PROPS + ["drv_xml"]
DRIVER = "drv_xml"

HARNESS_SOURCES = ["xml.cpp"] + [C.REPO / "src" / f for f in
                                 ("String.cpp", "Memory.cpp", "Error.cpp", "File.cpp", "Debug.cpp", "Directory.cpp",
                                  "Process.cpp", "Mutex.cpp", "Time.cpp")]


# ---- translator: the constants of escapeString's buffer management, regenerated from the sources on every run ----
GEN_FILE = C.LEAN / "Nstd" / "Generated" / "XmlEscape.lean"
RE_ESC_BODY = re.compile(r"String Xml::Private::escapeString\(const String& str, bool attributeValue\)\s*\{(.*?)\n\}", re.S)


ATOMS = {"result.length()": "len", "escapeString.length()": "nm", "(end - i)": "rem", "end - i": "rem", "result.capacity()": "cap"}


def _tr_sum(expr, env):
    """C sum of atoms / integers / local variables -> Lean term over cap len nm rem, or None"""
    e = expr.strip()
    for a, v in ATOMS.items():
        e = e.replace(a, f" {v} ")
    toks = e.replace("+", " + ").split()
    out = []
    for k, t in enumerate(toks):
        if k % 2 == 1:
            if t != "+":
                return None
            continue
        if t.isdigit() or t in ("len", "nm", "rem", "cap"):
            out.append(t)
        elif t in env:
            out.append(f"({env[t]})")
        else:
            return None
    return " + ".join(out) if out and len(toks) % 2 == 1 else None


def _tr_policy(stmts):
    """statements between `result.resize(dest - destStart);` and `destStart = result;` -> Lean body of the
    reserve policy (the size handed to result.reserve).  Understood: local `usize v = <sum>;`, conditional growth
    `if(v > result.capacity()) v += <sum>;` (also >=), and the final `result.reserve(<sum or v>);`."""
    env, lets = {}, []
    lines = [x.strip() for x in re.sub(r"//[^\n]*", "", stmts).replace("\n", " ").split(";") if x.strip()]
    for k, ln in enumerate(lines):
        m = re.fullmatch(r"(?:const )?usize (\w+) = (.*)", ln)
        if m:
            t = _tr_sum(m.group(2), env)
            if t is None:
                return None
            env[m.group(1)] = t
            continue
        m = re.fullmatch(r"if\((\w+) (>=?) result\.capacity\(\)\)\s*(\w+) \+= (.*)", ln)
        if m and m.group(1) == m.group(3) and m.group(1) in env:
            t = _tr_sum(m.group(4), env)
            if t is None:
                return None
            v = env[m.group(1)]
            env[m.group(1)] = f"if ({v}) {m.group(2)} cap then ({v}) + ({t}) else ({v})"
            continue
        m = re.fullmatch(r"result\.reserve\((.*)\)", ln)
        if m and k == len(lines) - 1:
            return _tr_sum(m.group(1), env)
        return None
    return None


def gen(ctx=None, repo=None):
    """writes lean/Nstd/Generated/XmlEscape.lean: initial slack of `String result(str.length() + N)`, the RESERVE
    POLICY of escapeString (the size it hands to result.reserve at every escape, as a function of capacity, written
    length, name length and remaining input), and the rounding mask of String::detach.  The theorems hold for every
    policy that reserves at least written + name + 2 + remaining - 1; the generated one must meet that bound
    (EscapeMem.lean, `genPolicy_ok`), otherwise the proof breaks.  A source whose statements the translator does not
    understand is a broken tie."""
    repo = repo or C.REPO
    try:
        src = (repo / "src/Document/Xml.cpp").read_text()
        hpp = (repo / "include/nstd/String.hpp").read_text()
    except OSError as e:
        return False, f"cannot read sources: {e}"
    m = RE_ESC_BODY.search(src)
    if not m:
        return False, "Xml::Private::escapeString(const String&, bool) not found"
    body = m.group(1)
    m1 = re.search(r"String result\(str\.length\(\) \+ (\d+)\);", body)
    win = re.search(r"result\.resize\(dest - destStart\);(.*?)destStart = result;\s*dest = destStart \+ result\.length\(\);\s*"
                    r"\*\(dest\+\+\) = '&';\s*Memory::copy\(dest, \(const char\*\)escapeString, escapeString\.length\(\) \* sizeof\(char\)\);\s*"
                    r"dest \+= escapeString\.length\(\);\s*\*\(dest\+\+\) = ';';", body, re.S)
    pol = _tr_policy(win.group(1)) if win else None
    loop = re.search(r"for\(const char\* i = str, \* end = i \+ str\.length\(\); i < end; \+\+i\)", body)
    m3 = re.search(r"void detach\(usize copyLength, usize minCapacity\).*?usize capacity = minCapacity \| 0x([0-9a-fA-F]+);", hpp, re.S)
    if not (m1 and win and pol and loop and m3):
        miss = [n for n, x in (("initial capacity", m1), ("resize / reserve / write sequence of an escape", win),
                               ("reserve policy statements", pol), ("loop header", loop), ("String::detach rounding", m3)) if not x]
        return False, "escapeString/String::detach: the translator does not understand: " + ", ".join(miss)
    text = ("/- generated by tools/areas/xml.py (gen) from src/Document/Xml.cpp and include/nstd/String.hpp — do not edit -/\n"
            "namespace Nstd.Xml.Generated\n\n"
            f"/-- `String result(str.length() + N)` -/\ndef escInitialSlack : Nat := {int(m1.group(1))}\n\n"
            "/-- the size escapeString hands to `result.reserve` when it replaces a byte by `&name;`:\n"
            "    cap = result.capacity(), len = result.length() (bytes written), nm = name length, rem = end - i -/\n"
            f"def escReservePolicy (cap len nm rem : Nat) : Nat :=\n  {pol}\n\n"
            f"/-- `String::detach`: `capacity = minCapacity | 0x…` -/\ndef capRoundMask : Nat := {int(m3.group(1), 16)}\n\n"
            "end Nstd.Xml.Generated\n")
    GEN_FILE.parent.mkdir(parents=True, exist_ok=True)
    if not GEN_FILE.exists() or GEN_FILE.read_text() != text:
        GEN_FILE.write_text(text)
    # tie by translation (round 7): skipSpace / readToken / parseText / syntaxError / isSpace / escape tables -> XmlScan.lean
    import gen_xml
    return gen_xml.run(repo)


def setup():
    """tools/setup.py: regenerate lean/Nstd/Generated/XmlEscape.lean before the Lean build"""
    ok, msg = gen()
    if not ok:
        print("xml gen:", msg)


def build(ctx):
    return C.build_harness(ctx, "xml", HARNESS_SOURCES, extra_flags=[f"-I{C.REPO}/src"], libs=["-lpthread"])


# =====================================================================================================
# reference: independent of the C++ control flow and of the Lean model
# =====================================================================================================
WSB = b"\t\n\x0b\x0c\r "
HEADER = b'<?xml version="1.0" encoding="UTF-8"?>\n'


def hx(b):
    return b.hex() if b else "-"


def unhx(t):
    return b"" if t == "-" else bytes.fromhex(t)


class Node:
    __slots__ = ("name", "attrs", "children", "off")

    def __init__(self, name, attrs=None, children=None, off=None):
        self.name = name
        self.attrs = attrs if attrs is not None else []      # list of (key, value), keys distinct after dedup
        self.children = children if children is not None else []   # Node | bytes
        self.off = off


def dedup(pairs):
    """HashMap::append: a repeated key keeps its first position and takes the last value"""
    d = {}
    for k, v in pairs:
        d[k] = v
    return list(d.items())


def walk(node):
    """pre-order, iterative (trees may be 1000 deep)"""
    st = [node]
    while st:
        n = st.pop()
        yield n
        st.extend(c for c in reversed(n.children) if isinstance(c, Node))


def dump(node, pos=None):
    """dump syntax of the protocol; pos: function offset -> (line, col) or None (no positions)"""
    out = []
    st = [node]
    while st:
        n = st.pop()
        if isinstance(n, str):
            out.append(n)
            continue
        if isinstance(n, bytes):
            out.append("t" + n.hex())
            continue
        out.append("(" + n.name.hex())
        if pos is not None:
            out.append("#%d.%d" % pos(n.off))
        for k, v in n.attrs:
            out.append("@" + k.hex() + "=" + v.hex())
        st.append(")")
        for c in reversed(n.children):
            st.append(c)
            st.append(",")
    return "".join(out)


def spec(node):
    return dump(node, None)


RE_POS = re.compile(r"#(\d+)\.(\d+)")


def strip_pos(d):
    return RE_POS.sub("", d)


# ---- escape / unescape ------------------------------------------------------------------------
def py_esc(b, attr):
    b = b.replace(b"&", b"&amp;").replace(b"'", b"&apos;").replace(b'"', b"&quot;").replace(b"<", b"&lt;").replace(b">", b"&gt;")
    if attr:
        b = b.replace(b"\n", b"&#10;").replace(b"\r", b"&#13;")
    return b


def utf8(cp):
    if cp < 0x80:
        return bytes([cp])
    if cp < 0x800:
        return bytes([0xC0 | cp >> 6, 0x80 | cp & 63])
    if cp < 0x10000:
        return bytes([0xE0 | cp >> 12, 0x80 | cp >> 6 & 63, 0x80 | cp & 63])
    if cp < 0x110000:
        return bytes([0xF0 | cp >> 18, 0x80 | cp >> 12 & 63, 0x80 | cp >> 6 & 63, 0x80 | cp & 63])
    return b""


NAMED = {b"apos": b"'", b"quot": b'"', b"amp": b"&", b"lt": b"<", b"gt": b">"}
# `&name;` with one of the five names, or `&#` + what sscanf("%u") accepts (white space, sign, digits; the rest
# up to the first `;` is ignored).  Anything else leaves the `&` as it is.
RE_REF = re.compile(rb"&(?:(apos|quot|amp|lt|gt)|#[\t-\r ]*([+-]?)([0-9]+)[^;]*);")


def _ref(m):
    if m.group(1):
        return NAMED[m.group(1)]
    v = int(m.group(3))
    if v >= 1 << 64:
        v = (1 << 64) - 1                    # strtoul saturates
    elif m.group(2) == b"-":
        v = -v % (1 << 64)
    return utf8(v & 0xFFFFFFFF)              # stored into a 32-bit unsigned


def py_unesc(b):
    return RE_REF.sub(_ref, b)


def py_tostr(node, offsets=None, base=0):
    """serialiser; when `offsets` is a list the offset of every element's `<` is appended in pre-order"""
    out = []
    n_out = base
    st = [node]
    while st:
        n = st.pop()
        if isinstance(n, tuple):             # closing part
            s = n[0]
        elif isinstance(n, bytes):
            s = py_esc(n, False)
        else:
            if offsets is not None:
                offsets.append(n_out)
            s = b"<" + n.name + b"".join(b" " + k + b'="' + py_esc(v, True) + b'"' for k, v in n.attrs)
            if not n.children:
                s += b"/>"
            else:
                s += b">"
                st.append((b"</" + n.name + b">",))
                st.extend(reversed(n.children))
        out.append(s)
        n_out += len(s)
    return b"".join(out)


# ---- positions --------------------------------------------------------------------------------
RE_NL = re.compile(rb"\r\n|\r|\n")


class Lines:
    def __init__(self, t):
        self.t = t
        self.starts = [0]
        self.ends = []
        for m in RE_NL.finditer(t):
            self.ends.append(m.start())
            self.starts.append(m.end())
        self.ends.append(len(t))

    def pos(self, off):
        k = bisect.bisect_right(self.starts, off)
        return (k, off - self.starts[k - 1] + 1)

    def inside(self, line, col):
        return 1 <= line <= len(self.starts) and 1 <= col <= self.ends[line - 1] - self.starts[line - 1] + 1

    def offset(self, line, col):
        return self.starts[line - 1] + col - 1


def check_positions(t, line):
    """universal check of an implementation line against the text t (bytes before the first NUL):
    returns an error text or None"""
    L = Lines(t)
    if line.startswith("fail "):
        w = line.split(" ")
        if len(w) != 4 or not w[1].isdigit() or not w[2].isdigit():
            return "malformed fail line"
        if not L.inside(int(w[1]), int(w[2])):
            return f"error position {w[1]}:{w[2]} lies outside the text ({len(L.starts)} line(s))"
        return None
    if line.startswith("ok "):
        for m in RE_POS.finditer(line):
            l, c = int(m.group(1)), int(m.group(2))
            if not L.inside(l, c):
                return f"element position {l}:{c} lies outside the text"
            o = L.offset(l, c)
            if t[o:o + 1] != b"<":
                return f"element position {l}:{c} does not point at '<'"
        return None
    return "neither ok nor fail"


# ---- strict parser for a clean subset -----------------------------------------------------------
class Reject(Exception):
    """the text is certainly ill-formed"""


class Unsure(Exception):
    """outside the clean subset: no opinion"""


RE_COMMENT = re.compile(rb"<!--.*?-->", re.S)
RE_PI = re.compile(rb"<\?(.*?)\?>", re.S)
RE_NAME = re.compile(rb"[^\x00\t-\r /<>=\"'?!&][^\x00\t-\r />=]*")
RE_STRING = re.compile(rb"\"([^\"\r\n]*)\"|'([^'\r\n]*)'")
RE_MISC = re.compile(rb"(?:[\t-\r ]+|<!--.*?-->)*", re.S)


def skip_misc(t, p):
    """white space and comments; an unterminated comment swallows the rest"""
    p = RE_MISC.match(t, p).end()
    if t.startswith(b"<!--", p):
        return len(t)
    return p


def read_name(t, p):
    if p >= len(t):
        raise Reject("end of text where a name is expected")
    m = RE_NAME.match(t, p)
    if not m:
        raise Unsure
    return m.group(0), m.end()


def read_tag(t, p):
    """t[p] == '<' (not a comment).  -> kind, name, attrs, end offset"""
    if t.startswith(b"</", p):
        p = skip_misc(t, p + 2)
        name, p = read_name(t, p)
        p = skip_misc(t, p)
        if p >= len(t):
            raise Reject("end of text inside an end tag")
        if t[p:p + 1] != b">":
            raise Unsure
        return "end", name, None, p + 1
    p = skip_misc(t, p + 1)
    name, p = read_name(t, p)
    attrs = []
    while True:
        p = skip_misc(t, p)
        if p >= len(t):
            raise Reject("end of text inside a tag")
        if t.startswith(b"/>", p):
            return "empty", name, dedup(attrs), p + 2
        if t[p:p + 1] == b">":
            return "start", name, dedup(attrs), p + 1
        k, p = read_name(t, p)
        p = skip_misc(t, p)
        if p >= len(t):
            raise Reject("end of text after an attribute name")
        if t[p:p + 1] != b"=":
            raise Unsure
        p = skip_misc(t, p + 1)
        if p >= len(t):
            raise Reject("end of text after '='")
        m = RE_STRING.match(t, p)
        if not m:
            q = t[p:p + 1]
            if q in (b'"', b"'") and q not in t[p + 1:] and b"\n" not in t[p:] and b"\r" not in t[p:]:
                raise Reject("end of text inside a string")
            raise Unsure
        attrs.append((k, py_unesc(m.group(1) if m.group(1) is not None else m.group(2))))
        p = m.end()


def strict_parse(t):
    """t: bytes without NUL.  -> root Node (offsets set); raises Reject / Unsure"""
    p = skip_misc(t, 0)
    while t.startswith(b"<?", p):
        m = RE_PI.match(t, p)
        if not m:
            raise Reject("unterminated processing instruction")
        p = skip_misc(t, m.end())      # the instruction ends at its first '?>', whatever its body holds ('<', '<!--', line breaks ...)
    if p >= len(t):
        raise Reject("no root element")
    if t[p:p + 1] != b"<":
        raise Reject("text before the root element")
    if t.startswith(b"</", p):
        raise Reject("end tag before the root element")
    kind, name, attrs, q = read_tag(t, p)
    root = Node(name, attrs, [], p)
    stack = [root] if kind == "start" else []
    p = q
    while stack:
        i = t.find(b"<", p)
        if i < 0:
            raise Reject("end of text inside an element")
        raw = t[p:i]
        if raw.strip(WSB):
            stack[-1].children.append(py_unesc(raw))
        if t.startswith(b"<!--", i):
            m = RE_COMMENT.match(t, i)
            if not m:
                raise Reject("unterminated comment inside an element")
            p = m.end()
            continue
        kind, name, attrs, q = read_tag(t, i)
        if kind == "end":
            if name != stack[-1].name:
                raise Reject("end tag does not match")
            stack.pop()
        else:
            n = Node(name, attrs, [], i)
            stack[-1].children.append(n)
            if kind == "start":
                stack.append(n)
        p = q
    if skip_misc(t, p) < len(t):
        raise Unsure                          # something behind the root element
    return root


# ---- xml.etree as a second opinion on real XML ---------------------------------------------------
RE_XMLNAME = re.compile(rb"[A-Za-z_\x80-\xff][A-Za-z0-9._\x80-\xff-]*\Z")   # expat has already checked that it is a Name; this excludes prefixes


def etree_tree(t):
    """tree according to expat for texts inside the intersection of XML and libnstd's dialect, else None"""
    if b"\r" in t or b"xmlns" in t or b"&#x" in t or b"<!" in t.replace(b"<!--", b"") or b"\x00" in t:
        return None
    try:
        t.decode("utf-8")
        parser = ET.XMLParser(target=ET.TreeBuilder(insert_comments=True, insert_pis=True))
        root = ET.fromstring(t, parser=parser)
    except Exception:
        return None
    tabs = b"\t" in t

    def conv(e):
        # iterative conversion
        top = Node(e.tag.encode(), [(k.encode(), v.encode()) for k, v in e.attrib.items()])
        st = [(e, top)]
        while st:
            src, dst = st.pop()
            pieces = [src.text]
            for ch in src:
                if callable(ch.tag):            # comment / PI: separates text pieces
                    pieces.append(ch.tail)
                    continue
                n = Node(ch.tag.encode(), [(k.encode(), v.encode()) for k, v in ch.attrib.items()])
                pieces.append(n)
                pieces.append(ch.tail)
                st.append((ch, n))
            for pc in pieces:
                if isinstance(pc, Node):
                    dst.children.append(pc)
                elif pc is not None and pc.encode().strip(WSB):
                    dst.children.append(pc.encode())
        return top

    try:
        for e in root.iter():
            if not callable(e.tag) and not RE_XMLNAME.match(e.tag.encode()):
                return None
            if any(not RE_XMLNAME.match(k.encode()) for k in e.attrib):
                return None
        return conv(root), tabs
    except Exception:
        return None


def norm_etree(node, tabs):
    """what the comparison with expat cannot see: expat turns a literal tab in an attribute value into a space;
    a text such as `&#32;` is blank for expat's client but a (kept) non-blank run for libnstd"""
    for n in walk(node):
        if tabs:
            n.attrs = [(k, v.replace(b"\t", b" ")) for k, v in n.attrs]
        n.children = [c for c in n.children if isinstance(c, Node) or c.strip(WSB)]
    return node


# ---- tree specs ----------------------------------------------------------------------------------
RE_HEXRUN = re.compile(r"[0-9a-f]*")


def parse_spec(s):
    """tree spec of `tostr` / `rt` -> Node or None (bad op)"""
    p = 0
    n = len(s)

    def hexrun():
        nonlocal p
        m = RE_HEXRUN.match(s, p)
        if len(m.group(0)) % 2:
            raise ValueError
        p = m.end()
        return bytes.fromhex(m.group(0))

    try:
        if s[:1] != "(":
            return None
        root = None
        stack = []
        while True:
            if s[p:p + 1] == "(":
                p += 1
                node = Node(hexrun())
                m = re.compile(r"#\d+\.\d+").match(s, p)
                if m:
                    p = m.end()
                elif s[p:p + 1] == "#":
                    return None
                pairs = []
                while s[p:p + 1] == "@":
                    p += 1
                    k = hexrun()
                    if s[p:p + 1] != "=":
                        return None
                    p += 1
                    pairs.append((k, hexrun()))
                node.attrs = pairs              # duplicates kept here; dedup() where HashMap semantics matter
                if stack:
                    stack[-1].children.append(node)
                else:
                    root = node
                stack.append(node)
            # after an element header or a finished child: `,` child | `)`
            while True:
                c = s[p:p + 1]
                if c == ")":
                    p += 1
                    stack.pop()
                    if not stack:
                        return root if p == n else None
                    continue
                if c != ",":
                    return None
                p += 1
                if s[p:p + 1] == "t":
                    p += 1
                    stack[-1].children.append(hexrun())
                    continue
                if s[p:p + 1] == "(":
                    break
                return None
    except (ValueError, IndexError):
        return None


NAME_FORBIDDEN = set(b"\x00/>=" + WSB)


def good_name(b):
    return len(b) > 0 and not (set(b) & NAME_FORBIDDEN) and b[:1] not in (b"<", b'"', b"'", b"?", b"!")


def meets_preconditions(root):
    for n in walk(root):
        if not good_name(n.name):
            return False
        keys = [k for k, _ in n.attrs]
        if len(set(keys)) != len(keys) or not all(good_name(k) for k in keys):
            return False
        if any(b"\x00" in v for _, v in n.attrs):
            return False
        prev_text = False
        for c in n.children:
            if isinstance(c, bytes):
                if prev_text or b"\x00" in c or not c.strip(WSB):
                    return False
                prev_text = True
            else:
                prev_text = False
    return True


def has_nul(root):
    for n in walk(root):
        if b"\x00" in n.name or any(b"\x00" in k or b"\x00" in v for k, v in n.attrs):
            return True
        if any(isinstance(c, bytes) and b"\x00" in c for c in n.children):
            return True
    return False


# ---- the oracle ----------------------------------------------------------------------------------
STATS = {"parse: strict tree": 0, "parse: certainly ill-formed": 0, "parse: positions only": 0, "parse: xml.etree agreed": 0,
         "rt: identity expected": 0, "rt: positions only": 0, "tostr": 0, "copy": 0, "deep": 0, "esc": 0, "unesc": 0}


def expect_parse(data, impl):
    """data: bytes handed to the parser.  -> expected line (== impl when satisfied) or None"""
    t = data.split(b"\x00")[0]
    bad = check_positions(t, impl)
    if bad:
        return "!" + bad
    try:
        root = strict_parse(t)
    except Reject as r:
        STATS["parse: certainly ill-formed"] += 1
        return impl if impl.startswith("fail ") else f"fail <any position> ({r})"
    except Unsure:
        STATS["parse: positions only"] += 1
        return None
    STATS["parse: strict tree"] += 1
    L = Lines(t)
    want = "ok " + dump(root, L.pos)
    if impl != want:
        return want
    et = etree_tree(t)
    if et is not None:
        enode, tabs = et
        a = dump(norm_etree(parse_spec(strip_pos(impl[3:])), tabs))
        b = dump(norm_etree(enode, tabs))
        if a != b:
            return "ok " + b + "   (xml.etree)"
        STATS["parse: xml.etree agreed"] += 1
    return impl


def ref_line(op, impl):
    w = op.split(" ")
    if impl is None:
        return None
    if impl.startswith("FAULT"):
        return "!no FAULT expected"
    try:
        if w[0] in ("parse", "pparse", "parser") and len(w) == 2:
            return expect_parse(unhx(w[1]), impl)
        if w[0] == "nofile" and len(w) == 1:
            return "nofile load=0 pload=0 perr=1 save=0 dirload=0 pdirload=0 pdirerr=1"
        if w[0] == "file":
            w = ["rt"] + w[1:]
        if w[0] in ("tostr", "rt") and len(w) == 2:
            root = parse_spec(w[1])
            if root is None:
                return "bad-op"
            if has_nul(root):
                return None
            for n in walk(root):
                n.attrs = dedup(n.attrs)
            if w[0] == "tostr":
                STATS["tostr"] += 1
                return "str " + hx(py_tostr(root))
            offs = []
            s = HEADER + py_tostr(root, offs, len(HEADER))
            bad = check_positions(s, impl)
            if bad:
                return "!" + bad
            if not meets_preconditions(parse_spec(w[1])):
                STATS["rt: positions only"] += 1
                return None
            STATS["rt: identity expected"] += 1
            L = Lines(s)
            for n, o in zip(walk(root), offs):
                n.off = o
            return "ok " + dump(root, L.pos)
        if w[0] == "copy" and len(w) == 2:
            a = parse_spec(w[1])
            if a is None:
                return "bad-op"
            STATS["copy"] += 1
            for n in walk(a):
                n.attrs = dedup(n.attrs)
            b = Node(b"zz", dedup(a.attrs + [(b"k", b"v")]), a.children[1:] + [b"new"])
            c = Node(a.name, a.attrs, [])
            return f"cp {dump(a)} {dump(b)} {dump(c)}"
        if w[0] == "deep" and len(w) == 3 and w[2].isdigit():
            a = parse_spec(w[1])
            if a is None:
                return "bad-op"
            STATS["deep"] += 1
            for n in walk(a):
                n.attrs = dedup(n.attrs)
            src = dump(a)
            first = a.children[0] if a.children else None
            wd = "n" if first is None else ("t" + first.hex() if isinstance(first, bytes) else dump(Node(b"yy", first.attrs, first.children)))
            b = parse_spec(src)                       # an independent copy to write into
            cur = b
            for _ in range(int(w[2])):
                nxt = next((c for c in cur.children if isinstance(c, Node)), None)
                if nxt is None:
                    break
                cur = nxt
            cur.name = b"zz"
            cur.children.append(b"new")
            return f"dp {src} {dump(b)} {wd}"
        if w[0] == "esc" and len(w) == 3 and w[1] in ("0", "1"):
            b = unhx(w[2])
            STATS["esc"] += 1
            return "bad-op" if b"\x00" in b else "str " + hx(py_esc(b, w[1] == "1"))
        if w[0] == "escm" and len(w) == 3 and w[1] in ("0", "1"):
            b = unhx(w[2])
            if b"\x00" in b:
                return "bad-op"
            STATS["esc"] += 1
            want = hx(py_esc(b, w[1] == "1"))
            # bytes from the independent escape; the capacity is the model's business, here only: it holds the result
            if impl is not None and impl.startswith("mem "):
                t = impl.split(" ")
                esc = py_esc(b, w[1] == "1")
                # capacity 0 with unchanged bytes: the result shares the storage of the argument (a String attached to
                # foreign memory reports capacity 0), which is the caller's business (harmless C16-h5 returns `str` itself)
                if len(t) == 3 and t[1].isdigit() and t[2] == want and (int(t[1]) >= len(esc) or (t[1] == "0" and esc == b)):
                    return impl
            return f"mem <capacity >= length> {want}"
        if w[0] == "unesc" and len(w) == 2:
            b = unhx(w[1])
            STATS["unesc"] += 1
            return "bad-op" if b"\x00" in b else "str " + hx(py_unesc(b))
    except ValueError:
        pass
    return "bad-op"



# ---- Variant handles (hassign / hclear / hsetstr / hmut): immutable values, eager copies ------------------------
NVARS = 4
HBRANCH = {}


def _hb(k):
    HBRANCH[k] = HBRANCH.get(k, 0) + 1


def h_dump(v):
    if v is None:
        return "n"
    if isinstance(v, bytes):
        return "t" + v.hex()
    _, name, attrs, kids = v
    return "(" + name.hex() + "".join("@" + k.hex() + "=" + x.hex() for k, x in attrs) + "".join("," + h_dump(c) for c in kids) + ")"


def h_elem(v):
    """what the mutable toElement() makes of a value: a non-element becomes an empty element"""
    return v if isinstance(v, tuple) else ("e", b"", (), ())


def h_edit(e, ed, vars_, v):
    """the edit on the element value e -> new value, or None (bad op)"""
    _, name, attrs, kids = e
    k = ed[0]
    if k == "rename" and len(ed) == 2:
        return ("e", unhx(ed[1]), attrs, kids)
    if k == "attr" and len(ed) == 3:
        return ("e", name, tuple(dedup(list(attrs) + [(unhx(ed[1]), unhx(ed[2]))])), kids)
    if k == "addtext" and len(ed) == 2:
        return ("e", name, attrs, kids + (unhx(ed[1]),))
    if k == "addelem" and len(ed) == 2:
        return ("e", name, attrs, kids + (("e", unhx(ed[1]), (), ()),))
    if k == "delfirst" and len(ed) == 1:
        return ("e", name, attrs, kids[1:]) if kids else None
    if k == "clear" and len(ed) == 1:
        return ("e", b"", (), ())
    if k == "settext" and len(ed) == 3 and ed[1].isdigit():
        i = int(ed[1])
        if i >= len(kids):
            return None
        _hb("settext on " + ("text child" if isinstance(kids[i], bytes) else "element child"))
        return ("e", name, attrs, kids[:i] + (unhx(ed[2]),) + kids[i + 1:])
    if k == "push" and len(ed) == 2 and ed[1].isdigit():
        src = int(ed[1])
        if src >= NVARS or src == v or vars_[src] is None:
            return None
        return ("e", name, attrs, kids + (vars_[src],))
    return None


def h_mut(val, path, ed, vars_, v):
    e = h_elem(val)
    if not path:
        return h_edit(e, ed, vars_, v)
    i = path[0]
    if i >= len(e[3]):
        return None
    sub = h_mut(e[3][i], path[1:], ed, vars_, v)
    if sub is None:
        return None
    return ("e", e[1], e[2], e[3][:i] + (sub,) + e[3][i + 1:])


RE_HEXTOK = re.compile(r"(?:-|(?:[0-9a-f][0-9a-f])+)\Z")


def h_step(vars_, w):
    """one h-op on the list of values -> True (done) / False (bad op: nothing changes)"""
    try:
        if w[0] == "hassign" and len(w) == 3 and w[1].isdigit() and w[2].isdigit():
            d, s_ = int(w[1]), int(w[2])
            if d >= NVARS or s_ >= NVARS:
                return False
            _hb("assign: " + ("self" if d == s_ else "from null" if vars_[s_] is None else "over null" if vars_[d] is None else "over a value"))
            vars_[d] = vars_[s_]
            return True
        if w[0] == "hclear" and len(w) == 2 and w[1].isdigit():
            if int(w[1]) >= NVARS:
                return False
            vars_[int(w[1])] = None
            return True
        if w[0] == "hsetstr" and len(w) == 3 and w[1].isdigit() and RE_HEXTOK.match(w[2]):
            v = int(w[1])
            if v >= NVARS:
                return False
            shared = any(i != v and vars_[i] is vars_[v] for i in range(NVARS))
            _hb("setstr: " + ("null" if vars_[v] is None else ("text" if isinstance(vars_[v], bytes) else "element") + (" shared" if shared else " sole")))
            vars_[v] = unhx(w[2])
            return True
        if w[0] == "hmut" and len(w) >= 4 and w[1].isdigit():
            v = int(w[1])
            if v >= NVARS:
                return False
            path = [] if w[2] == "-" else [int(x) for x in w[2].split(".")]
            if any(not RE_HEXTOK.match(t) for t in w[4:]) and w[3] not in ("settext", "push"):
                return False
            if w[3] == "settext" and (len(w) != 6 or not RE_HEXTOK.match(w[5])):
                return False
            new = h_mut(vars_[v], path, w[3:], vars_, v)
            if new is None:
                return False
            shared = any(i != v and vars_[i] is vars_[v] for i in range(NVARS))
            _hb("mut root: " + ("null" if vars_[v] is None else "text" if isinstance(vars_[v], bytes) else "element" + (" shared with a variable" if shared else " not shared at the root")))
            _hb(f"mut depth {min(len(path), 3)}{'+' if len(path) >= 3 else ''}")
            _hb("edit " + w[3])
            vars_[v] = new
            return True
    except ValueError:
        pass
    return False


def h_line(vars_, op):
    ok = h_step(vars_, op.split(" "))
    return "hv " + " ".join(h_dump(v) for v in vars_) if ok else "bad-op"

def reference(hist, impl_out):
    out = []
    vars_ = [None] * NVARS          # every history starts behind a `reset`
    for k, op in enumerate(hist):
        impl = impl_out[k] if k < len(impl_out) else None
        if op.startswith("h"):
            saved = dict(HBRANCH)       # branch counters are taken while generating, not while judging
            out.append(h_line(vars_, op))
            HBRANCH.clear()
            HBRANCH.update(saved)
            STATS["h-ops"] = STATS.get("h-ops", 0) + 1
        elif op == "reset":
            vars_ = [None] * NVARS
            out.append("ready")
        else:
            out.append(ref_line(op, impl))
    return out


reference.eq = lambda impl, ref: impl == ref
reference.uses_impl = True


# =====================================================================================================
# generators
# =====================================================================================================
ALPHA14 = [b"<", b">", b"/", b"=", b'"', b"'", b"&", b";", b"!", b"-", b"a", b" ", b"\n", b"?"]
ALPHA16 = ALPHA14 + [b"#", b"1"]

REGRESSIONS = [
    b'<a x="1">hi<b/></a>',
    b"<a>x<!-- c -->y</a>",                    # D37: used to spin forever
    b"<a> <!-- c --> t</a>",
    b"<a>x <!--c--> <!--d--> y</a>",
    b"<a> /x</a>", b'<a> "x</a>', b"<a> =x</a>", b"<a> 'x' </a>", b'<a>"<b/>"</a>',   # D36
    b"<?a\n?>x", b"<?a\r\n?>\r<r/>", b"<?a\n<!-- ?> -->?><r/>",     # D38
    b"<?a ?<!--?><r/>", b"<?x ?<!-- ?> -->?><r/>", b"<?a\n<!-- ?> --><r/>", b"<?a\r\n <!--?><r/>", b"<?a\r<!--?>\n<r/>",   # D39: '<!--' inside
    b"<?a\n<!--?><r/>", b"<?a ? \t<!-- x --> ?>\n<!-- c --><r/>", b"<?a ?<!--", b"<?a\n <!-- ?", b"<?a ?<b?><r>\n<</r>",          # an instruction is no comment
    b'<a b="&#10;&#13;"/>',
    b"<!---><a/>", b"<!----><a/>", b"<!--> --><a/>", b"<!-->", b"<!--",
    b"", b" ", b"\n\r\n", b"<!-- only -->", b"<?xml?>", b"<?", b"<", b"</a>", b"x<a/>",
    b"<a/>junk<", b"<a></a >", b"<a></ a>", b"< a/>", b"<a></a<!--x-->>", b"<a></b>",
    b'<a ="1" "x" = b="2"/>', b'<a x="1"y="2"/>', b"<a x='1' x='2' y='3' x='4'/>",
    b'<a x="\n"/>', b'<a x="', b"<a x", b"<a x=", b"<a x=1/>", b"<a/", b"<a /x>",
    b"<a>&#0;</a>", b"<a>&#32;</a>", b"<a>&#1114112;</a>", b"<a>&#55357;&#56832;</a>", b"<a>&#128512;</a>",
    b"<a>&#-1;&# 66;&#4294967361;&#x41;&#+65;&#99999999999999999999;&#-4294967231;&#65junk;</a>",
    b"<a>&amp</a>;", b'<a x="&#65"/>;', b'<a x="b">&amp;</a>', b"<a>&&amp;&#x&amp;&;&amp ;</a>",
    b"<a>1 < 2</a>", b"<a>\x00</a>", b"<a x=\"1\x002\"/>", b"\x00<a/>",
    b"<a>\r\n<b>\r</b>\n\n<c/>\r\r\n</a>",
]


def P(b):
    return "parse " + hx(b)


def gen_exhaustive(quick):
    n1 = 3 if quick else 4
    n2 = 2 if quick else 3
    ops = [P(b"".join(w)) for k in range(n1 + 1) for w in itertools.product(ALPHA14, repeat=k)]
    c1 = len(ops)
    for k in range(n2 + 1):
        for w in itertools.product(ALPHA16, repeat=k):
            s = b"".join(w)
            ops.append(P(b"<a>" + s + b"</a>"))
            ops.append(P(b"<a " + s + b"/>"))
    scope = (f"parse of all {c1} byte strings of length <= {n1} over the {len(ALPHA14)}-symbol alphabet "
             f"< > / = \" ' & ; ! - a SP LF ?, and of '<a>'+w+'</a>' and '<a '+w+'/>' for all w of length <= {n2} over that "
             f"alphabet plus # 1 ({len(ops) - c1} texts)")
    return ops, scope


# ---- decorated valid documents --------------------------------------------------------------------
CLEAN_NAMES = [b"a", b"b1", b"x-y", b"n.s", b"_u", b"Root", b"\xc3\xa9", b"item"]
ODD_NAMES = [b"a<b", b"a\"b", b"x'", b"1", b"-", b"a&b;", b"a<!--b", b"\xff", b"a;", b"#", b"a?b", b"a!"]
COMMENT_CLEAN = [b" c ", b"", b"x", b" a - b ", b">", b" <b/> ", b"\n", b" l1\n l2 ", b"\t", b"?>", b"\"", b"'", b"&amp;", b"&"]
COMMENT_ODD = [b"-", b"--", b" -- ", b"->", b"- -", b"\r\n x", b"\r", b"--\n--", b"<!--", b"<!-- -"]
WS_CLEAN = [b" ", b"\n", b"\t", b"  ", b"\n  ", b" \n"]
WS_ODD = [b"\r\n", b"\r", b"\x0b", b"\x0c", b"\r\r\n", b"\n\r"]
ENT = [b"&amp;", b"&lt;", b"&gt;", b"&quot;", b"&apos;"]
NUM_CLEAN = [b"&#65;", b"&#10;", b"&#233;", b"&#8364;", b"&#128512;", b"&#00066;", b"&#9;", b"&#32;", b"&#13;"]
NUM_ODD = [b"&#-1;", b"&# 66;", b"&#4294967361;", b"&#x41;", b"&#+67;", b"&#1114111;", b"&#1114112;", b"&#55357;",
           b"&#99999999999999999999;", b"&#-4294967231;", b"&#65x;", b"&#;", b"&#-;", b"&#\n7;", b"&#1;", b"&#127;", b"&#128;",
           b"&#2047;", b"&#2048;", b"&#65535;", b"&#65536;",
           # round 7: the boundaries of the value range (NUL, 2^32, 2^64 saturation) and hexadecimal references (not decoded)
           b"&#0;", b"&#00;", b"&#4294967295;", b"&#4294967296;", b"&#18446744073709551615;", b"&#18446744073709551616;",
           b"&#x10FFFF;", b"&#x110000;", b"&#x0;", b"&#X41;", b"&#55296;", b"&#57343;", b"&#1114110;", b"&#0000001114112;"]
STRAY = [b"&", b"& ", b"&amp", b"&x;", b"&;", b"&&", b"&AMP;", b"&amp ;", b";"]


class DocGen:
    def __init__(self, rng, clean):
        self.r = rng
        self.clean = clean

    def ws(self):
        return self.r.choice(WS_CLEAN if self.clean or self.r.random() < 0.6 else WS_ODD)

    def comment(self):
        body = self.r.choice(COMMENT_CLEAN if self.clean or self.r.random() < 0.5 else COMMENT_ODD)
        if self.clean and body.endswith(b"-"):
            body += b" "
        return b"<!--" + body + b"-->"

    def misc(self, p_any=0.5, need_ws=False):
        out = b""
        if need_ws:
            out += self.ws()
        while self.r.random() < p_any:
            out += self.comment() if self.r.random() < 0.4 else self.ws()
            p_any *= 0.7
        return out

    def name(self):
        if self.clean or self.r.random() < 0.7:
            return self.r.choice(CLEAN_NAMES)
        return self.r.choice(ODD_NAMES)

    def pieces(self, attr_quote=None):
        r = self.r
        out = b""
        for _ in range(r.choice([0, 1, 1, 2, 3, 5])):
            k = r.random()
            if k < 0.45:
                alpha = b"abcxyz019 .,:;#=/-_>" + (b"\t" if attr_quote else b"\t\n") + (b"" if self.clean else b"\x0b\x7f")
                s = bytes(r.choice(alpha) for _ in range(r.choice([1, 1, 2, 4])))
                if attr_quote is None and not self.clean and r.random() < 0.3:
                    s += r.choice([b"\r\n", b"\r"])
                out += s
            elif k < 0.6:
                out += r.choice(ENT)
            elif k < 0.72:
                out += r.choice(NUM_CLEAN)
            elif k < 0.8:
                out += r.choice([b"\xc3\xa9", b"\xe2\x82\xac", b"\xf0\x9f\x98\x80"] if self.clean or r.random() < 0.7
                                else [b"\xff", b"\xc3", b"\x80"])
            elif k < 0.9:
                q = [b'"', b"'"]
                if attr_quote:
                    q = [x for x in q if x != attr_quote]
                out += r.choice(q)
            elif not self.clean:
                out += r.choice(NUM_ODD + STRAY + ([b"<"] if attr_quote else []))
        return out

    def attrs(self):
        r = self.r
        out = b""
        keys = []
        for _ in range(r.choice([0, 0, 1, 1, 2, 3])):
            k = self.name()
            if k in keys and (self.clean or r.random() < 0.5):
                continue
            keys.append(k)
            q = r.choice([b'"', b"'"])
            if self.clean:
                out += self.ws() + (self.ws() if r.random() < 0.2 else b"")      # real XML has no comments inside tags
                eq = r.choice([b"=", b"=", b" = ", b"= ", b"\n="])
            else:
                out += self.misc(0.4, need_ws=(r.random() < 0.85 or not out))
                eq = self.misc(0.3) + b"=" + self.misc(0.3)
            out += k + eq + q + self.pieces(q) + q
        return out

    def element(self, depth):
        r = self.r
        n = self.name()
        lead = b"" if self.clean or r.random() < 0.9 else self.misc(0.8)
        head = b"<" + lead + n + self.attrs()
        head += self.ws() if self.clean and r.random() < 0.3 else (b"" if self.clean else self.misc(0.3))
        if r.random() < (0.3 if depth < 3 else 0.7):
            return head + b"/>"
        body = b""
        for _ in range(r.choice([0, 1, 1, 2, 3, 4]) if depth < 4 else 0):
            k = r.random()
            if k < 0.4 and depth < 4:
                body += self.element(depth + 1)
            elif k < 0.75:
                body += self.pieces()
            elif k < 0.9:
                body += self.comment()
            else:
                body += self.ws()
        if self.clean:
            tail = b"</" + n + (self.ws() if r.random() < 0.2 else b"") + b">"
        else:
            tail = b"</" + self.misc(0.15) + n + self.misc(0.25) + b">"
        return head + b">" + body + tail

    def doc(self):
        r = self.r
        out = b""
        if self.clean:
            if r.random() < 0.5:
                out += r.choice([b'<?xml version="1.0"?>', HEADER.strip(), b'<?xml version="1.0" encoding="utf-8"\n?>'])
            out += self.misc(0.5)
            for _ in range(r.choice([0, 0, 1, 2])):
                out += r.choice([b"<?pi?>", b"<?p a\nb?>", b"<?q x='?' ?>", b"<?t\n\n??>",
                                 b"<?u ?<!--?>", b"<?v\n<!-- c?>", b"<?w\n \t<!--x--> ?>", b"<?y <e> ?<f/>?>"]) + self.misc(0.5)
        else:
            out += self.misc(0.5)
            for _ in range(r.choice([0, 0, 1, 2])):
                out += r.choice([b"<??>", b"<?a\r\nb\r?>", b"<?\n?>", b"<? ? > ?>", b"<?x <a> ?>", b"<?a\n\r\n?>", b"<?a?\n?>",
                                 b"<?b ?<!-- ?>", b"<?c\r<!--\n?>", b"<?d ?\t<!-- -- ?>", b"<?e\r\n \n<!--?>", b"<?f?<!--x-->\r?>",
                                 b"<?g\n<!-- ?> -->"]) + self.misc(0.6)
        out += self.element(0)
        out += self.misc(0.4)
        return out


ALPHA_MUT = b"".join(ALPHA16) + b"\rb\t"


def mutate(rng, d):
    d = bytearray(d)
    for _ in range(rng.choice([1, 1, 2, 3])):
        k = rng.random()
        p = rng.randrange(len(d) + 1)
        if k < 0.35 and d:
            del d[min(p, len(d) - 1)]
        elif k < 0.7:
            d.insert(p, rng.choice(ALPHA_MUT))
        elif d:
            d[min(p, len(d) - 1)] = rng.choice(ALPHA_MUT)
    return bytes(d)


# ---- element trees for tostr / rt --------------------------------------------------------------------
TREE_NAMES = [b"a", b"b1", b"x-y", b"n.s", b"a<b", b"\xc3\xa9", b"k", b"a\"b", b"a&b", b"-", b"a<!--b", b"a;#"]
BAD_NAMES = [b"", b"a b", b"a>", b"a=b", b"a/b", b"<a", b"\"a", b"?x", b"!--", b"a\n", b"'"]
VAL_ALPHA = [b'"', b"'", b"&", b"<", b">", b";", b"#", b"1", b"0", b"9", b"\n", b"\r", b"\t", b"\xc3\xa9", b"\xe2\x82\xac",
             b"/", b"a", b"m", b"p", b" ", b"=", b"&amp;", b"&#10;", b"-->", b"<!--", b"\xff", b"\x0b", b"x", b"?"]
TEXT_FIRST = [b"/", b'"', b"=", b"&", b"'", b">", b"x", b"-", b"?", b"!", b"<", b"<!--", b"</a>", b"/>"]


def rnd_value(rng):
    return b"".join(rng.choice(VAL_ALPHA) for _ in range(rng.choice([0, 1, 2, 3, 5, 8])))


def rnd_text(rng):
    lead = rng.choice([b"", b"", b" ", b"\n", b"\t ", b"\r\n", b"\r"])
    tail = rng.choice([b"", b"", b" ", b"\n", b" \t", b"\r"])
    return lead + rng.choice(TEXT_FIRST) + rnd_value(rng) + tail


def gen_tree(rng, depth, violate):
    n = Node(rng.choice(TREE_NAMES))
    if violate and rng.random() < 0.1:
        n.name = rng.choice(BAD_NAMES)
    keys = []
    for _ in range(rng.choice([0, 0, 1, 2, 3])):
        k = rng.choice(TREE_NAMES)
        if k in keys and not (violate and rng.random() < 0.5):
            continue
        keys.append(k)
        n.attrs.append((k, rnd_value(rng)))
    if violate and rng.random() < 0.05:
        n.attrs.append((rng.choice(BAD_NAMES), b"v"))
    prev_text = False
    for _ in range(rng.choice([0, 1, 2, 3, 4]) if depth < 4 else rng.choice([0, 0, 1])):
        if rng.random() < 0.5 and depth < 4:
            elems = [c for c in n.children if isinstance(c, Node)]
            n.children.append(rng.choice(elems) if elems and rng.random() < 0.15 else gen_tree(rng, depth + 1, violate))
            prev_text = False
        elif violate and rng.random() < 0.5:
            n.children.append(rng.choice([b"", b" ", b"\n", b" \t ", rnd_text(rng), b"a\x00b"]))
            prev_text = True
        elif not prev_text:
            n.children.append(rnd_text(rng))
            prev_text = True
    return n


def gen_chain(rng, depth):
    root = Node(b"r")
    cur = root
    for i in range(depth):
        c = Node(rng.choice([b"a", b"b", b"c"]))
        if rng.random() < 0.1:
            c.attrs.append((b"k", rnd_value(rng)))
        if rng.random() < 0.1:
            cur.children.append(rnd_text(rng))
        cur.children.append(c)
        cur = c
    return root


def deep_doc(depth):
    return b"".join(b"<e%d>" % (i % 7) for i in range(depth)) + b"x" + b"".join(b"</e%d>" % (i % 7) for i in reversed(range(depth)))


ESC_ALPHA = [bytes([c]) for c in b"&;#amplltgquosx109<>\"'\n\r -"]
ESC_SMALL = [b"&", b";", b"#", b"1", b"a", b"l", b"t", b"<", b'"', b"\n", b" ", b"-"]


def variant_repaired():
    """the `deep` op runs Xml::Variant assignment and the cloning branch of the mutable toElement(); both are
    defective on the pinned tree (D15: implicit operator= double free; D16: clone built in the shared block) and
    repaired by fixes/rc/0002,0003.  The op is generated only against a header that carries the repairs."""
    try:
        h = (C.REPO / "include/nstd/Document/Xml.hpp").read_text()
    except OSError:
        return False
    return "operator=(const Variant& other)" in h and "(Element*)(newData + 1)" in h


ESCAPABLE = [b"&", b'"', b"'", b"<", b">", b"\n", b"\r"]


def capacity_ops(rng, quick):
    """escapeString writes through a raw pointer into a String whose capacity it manages itself (len+200 at the
    start, then `reserve` at every escape, capacities rounded to 4k+3): values with many escapes, swept across
    those boundaries — runs of 1..131 of each escapable character (escaped lengths up to ~520..790, every residue
    mod 4) with plain tails of 0..3 characters and plain heads, as text, as attribute value, through esc, tostr
    and the rt round trip; plus long random values dense in escapable characters."""
    ops = []
    vals = []
    for ch in ESCAPABLE:
        for n in range(1, 132):
            for tail in range(4):
                vals.append(ch * n + b"x" * tail)
    for ch in ESCAPABLE:                              # plain head: the initial slack is len+200 whatever the head is
        for head in (1, 2, 3, 7, 60, 199, 200, 201):
            for n in (33, 34, 40, 41, 49, 50, 51, 52, 53, 66, 67, 68, 100, 101):
                vals.append(b"y" * head + ch * n + b"x" * rng.randrange(4))
    for i, v in enumerate(vals):
        h = hx(v)
        ops.append(f"esc 1 {h}")
        ops.append(f"escm {i % 2} {h}")
        if v.strip(WSB):
            ops.append(f"esc 0 {h}")
            ops.append(f"rt (61,t{v.hex()})")
        ops.append(f"rt (61@62={v.hex()})")
        if i % 4 == 0:
            ops.append(f"tostr (61@62={v.hex()},t78{v.hex()})")
    dense = [b"&", b'"', b"'", b"<", b">", b"&", b'"', b"\n", b"\r", b"a", b"1", b";", b" ", b"\xc3\xa9"]
    for _ in range(2500 if quick else 25000):
        n = rng.choice([30, 45, 60, 80, 120, 200, 300])
        v = b"".join(rng.choice(dense) for _ in range(n + rng.randrange(8)))
        k = rng.random()
        if k < 0.15:
            ops.append(f"esc {rng.randrange(2)} {hx(v)}")
        elif k < 0.3:
            ops.append(f"escm {rng.randrange(2)} {hx(v)}")
        elif k < 0.6:
            ops.append(f"rt (61@6b={v.hex()}@62={rnd_value(rng).hex()})")
        elif k < 0.8:
            ops.append(f"rt (61,t78{v.hex()},(62@63={v[:70].hex()}),t79{v[::-1].hex()})")
        else:
            ops.append(f"tostr (61@6b={v.hex()},t78{v.hex()})")
    return ops



# ---- histories over Variant handles ---------------------------------------------------------------------------
H_SMALL = ["hmut 0 - addelem 61", "hmut 0 0 addtext 78", "hmut 0 0 rename 7a", "hmut 1 0 rename 79", "hmut 1 - addtext 62",
           "hassign 1 0", "hassign 0 1", "hclear 0", "hmut 0 - push 1", "hmut 1 0 settext 0 71", "hsetstr 1 73", "hmut 0 - delfirst"]
H_NAMES = ["61", "62", "7a", "-", "6b31"]
H_TEXTS = ["78", "-", "2026", "3c", "0a"]


def h_size(v):
    return 1 if not isinstance(v, tuple) else 1 + sum(h_size(c) for c in v[3])


def h_paths(v, limit=4):
    """all paths to element-or-text positions of the value (as the mutable walk can address them)"""
    out = [[]]
    if isinstance(v, tuple):
        for i, c in enumerate(v[3][:limit]):
            out += [[i] + q for q in h_paths(c, limit)]
    return out


def gen_h_history(rng):
    vars_ = [None] * NVARS
    ops = []
    n = rng.choice([6, 10, 16, 25, 40])
    while len(ops) < n:
        r = rng.random()
        v = rng.randrange(NVARS if r > 0.03 else NVARS + 1)
        if r < 0.05:                                    # deliberately invalid
            op = rng.choice([f"hmut {v} 9 rename 61", f"hmut {v} - delfirst" if not (isinstance(vars_[v % NVARS], tuple) and vars_[v % NVARS][3]) else f"hmut {v} - settext 99 78",
                             f"hmut {v} - push {v}", f"hmut {v} - push {rng.randrange(NVARS)}", f"hassign {v} 4", "hmut 0 - rename 6", "hmut 0 0. rename 61", f"hclear {NVARS}"])
        elif r < 0.22:
            src = rng.randrange(NVARS)
            op = f"hassign {v} {src if rng.random() > 0.08 else v}"
        elif r < 0.27:
            op = f"hclear {v}"
        elif r < 0.32:
            op = f"hsetstr {v} {rng.choice(H_TEXTS)}"
        else:
            v %= NVARS
            val = vars_[v]
            path = rng.choice(h_paths(val)) if rng.random() < 0.85 else []
            pth = ".".join(map(str, path)) if path else "-"
            tgt = val
            for i in path:
                tgt = h_elem(tgt)[3][i]
            nk = len(h_elem(tgt)[3])
            big = h_size(val) > 60
            k = rng.random()
            if k < 0.18:
                ed = f"rename {rng.choice(H_NAMES)}"
            elif k < 0.28:
                ed = f"attr {rng.choice(['6b', '61', '6b32'])} {rng.choice(H_TEXTS)}"
            elif k < 0.42 and not big:
                ed = f"addtext {rng.choice(H_TEXTS)}"
            elif k < 0.60 and not big:
                ed = f"addelem {rng.choice(H_NAMES)}"
            elif k < 0.68 and nk:
                ed = "delfirst"
            elif k < 0.72:
                ed = "clear"
            elif k < 0.86 and nk:
                ed = f"settext {rng.randrange(nk)} {rng.choice(H_TEXTS)}"
            elif not big:
                cands = [i for i in range(NVARS) if i != v and vars_[i] is not None and h_size(vars_[i]) <= 30]
                ed = f"push {rng.choice(cands)}" if cands else f"addelem {rng.choice(H_NAMES)}"
            else:
                ed = "delfirst" if nk else "clear"
            op = f"hmut {v} {pth} {ed}"
        h_step(vars_, op.split(" "))
        ops.append(op)
    return ops


H_REGRESSIONS = [
    ["hmut 0 - rename 61", "hmut 0 - addelem 62", "hmut 0 0 addtext 78", "hassign 1 0", "hmut 1 0 rename 7a", "hmut 1 0 settext 0 79",
     "hmut 0 - push 1", "hclear 1", "hsetstr 2 6869", "hmut 2 - delfirst", "hmut 0 1.0 clear", "hmut 0 5 clear", "hassign 3 1", "hassign 0 0",
     "hmut 2 - attr 6b 76", "hmut 4 - clear"],
    ["hsetstr 0 78", "hassign 1 0", "hsetstr 1 79", "hassign 2 0", "hmut 2 - addtext 7a", "hclear 0", "hassign 1 3", "hassign 3 3"],
    ["hmut 0 - addtext 78", "hassign 1 0", "hmut 1 - settext 0 79", "hmut 0 - settext 0 7a", "hmut 0 - settext 0 71", "hmut 1 0 addelem 62", "hmut 0 0 rename 63"],
    ["hmut 0 - addelem 61", "hmut 0 0 addelem 62", "hmut 0 0.0 addelem 63", "hassign 1 0", "hassign 2 1", "hmut 1 0.0.0 rename 7a", "hclear 0", "hmut 2 0.0 delfirst", "hmut 1 0 clear"],
]

def chunks(ops, n):
    return [ops[i:i + n] for i in range(0, len(ops), n)]


def histories_for(ctx):
    rng = ctx.rng
    quick = ctx.tier == "quick"
    hs = C.load_corpus(ctx.prop)
    ncorpus = len(hs)
    counts = {}

    reg = [P(b) for b in REGRESSIONS] + [P(deep_doc(1000)), P(deep_doc(1000)[:5000]), "rt " + spec(gen_chain(rng, 200)),
                                           "tostr " + spec(gen_chain(rng, 200)), "rt (61@62=0a0d09,t0a0d)", "tostr (61,n)",
                                           "tostr (61)x", "tostr (6)", "rt (61", "copy (61@6b=31@62=32,t78,(62),t79)", "copy (61)", "copy (61,n)", "copy (61@6b=31@6b=32,(62,(63,t64)),(62,(63,t64)))",
                                           "copy " + spec(gen_chain(rng, 200)), "esc 2 61", "esc 0 6100", "unesc 00", "nop", "parse zz"]
    counts["regressions"] = len(reg)
    hs += chunks(reg, 4)

    ex, scope = gen_exhaustive(quick)
    counts["exhaustive"] = len(ex)
    hs += chunks(ex, 8)

    ndoc = 50000 if quick else 300000
    docs = [DocGen(rng, clean=(i % 2 == 0)).doc() for i in range(ndoc)]
    docs = [d for d in docs if len(d) < 20000]
    counts["generated documents"] = len(docs)
    hs += chunks([P(d) for d in docs], 2)

    nmut = 65000 if quick else 400000
    muts = [mutate(rng, rng.choice(docs)) for _ in range(nmut)]
    counts["mutated documents"] = len(muts)
    hs += chunks([P(d) for d in muts], 2)
    pref = []
    for d in rng.sample(docs, 200 if quick else 800):
        d = d[:400]
        pref += [d[:k] for k in range(len(d) + 1)]
    counts["prefixes"] = len(pref)
    hs += chunks([P(d) for d in pref], 8)

    ntree = 32000 if quick else 200000
    tops = []
    for i in range(ntree):
        t = gen_tree(rng, 0, violate=(i % 5 == 4))
        s = spec(t)
        tops.append("rt " + s)
        if i % 2 == 0:
            tops.append("tostr " + s)
        if i % 3 == 0:
            tops.append("copy " + s)
    if variant_repaired():
        # writes through copies that share Variant payloads (needs the repairs of D15/D16 in Xml.hpp)
        for i in range(ntree // 4):
            t = gen_tree(rng, 0, violate=(i % 5 == 4))
            tops.append(f"deep {spec(t)} {rng.choice([0, 1, 1, 2, 2, 3, 5])}")
        tops += ["deep (61,t78,(62,(63),(64)),(65)) 2", "deep (61,(62,(63,(64,t65)))) 3", "deep (61) 1", "deep (61,t78) 0",
                 f"deep {spec(gen_chain(rng, 200))} 150"]
    else:
        ctx.notes.append("Xml.hpp does not carry the repairs of Xml::Variant::operator= / mutable toElement() (D15/D16, Rc area): "
                         "`deep` ops (writes through copies sharing a payload) not generated")
    for _ in range(2 if quick else 20):
        tops.append("rt " + spec(gen_chain(rng, 200)))
    counts["trees (rt/tostr/copy/deep ops)"] = len(tops)
    hs += chunks(tops, 2)

    # Variant handles: histories over 4 variables (the state lives for one history)
    if variant_repaired():
        HBRANCH.clear()
        hh = [list(h) for h in H_REGRESSIONS]
        nh = 3 if quick else 4
        for k in range(1, nh + 1):
            for w in itertools.product(H_SMALL, repeat=k):
                hh.append(list(w))
        counts["handle histories: exhaustive (<= %d ops of %d)" % (nh, len(H_SMALL))] = len(hh) - len(H_REGRESSIONS)
        nrand = 3000 if quick else 30000
        rnd = [gen_h_history(rng) for _ in range(nrand)]
        counts["handle histories: random"] = nrand
        counts["handle ops"] = sum(len(h) for h in hh) + sum(len(h) for h in rnd)
        for h in hh:                                   # branch counters of the enumerated part
            st = [None] * NVARS
            for op in h:
                h_step(st, op.split(" "))
        ctx.cov["branch_hits"] = dict(sorted(HBRANCH.items()))
        hs += hh + rnd
    else:
        ctx.notes.append("Xml.hpp does not carry the repairs of Xml::Variant (D15/D16): handle histories (hassign/hmut ...) not generated")

    # the public entry points (Xml::parse(const String&), Xml::Parser, Xml::save/load)
    pub = ["nofile", "pparse 3c61", "pparse -", "parser 3c613e3c2f623e", "parser " + hx(REGRESSIONS[0]), "pparse " + hx(REGRESSIONS[0]), "file (61@62=0a,t78)", "parser -"]
    for d in rng.sample(docs, 300 if quick else 3000) + rng.sample(muts, 300 if quick else 3000):
        pub.append(("pparse " if rng.random() < 0.5 else "parser ") + hx(d))
    nfile = 0
    for op in tops:
        if op.startswith("rt ") and "00" not in op and nfile < (200 if quick else 2000) and len(op) < 4000:
            pub.append("file " + op[3:])
            nfile += 1
    counts["public entry points (pparse/parser/file)"] = len(pub)
    hs += chunks(pub, 4)

    eops = []
    for k in range(4):
        for w in itertools.product(ESC_SMALL, repeat=k):
            b = b"".join(w)
            eops.append("unesc " + hx(b))
            if k < 3:
                eops += [f"esc 0 {hx(b)}", f"esc 1 {hx(b)}"]
    for _ in range(40000 if quick else 200000):
        b = b"".join(rng.choice(ESC_ALPHA) for _ in range(rng.choice([1, 3, 5, 8, 12, 20])))
        k = rng.random()
        if k < 0.5:
            eops.append("unesc " + hx(b))
        elif k < 0.6:
            eops.append("unesc " + hx(py_esc(b, rng.random() < 0.5)))
        else:
            eops.append(f"esc {rng.randrange(2)} {hx(b)}")
    refhits = {}
    for piece in NUM_ODD + NUM_CLEAN + STRAY:
        eops.append("unesc " + hx(b"x" + piece + b"y"))
        eops.append("unesc " + hx(piece))                         # the whole value is one reference (unescape_numeric_ref)
        eops.append("parse " + hx(b'<a v="' + piece + b"\" w='" + piece + b"'>" + piece + b"t</a>"))
        m = RE_REF.fullmatch(piece)
        cls = "reference not decoded ('&' kept)" if not m else ("named entity" if m.group(1) else
                                                                 "numeric reference -> %d byte(s) of UTF-8" % len(_ref(m)))
        if m and not m.group(1) and int(m.group(3)) >= 1 << 32:
            cls += " (value >= 2^32: wrapped / saturated)"
        refhits["unesc: " + cls] = refhits.get("unesc: " + cls, 0) + 1
    ctx.cov.setdefault("branch_hits", {}).update(refhits)
    for c in range(1, 256):                      # the escape condition / entity table on every byte value
        eops += [f"escm 0 {c:02x}", f"escm 1 {c:02x}", f"esc 0 {c:02x}", f"esc 1 {c:02x}", f"esc 1 61{c:02x}62", f"unesc {c:02x}", f"unesc 26{c:02x}3b", f"unesc 2623{c:02x}3b"]
    counts["esc/unesc ops"] = len(eops)
    hs += chunks(eops, 8)

    cops = capacity_ops(rng, quick)
    counts["long values across the String capacity boundaries (esc/rt/tostr)"] = len(cops)
    hs += chunks(cops, 6)

    ctx.cov["rule"] = (f"corpus ({ncorpus}) + regression list + exhaustive small scope + type-directed random documents rendered with "
                       "comments / processing instructions / both quote kinds / CR LF TAB white space / entity and numeric references / "
                       "stray ampersands / duplicate attributes (half of them inside real XML so that xml.etree applies) + "
                       "1-3 byte mutations and all prefixes of such documents + random element trees (depth <= 4, chains of depth 200, "
                       "one document of depth 1000; 1 in 5 violating the round-trip preconditions) for tostr/rt/copy + long values with many escapes swept across the capacity "
                       "boundaries of escapeString's buffer (runs of 1..131 of each escapable byte, plain tails 0..3, plain heads, dense random "
                       "values of 30..300 bytes; as text and as attribute value; esc, tostr, rt) + esc/unesc on all "
                       "strings of length <= 3 (esc: 2) over 12 symbols and random strings; counts: "
                       + ", ".join(f"{k}={v}" for k, v in counts.items())
                       + "; distinct_nontrivial = distinct (op kind, observation) pairs with a payload of >= 4 bytes")
    pick = lambda ops: " ; ".join(ops[len(ops) // 2: len(ops) // 2 + 2])[:700]
    ctx.cov["samples"] = [pick([P(d) for d in docs]), pick([P(d) for d in muts]), pick(tops), pick(tops[len(tops) // 3:]), pick(eops),
                          pick(ex), pick([P(d) for d in pref]), pick(reg)]
    ctx.cov["exhaustive"] = False
    ctx.cov["exhaustive_scope"] = scope
    ctx.cov["generator_counts"] = counts
    return hs


def nontrivial(h, out):
    keys = []
    for l, o in zip(h, out):
        if len(l) >= 14 or (l.startswith("h") and len(o) > 12):
            keys.append((l.split(" ")[0], hashlib.sha1(o.encode()).hexdigest()[:16]))
    return frozenset(keys) if keys else None


ASSUMPTIONS = [
    "the text handed to Xml::parse is NUL-terminated; the parser sees the bytes before the first NUL",
    "String, HashMap (iteration in insertion order, append replaces the value of an existing key) and List of libnstd behave as documented",
    "sscanf(\"#%u\") of glibc: optional white space and sign, decimal digits, strtoul saturation, result truncated to 32 bit",
    "allocation never fails; recursion depth of the real parser is bounded by the nesting depth of the text (checked up to 1000)",
    "the model mirrors the repaired Xml.cpp (fixes/xml/0001..0005); Xml::Variant assignment / mutable toElement() on shared values are exercised (ops deep, hassign, hmut) only when Xml.hpp carries the repairs of D15/D16 (fixes/rc/0002,0003)",
    "round trip: names are non-empty, free of NUL / > = white space and do not start with < \" ' ? !; attribute keys distinct; text children non-blank and not adjacent; no NUL anywhere",
]


def opinion_stats(hs, ref_outs):
    n = sum(len(h) for h in hs)
    k = sum(1 for r in ref_outs for x in r if x is not None)
    return n, k


def check(ctx):
    ctx.assumptions += ASSUMPTIONS
    proof_ok = C.proof_stage(ctx, PROPS, [DRIVER], gen=gen, leanchecker=(ctx.tier == "thorough"))
    harness = build(ctx)
    if harness is None or not C.driver_path(DRIVER).exists():
        return
    try:
        hs = histories_for(ctx)
        if not proof_ok:
            ctx.log("proof stage broken: searching harder for a failing input")
            docs = [DocGen(ctx.rng, clean=False).doc() for _ in range(5000)]
            hs += chunks([P(mutate(ctx.rng, d)) for d in docs], 2)
        ops = {}
        for h in hs:
            for l in h:
                ops[l.split(" ")[0]] = ops.get(l.split(" ")[0], 0) + 1
        ctx.cov["op_histogram"] = ops
        diffs = C.differential(ctx, harness, C.driver_path(DRIVER), hs, reference, C.default_eq, nontrivial=nontrivial)
        # distinct keys are counted per history as sets: flatten
        ctx.log(f"{len(hs)} histories, {ctx.cov['evaluations']} op lines, {len(diffs)} disagreement(s)")
        C.report_diffs(ctx, diffs, harness, C.driver_path(DRIVER), reference, C.default_eq, "xml-ops")
    finally:
        try:
            harness.unlink()
        except OSError:
            pass


def replay(ctx, path):
    h = C.parse_replay(path)
    harness = build(ctx)
    C.lake_build([DRIVER])
    diffs = C.differential(ctx, harness, C.driver_path(DRIVER), [h], reference, C.default_eq)
    for d in diffs:
        print(d.text())
        ctx.violation(f"replay: {d.kind}", d.text())
    harness.unlink()


# =====================================================================================================
# stand-alone: harness vs reference only (the model stream is treated as absent)
# =====================================================================================================
def selftest(tier="quick", seed=1, keep=None):
    import time
    ctx = C.Ctx("C16", tier, seed)
    harness = keep or build(ctx)
    driver = C.driver_path(DRIVER) if C.driver_path(DRIVER).exists() and not os.environ.get("XML_NO_MODEL") else None
    if harness is None:
        print("\n".join(ctx.broken))
        return 1
    hs = histories_for(ctx)
    ctx.log(f"{len(hs)} histories, {sum(len(h) for h in hs)} op lines")
    nchunk = C.NCPU * 2
    size = (len(hs) + nchunk - 1) // nchunk
    parts = [hs[i:i + size] for i in range(0, len(hs), size)]

    def run(part):
        lines, _ = C.flatten(part)
        out, rc, err = C.run_lines(harness, lines, timeout=600)
        outs = C.split_outputs(out, part)
        bad = []
        if driver:
            mout, mrc, merr = C.run_lines(driver, lines, timeout=600)
            for h, o, m in zip(part, outs, C.split_outputs(mout, part)):
                for k, op in enumerate(h):
                    if k < len(o) and (k >= len(m) or m[k] != o[k]):
                        bad.append((op, o[k], "MODEL: " + (m[k] if k < len(m) else f"<none> rc={mrc} {merr[-300:]}")))
        nop = 0
        for h, o in zip(part, outs):
            ro = reference(h, o)
            for k, op in enumerate(h):
                i = o[k] if k < len(o) else None
                if i is None:
                    bad.append((op, "<no output> rc=%s %s" % (rc, err[-1500:]), ro[k]))
                    break
                if ro[k] is not None:
                    nop += 1
                    if ro[k] != i:
                        bad.append((op, i, ro[k]))
            if len(o) < len(h):
                break
        if rc != 0 and not bad:
            bad.append(("<exit>", f"rc={rc} {err[-1500:]}", None))
        return bad, nop, sum(len(o) for o in outs)

    t = time.time()
    with cf.ThreadPoolExecutor(max_workers=C.NCPU) as ex:
        res = list(ex.map(run, parts))
    bad = [b for r in res for b in r[0]]
    ctx.log(f"ran {sum(r[2] for r in res)} op lines in {time.time() - t:.1f}s; reference had an opinion on {sum(r[1] for r in res)}; {len(bad)} disagreement(s)")
    print("reference opinions:", STATS)
    for op, i, r in bad[:40]:
        w = op.split(" ")
        shown = ""
        if w[0] == "parse" and len(w) == 2:
            try:
                shown = "   text=" + repr(unhx(w[1]))[:300]
            except ValueError:
                pass
        print(f"OP   {op[:400]}{shown}\n impl {i[:600]}\n ref  {str(r)[:600]}")
    if not keep:
        harness.unlink()
    return 1 if bad else 0


if __name__ == "__main__":
    sys.exit(selftest(sys.argv[1] if len(sys.argv) > 1 else "quick", int(sys.argv[2]) if len(sys.argv) > 2 else 1))
