"""C13  Server clients deliver written bytes completely and in order.
C14  The event loop honours timers, removals, readiness and interrupts."""
import itertools
import random
import threading
import common as C
import gen_server

PROPERTIES = ["C13", "C14"]
MANIFEST = {
    "C13": {
        "technique": "Lean 4 proof (invariants of a model of the Server client write path over all histories of writes, send outcomes, suspend/resume and peer reads) + tie by translation (tools/gen_server.py translates ClientImpl::write/read/suspend/resume, the write-ready branch of run(), Socket::send/recv and mapEvents/unmapEvents from the current sources into Lean on every run; theorems translated body = model step) + differential correspondence model vs real Server on a socket pair with interposed send()",
        "text": "Theorems over all operation histories of the Lean model of ClientImpl::write/read/suspend/resume and the write-ready branch of Server::run (stream_exact, postponed_is_backlog, onWrite_iff_drained, interest_inv, suspended_no_read; suspended_no_read_batch for several clients with events pending in one poll batch); the model is tied to the current Server.cpp/Socket.cpp on every run by executing identical op lines on a real Server whose send() is interposed with scripted outcomes (exhaustive fault sequences + random histories, ASan/UBSan), and by an independent Python byte-stream reference evaluated on the implementation's observations (received stream, return/postponed values, send-buffer size, callback log, intercepted sends, epoll interest). Tie by translation (round 7): lean/Nstd/Generated/ServerTr.lean is regenerated from the CURRENT Server.cpp / Socket.cpp (after g++ -E) on every run; PropsTr13 (byte level: tr13_write_eq — backlog bytes, wire, interest, closing, return value, postponed, intercepted sends —, tr13_writeBranch_eq, tr13_suspend_eq, tr13_resume_eq, tr13_read_eq) and PropsTr (count level: tr_write_eq, tr_writeBranch_eq, tr_suspend_eq, tr_resume_eq, tr_read_eq, tr_read_hard_error, tr_readBranch_eq; socket_send_maps_wouldblock, socket_recv_maps_wouldblock, send_classification: the would-block mapping of Socket::send/recv for every system-call answer; tr_unmapEvents_eq, tr_mapEvents_spec, tr_dispatch_order, tr_flag_values) prove that each translated body IS the corresponding model step for every model state, data, kernel answer and flag set; a change of one of these bodies that changes behaviour makes the build of these files fail (a body outside the translated C++ subset is refused: broken tie; helper functions — members of ClientImpl, members of Server::Private taking the client, file-static functions — are inlined at their calls, also when they return a value inside an expression).",
        "note": "Trusted: Lean kernel + the three standard axioms; tools/gen_server.py (tokenizer, parser, continuation-passing translation of if/else, switch with fall-through, break/continue/return, SSA locals, flag and integer expressions; assumptions: integers are mathematical integers and the casts (usize)/(int)/(ssize) are the identity on the paths where they occur, flag constants are distinct single bits (checked), operands of && || ?: are free of side effects in the subset, Buffer::reserve keeps the content, integer bit arithmetic and Buffer::capacity are uninterpreted values the theorems quantify over) and the hand-written meaning of the primitives (TrC13.lean / TrC14.lean: which model field a C++ member is, what send/recv answer, that the harness callback removes the client in onClosed); translated from the current source and proved equal to the model: ClientImpl::write/read/suspend/resume, the read and write-ready branches of run(), Socket::send, the first switch of Socket::recv, mapEvents, unmapEvents; also translated (second leg, PropsTrLoop: tr_pollSet_eq, tr_pollRemove_eq, tr_timerIter_eq, tr_closingIter_eq, tr_closingIter_exit): Poll::set, Poll::remove and one iteration of the timer loop and of the closing loop of run(), proved equal to pollSet / pollRemove / the .timers / .closing case of step of the event-loop model (iterators as find results, references as cells, loops as one iteration; trusted: the meaning of the primitives PPoll / PTimer / PClosing in TrC14.lean); hand-translated and only tied by the correspondence run: Poll::poll, the one-client closing round of the C13 model, one poll round per `ready` op; the kernel delivers bytes accepted by send() in order (checked by the harness on a socket pair) and reports a socket pair with free buffer space writable; Buffer behaves as a byte queue (C08); the byte-stream theorems use the one-client model (one poll round per `ready` op); the clause about suspended clients is additionally proved over the event-loop model of C14 with any number of clients and the poll's pending batch (PropsC13Batch: set_purges_pending_batch, suspended_has_no_pending_read, suspended_no_read_batch, onRead_only_from_poll) and run on the real Server in a second stream (2..5 clients fetched in one epoll_wait batch, suspend/resume from other clients' / timers' / listeners' callbacks; monitor: no onRead between suspend and resume); peer hang-up and read(…,0) are outside the C13 model; the C13 model assumes that onClosed removes the client (as the harness callback does) — peer_stream_prefix depends on it (a kept client that writes again after a failed write-ready send would leave a gap).",
        "design_ref": "DESIGN.md 3/C13",
    },
    "C14": {
        "technique": "Lean 4 proof (invariants of a small-step transition-system model of Server::run + Socket::Poll over all histories, callback scripts and kernel answers) + tie by translation of the client-level bodies (tools/gen_server.py, PropsTr) + differential correspondence model vs real Server under virtual time with interposed clock_gettime/epoll_wait/epoll_ctl/send",
        "text": "65 theorems (PropsC14, PropsC14R) over ALL histories of the Lean model (API calls, arbitrary callback scripts that create and remove timers, socket-pair clients, listeners and establishers also from inside callbacks (Act.mkTimer/mkPair/mkListener/mkEst, rm*), any epoll_wait answer in any order, any time advance, any send outcome): no_fault (no null/dangling pointer use), timer_queue_exact, timer_not_early, timer_order, timer_once_per_interval, timer_intervals_positive, activation_moves_due_forward, poll_timeout_is_next_due, callbacks_only_to_live, removed_never_called (all four object kinds, also with events pending), dispatch_only_registered_kinds, client_interest, suspended_client_no_onRead, failed_io_then_onClosed at history level (a queued client gets onClosed or is deleted before run() polls again; membership in the closing list persists across all calls and scripts), run_returns_only_on_interrupt, interrupt_returns_run, interrupt_never_lost, interrupt_eventually_returns (from any reachable state with a pending interrupt run() returns after finitely many steps for every kernel answer that reports the event descriptor — well-founded measure; for quiet callback scripts), kernel_is_asked_again (quiet scripts) and kernel_is_asked_again_any_scripts (ARBITRARY scripts — timer creation, read, write inside callbacks — under ClockOk and ClosingCalm), pending_event_dispatched_or_pruned, ready_eventually_dispatched (liveness over infinite runs: under the explicit kernel-fairness hypothesis KernelFair, after every point of the run there is a later step at which run() has returned, or a non-empty event of the socket is handed to the dispatch switch, or set()/remove() on that socket pruned its event), event_pruned_only_through_its_socket, ready_eventually_dispatched_untouched_socket, interrupt_eventually_returns_any_scripts (the same as interrupt_eventually_returns for arbitrary scripts under ClockOk and ClosingCalm), poll_set_remove_keep_other_events, poll_set_covering_keeps_event, connect_event_outcome (exactly one of onConnected/onAbolished per connect event), connect_event_unregisters, accept_event_outcome (interrupt() of other threads as two interleaved moves), clear_removes_everything, no_callback_after_clear, clear_stale_wakeup_is_harmless (Server::clear() outside run()); round 7 (PropsC14R): no_client_is_removed_between_steps and closing_loop_never_deletes (the deleteClient branch of the closing loop, Server.cpp 277, is dead in the repaired code: whenever the loop pops a client it has a callback and is not _removed), server_set_never_takes_early_return (no set() of suspend/resume/write/write-ready on a registered client asks for the flags already registered, so the early return of Poll::set is not reachable from Server). failed_creation_leaves_no_trace (Move.failCreate: listen/connect/pair returning 0 are moves of all histories and leave no trace). Tie by translation (PropsTr 14 + PropsTrLoop 5 theorems): Poll::set and Poll::remove (tr_pollSet_eq, tr_pollRemove_eq, incl. the epoll_ctl calls made), one iteration of the timer loop (tr_timerIter_eq: re-queue before the callback, default timer, exit condition) and of the closing loop (tr_closingIter_eq, tr_closingIter_exit), ClientImpl::suspend/resume/write/read, the read and write-ready branches of the dispatch chain of run() and the order of its flag tests, Socket::send / Socket::recv (would-block mapping for every system-call answer), mapEvents / unmapEvents are translated from the CURRENT sources on every run (tools/gen_server.py -> lean/Nstd/Generated/ServerTr.lean) and proved equal to the model functions suspend / resume / write / read / writeReady / unmap for every model state, kernel answer and flag set. The model is tied to the current Server.cpp/Socket.cpp on every run: identical op lines are executed on a real Server (socket pairs, loop-back listeners and establishers, virtual clock, epoll_wait answered from the really-ready set permuted/truncated by the schedule, callback scripts) and on the compiled model; an independent Python reference timer scheduler predicts pure timer programs exactly and a monitor evaluates removed_never_called / timer_not_early / timer_order / timeliness / live-object sets directly on the implementation's callback log.",
        "note": "Trusted: Lean kernel + the three standard axioms; hand translation of Poll::poll, of remove(Timer&) and of the API functions into the model (the accept and connect branches of run() are translated: PropsTrHand tr_acceptBranch_eq, tr_connectBranch_eq, with an applied socket option succeeding) (validated by the correspondence run, not proved); translated from the current source and proved equal to the model (tools/gen_server.py + PropsTr; trusted there: the translator, the meaning of the primitives in TrC14.lean, integers as mathematical integers, casts as identity, POSIX: a failing call sets errno != 0): ClientImpl::suspend/resume/write/read, read and write-ready branches, Socket::send/recv, mapEvents/unmapEvents. Modelled rather than verified: MultiMap as a key-sorted FIFO multimap with lower-bound find (C01 incl. the repair of D1 — without it the check reports D19 with a 2-timer failing input), PoolList/HashSet/HashMap as reference containers (C02/C03), kernel epoll/eventfd/socket readiness (assumption; the harness prints ENV-FAIL when the kernel deviates), interrupt() from another thread as two moves (flag under the mutex, then event-descriptor write) interleaved arbitrarily with run() in the theorems — the correspondence run exercises interrupt() from callbacks, between runs, from inside epoll_wait and (op `runmt`; timers-only programs and programs with idle registered sockets) from a real second thread racing with run(); weak-memory effects on the unlocked read of _interrupted are not modelled, host-name resolving establishers not modelled (Server::clear() is: Move.clear), failing connects are injected through an interposed getsockopt(SO_ERROR) (a real refused loop-back connect is not deterministic), peers of accepted/connected TCP clients never close in the correspondence runs. Hypotheses of the liveness theorems (explicit in the statements): KernelFair (environment: if the kernel is asked again and again, then again and again an answer reports the socket ready — satisfiability of it for a concrete infinite run is exhibited only on a finite prefix, example exLive), ClosingCalm (an onClosed callback does not make a client fail again; without it the closing loop of the C++ never ends either; implied by scripts without read/write), ClockOk (the clock is not behind the time the timer loop sampled; established by entering run() and by every poll step). 'Dispatched' means handed to the dispatch switch of run() (HandsOut); that the callback is of a registered kind is dispatch_only_registered_kinds. OPEN (not proved): real-time bounds (the model proves only that run() never sleeps past a due timer); the 64-event cap of one epoll_wait is not modelled (it is the reason KernelFair says 'some later answer'). Not modelled (docs/server.md, coverage table): host-name resolving establishers (needs a real resolver thread: not driven), a failing socket option after a successful accept (Server.cpp 370-375). Failing creations (socket()/socketpair()/bind()/listen()/connect()/setsockopt failing inside listen/connect/pair: op failmk with interposed calls) are Move.failCreate (state unchanged); a socket option failing at the connect event (op ofail, interposed setsockopt) is the same model transition as a failed connect (EnvOp.connFail: Poll::remove, onAbolished); socket options that succeed (op opt) have no model effect; a failing accept() after a readiness report is in the model and executed (forced listener report). The branch-hit table of run() (coverage.branch_hits, 41 branches/situations) is measured on every run; 3 are never hit and explained in coverage.branches_never_hit. Top-level API moves may interleave with steps while run() is active: an over-approximation for the safety theorems, not a claim that remove() is thread-safe. The model mirrors the repaired code (fixes/server/01, 02, 03: Server::time raises an interval below 1 ms to 1 ms — with interval 0 the timer loop never ended and interrupt() could not make run() return).",
        "design_ref": "DESIGN.md 3/C14",
    },
}
PROPS = {"C13": ["Nstd.Server.PropsC13", "Nstd.Server.PropsC13Batch", "Nstd.Server.PropsTr", "Nstd.Server.PropsTr13", "Nstd.Server.PropsTrLoop"],
         "C14": ["Nstd.Server.PropsC14", "Nstd.Server.PropsC14R", "Nstd.Server.PropsTr", "Nstd.Server.PropsTrLoop", "Nstd.Server.PropsTrHand"]}
LEAN_TARGETS = ["Nstd.Server.Props", "drv_server"]
DRIVER = "drv_server"
GEN_TR = C.LEAN / "Nstd" / "Generated" / "ServerTr.lean"


def translate(repo=None):
    """(ok, message): the bodies of ClientImpl::suspend/resume/write/read, the read / write-ready branches of run(), Socket::send,
    Socket::recv (first switch), Poll::Private::mapEvents/unmapEvents of the CURRENT sources -> lean/Nstd/Generated/ServerTr.lean
    (tools/gen_server.py); a shape outside the understood subset is refused"""
    try:
        return True, gen_server.generate(repo or C.REPO, GEN_TR)
    except gen_server.Refuse as e:
        return False, "tools/gen_server.py refuses the current Server.cpp / Socket.cpp (broken tie): " + str(e)
    except OSError as e:
        return False, "tools/gen_server.py: " + str(e)


def gen(ctx):
    ok, msg = translate()
    if ctx is not None:
        ctx.cov.setdefault("translated", msg)
        ctx.log("translator: " + msg)
    return ok, msg


def setup():
    ok, msg = translate()
    if not ok:
        print("server translate:", msg)


def harness_sources():
    r = C.REPO / "src"
    return ["server.cpp"] + [r / f for f in (
        "Socket/Server.cpp", "Socket/Socket.cpp", "Time.cpp", "Mutex.cpp", "Error.cpp", "Memory.cpp", "Future.cpp",
        "Thread.cpp", "Signal.cpp", "Semaphore.cpp", "String.cpp", "System.cpp", "Debug.cpp", "Process.cpp")]


def build(ctx):
    return C.build_harness(ctx, "server", harness_sources(), libs=["-lpthread", "-lrt"])


# =====================================================================================================
# C13
# =====================================================================================================
def hexs(bs):
    return "-" if not bs else "".join(f"{b:02x}" for b in bs)


def unhex(t):
    return [] if t == "-" else [int(t[i:i + 2], 16) for i in range(0, len(t), 2)]


def send_outcome(n, o):
    """the environment's answer to send(n): 'wb' | 'err' | count"""
    if o in ("wb", "err"):
        return o
    if o == "all":
        return n
    if o == "half":
        return n if n <= 1 else n // 2
    return min(int(o), n)


def c13_reference(hist, impl_out):
    """Spec-level oracle of C13, independent of the Lean model: the client is a byte queue
    `pending` (accepted, not yet handed to the OS); the peer must receive exactly the accepted
    stream; postponed/send-buffer size = len(pending); onWrite iff pending drains; interest
    = (r unless suspended) + (w iff pending); no onRead while suspended.  Calls queued by `cb <op>` are made
    inside the next onRead / onWrite and must behave exactly like calls made right after that poll round.  The received
    stream is additionally checked against the implementation's own `got` lines (see c13_ref_eq)."""
    S = {"pending": [], "inflight": [], "inbox": [], "su": False, "closing": False, "dead": False, "registered": True}
    queued = []
    out = []

    def api(t):
        """write / read / suspend / resume on a live client; returns (result text, sends)"""
        op, tx, res = t[0], [], "ok"
        if op == "write":
            d = unhex(t[1])
            if not S["pending"]:
                r = send_outcome(len(d), t[2])
                tx.append(f"{len(d)}>{r}")
                if r == "err" or r == 0:
                    S["closing"] = True
                    res = "w0 0"
                else:
                    k = 0 if r == "wb" else r
                    S["inflight"] += d[:k]
                    S["pending"] = d[k:]
                    res = f"w1 {len(S['pending'])}"
            else:
                S["pending"] = S["pending"] + d
                res = f"w1 {len(S['pending'])}"
        elif op == "read":
            m = int(t[1])
            if S["inbox"]:
                res = "rd1 " + hexs(S["inbox"][:m])
                S["inbox"] = S["inbox"][m:]
            else:
                res = "rd0 -"
        elif op == "suspend":
            S["su"] = True
        elif op == "resume":
            S["su"] = False
        return res, tx

    for line in hist:
        t = line.split()
        op = t[0]
        res, cb, tx = "ok", "", []
        if (op == "peersend" and t[1] == "-") or (op == "read" and t[1] == "0") or (op == "cb" and t[1:3] == ["read", "0"]):
            out.append("bad-op")
            continue
        if op == "peerread":
            res = "got " + hexs(S["inflight"])
            S["inflight"] = []
        elif op == "ready":
            if S["dead"]:
                pass
            elif S["closing"]:
                cb = "C"
                S.update(dead=True, closing=False, registered=False)
            else:
                sel = "" if t[1] == "none" else t[1]
                if "r" in sel and not S["su"] and S["inbox"] and S["registered"]:
                    cb = "R"
                elif "w" in sel and S["pending"] and S["registered"]:
                    n = len(S["pending"])
                    r = send_outcome(n, t[2])
                    tx.append(f"{n}>{r}")
                    if r == "wb":
                        pass
                    elif r == "err" or r == 0:
                        cb = "C"
                        S.update(pending=[], dead=True, registered=False)
                    else:
                        S["inflight"] += S["pending"][:r]
                        S["pending"] = S["pending"][r:]
                        if not S["pending"]:
                            cb = "W"
                if cb in ("R", "W") and queued:
                    for q in queued:
                        r2, tx2 = api(q)
                        tx += tx2
                        if q[0] == "write":
                            cb += "(" + r2.replace(" ", ".") + ")"
                        elif q[0] == "read":
                            cb += f"({r2.split()[0]}.{0 if r2.split()[1] == '-' else len(r2.split()[1]) // 2})"
                        else:
                            cb += "(s)" if q[0] == "suspend" else "(u)"
                    queued = []
                    if S["closing"]:
                        # run() goes round its loop: the closing loop delivers onClosed before the next poll
                        cb += "C"
                        S.update(dead=True, closing=False, registered=False)
        elif S["dead"]:
            out.append("dead")
            continue
        elif op == "cb":
            if len(queued) >= 8:
                out.append("bad-op")
                continue
            queued.append(t[1:])
        elif op in ("write", "read", "suspend", "resume"):
            res, tx = api(t)
        elif op == "peersend":
            S["inbox"] = S["inbox"] + unhex(t[1])
        if S["dead"]:
            intr, sb, su_ = "none", 0, 0
        else:
            intr = (("" if S["su"] else "r") + ("w" if S["pending"] else "")) or "-"
            sb, su_ = len(S["pending"]), int(S["su"])
        out.append(f"{res} sb={sb} su={su_} in={intr} cb={cb or '-'} tx={','.join(tx) or '-'}")
    return out


c13_reference.uses_impl = True


def c13_stream_check(hist, impl_out):
    """direct evaluation of the property statement on the implementation's observations:
    received stream == prefix of the concatenation of the data of writes that returned true,
    of length = number of bytes the intercepted sends handed to the OS.  Returns None or text."""
    accepted, received, handed = [], [], 0
    queued = []
    for line, o in zip(hist, impl_out):
        t, ot = line.split(), o.split()
        if t[0] == "write" and ot[0] == "w1":
            accepted += unhex(t[1])
        if t[0] == "cb" and ot[0] == "ok":
            queued.append(t[1:])
        if t[0] == "ready":
            cbf = [f for f in ot if f.startswith("cb=")]
            if cbf and "(" in cbf[0]:
                # the callback made the queued calls: `(w1.n)` marks an inner write that returned true
                marks = re.findall(r"\(([^)]*)\)", cbf[0])
                if len(marks) != len(queued):
                    return f"the callback made {len(marks)} calls, {len(queued)} were queued"
                for q, mk in zip(queued, marks):
                    if q[0] == "write" and mk.startswith("w1"):
                        accepted += unhex(q[1])
                queued = []
        if ot[0] == "got":
            received += unhex(ot[1])
        for f in ot:
            if f.startswith("tx=") and f != "tx=-":
                for e in f[3:].split(","):
                    k = e.split(">")[1]
                    if k.isdigit():
                        handed += int(k)
        if t[0] == "peerread":
            if received != accepted[:handed]:
                return f"peer received {hexs(received)} but the first {handed} accepted bytes are {hexs(accepted[:handed])}"
        sb = [f for f in ot if f.startswith("sb=")]
        if sb and "in=none" not in o and ot[0] != "dead":
            if int(sb[0][3:]) != len(accepted) - handed:
                return f"send buffer size {sb[0][3:]} != accepted {len(accepted)} - handed {handed}"
    return None


C13_DATA = ["0102030405", "a1a2a3", "b1b2b3b4", "c1", "d1d2d3d4d5d6d7"]
C13_PATTERNS = [
    ["w", "r", "w", "r", "w", "r"],
    ["w", "r", "r", "r", "r", "r"],
    ["w", "w", "r", "r", "w", "r"],
    ["w", "S", "r", "w", "U", "r", "r", "P", "r"],
]


def c13_fault_histories(max_len, outcomes=("wb", "1", "half", "all")):
    """every sequence of send outcomes of length <= max_len, on each slot pattern"""
    hs = []
    for pat in C13_PATTERNS:
        for L in range(1, max_len + 1):
            for seq in itertools.product(outcomes, repeat=L):
                h, k, wi = [], 0, 0
                for p in pat:
                    if p == "S":
                        h.append("suspend")
                    elif p == "U":
                        h.append("resume")
                    elif p == "P":
                        h.append("peersend 5566")
                    else:
                        if k >= L:
                            break
                        if p == "w":
                            h.append(f"write {C13_DATA[wi % len(C13_DATA)]} {seq[k]}")
                            wi += 1
                        else:
                            h.append(f"ready w {seq[k]}")
                        k += 1
                h += ["peerread", "ready w all", "ready rw all", "ready w all", "peerread"]
                hs.append(h)
    return hs


def c13_random_history(rng, length):
    h = []
    sizes = [0, 1, 1, 2, 3, 5, 8, 13, 40, 200]
    for _ in range(length):
        k = rng.random()
        r = rng.random()
        if r < 0.22: o = "wb"
        elif r < 0.27: o = "err" if rng.random() < 0.4 else "0"
        elif r < 0.45: o = "all"
        elif r < 0.6: o = "half"
        else: o = str(rng.choice([1, 1, 2, 3, 4, 7, 12, 39, 150, 1000]))
        if k < 0.30:
            n = rng.choice(sizes)
            h.append(f"write {hexs([rng.randrange(256) for _ in range(n)])} {o}")
        elif k < 0.62:
            h.append(f"ready {rng.choice(['w', 'w', 'rw', 'rw', 'r', 'none'])} {o}")
        elif k < 0.70:
            h.append(f"read {rng.choice([1, 2, 5, 100])}")
        elif k < 0.73:
            # a call made inside the next onRead / onWrite
            h.append("cb " + rng.choice([f"write {hexs([rng.randrange(256) for _ in range(rng.choice([1, 3, 8, 40]))])} {o}",
                                         "suspend", "resume", f"read {rng.choice([1, 5, 100])}"]))
        elif k < 0.78:
            h.append(f"peersend {hexs([rng.randrange(256) for _ in range(rng.choice([1, 2, 7]))])}")
        elif k < 0.86:
            h.append("peerread")
        elif k < 0.93:
            h.append("suspend")
        else:
            h.append("resume")
    h += ["ready w all", "ready w all", "peerread"]
    return h


def c13_reentrant_histories():
    """calls made from INSIDE onWrite / onRead (op `cb`): the backlog of a partial write drains, the onWrite callback writes again
    (every send outcome), suspends / resumes / reads; then further poll rounds and the peer reads everything"""
    hs = []
    inner_sets = [["cb write a1a2a3a4 %s"], ["cb write a1a2a3a4 %s", "cb write b1b2 all"], ["cb suspend", "cb write a1a2a3a4 %s"],
                  ["cb write a1a2a3a4 %s", "cb suspend"], ["cb write a1 %s", "cb resume"], ["cb read 2", "cb write a1a2a3a4 %s"]]
    for o1 in ("1", "half", "wb"):
        for inner in inner_sets:
            for o2 in ("wb", "1", "half", "all", "err", "0"):
                for tail in (["ready w all", "ready w all"], ["ready w 1", "ready rw half", "ready w all", "ready w all"],
                             ["resume", "ready w wb", "ready w all", "ready w all"]):
                    h = ["write 0102030405 " + o1] + [x % o2 if "%s" in x else x for x in inner]
                    h += ["ready w all"] + tail + ["peerread"]
                    hs.append(h)
                    # the same calls inside onRead
                    hs.append(["peersend c1c2c3"] + [x % o2 if "%s" in x else x for x in inner] + ["ready r all"] + tail + ["peerread"])
    return hs


class FaultCounter:
    def __init__(self):
        self.lock = threading.Lock()
        self.c = {"wouldblock": 0, "error": 0, "partial": 0, "full": 0, "zero": 0}
        self.cb = {"R": 0, "W": 0, "C": 0}
        self.stream_fail = []

    def nontrivial(self, h, out):
        c = dict.fromkeys(self.c, 0)
        cb = dict.fromkeys(self.cb, 0)
        for o in out:
            for f in o.split():
                if f.startswith("tx=") and f != "tx=-":
                    for e in f[3:].split(","):
                        n, k = e.split(">")
                        if k == "wb": c["wouldblock"] += 1
                        elif k == "err": c["error"] += 1
                        elif k == "0": c["zero"] += 1
                        elif int(k) < int(n): c["partial"] += 1
                        else: c["full"] += 1
                elif f.startswith("cb=") and f != "cb=-":
                    for ch in f[3:]:
                        if ch in cb:
                            cb[ch] += 1
        bad = c13_stream_check(h, out)
        with self.lock:
            for k in c: self.c[k] += c[k]
            for k in cb: self.cb[k] += cb[k]
            if bad:
                self.stream_fail.append((h, bad))
        if len(h) < 3 or not out:
            return None
        return (frozenset(l.split()[0] for l in h), tuple(o.split(" sb=")[0] for o in out[-3:]), out[-1])


def check_c13(ctx):
    ctx.assumptions += [
        "the operating system delivers the bytes accepted by successive send() calls to the peer in order, without loss or duplication (checked on the socket pair by the harness: received stream == bytes the intercepted sends accepted)",
        "a socket pair with free buffer space is reported writable by epoll; it is reported readable iff unread peer data is queued (the harness prints ENV-FAIL otherwise)",
        "Buffer is a faithful byte queue (property C08); allocation never fails",
        "the user's onClosed callback removes the client (server.remove), as the harness callback does — peer_stream_prefix (after a close the peer has seen a prefix of the accepted data) depends on it: a callback that keeps a client whose write-ready send failed and writes again would make the peer see the stream with a gap",
    ]
    proof_ok = C.proof_stage(ctx, PROPS["C13"], [DRIVER], gen=gen, leanchecker=(ctx.tier == "thorough"))
    harness = build(ctx)
    if harness is None or not C.driver_path(DRIVER).exists():
        return
    try:
        rng = ctx.rng
        quick = ctx.tier == "quick"
        hs = C.load_corpus("C13")
        ncorpus = len(hs)
        L = 6 if quick else 7
        ex = c13_fault_histories(L)
        ex_err = c13_fault_histories(3 if quick else 4, outcomes=("wb", "err", "0", "2", "half", "all"))
        nr = 20000 if quick else 300000
        if not proof_ok:
            nr *= 4
        rnd = [c13_random_history(rng, rng.choice([4, 8, 16, 30, 60])) for _ in range(nr)]
        reent = c13_reentrant_histories()
        hs = hs + reent + ex + ex_err + rnd
        ctx.cov["rule"] = (f"corpus ({ncorpus}) + re-entrant family ({len(reent)} histories: writes / suspend / resume / read made inside onWrite and onRead (op cb), every send outcome of the inner write x 3 outer outcomes x 6 call sets x 3 continuations) + exhaustive: every sequence of send outcomes of length <= {L} over "
                           f"{{wouldblock, 1, half, all}} on {len(C13_PATTERNS)} write/ready/suspend patterns ({len(ex)} histories) + every "
                           f"sequence of length <= {3 if quick else 4} over {{wouldblock, error, 0, 2, half, all}} ({len(ex_err)}) + {len(rnd)} random "
                           "histories of 4..60 ops (write sizes 0..200, outcomes wb/err/0/any count/half/all, ready with any reported subset, "
                           "read, peersend, peerread, suspend, resume, and the same calls queued with `cb` for the next onRead/onWrite callback); distinct_nontrivial = distinct (op-kind set, last three results, final observation)")
        ctx.cov["exhaustive"] = False
        ctx.cov["exhaustive_scope"] = f"send-outcome sequences of length<={L} over 4 outcomes x {len(C13_PATTERNS)} patterns: {len(ex)} histories"
        ops = {}
        for h in hs:
            for l in h:
                ops[l.split()[0]] = ops.get(l.split()[0], 0) + 1
        ctx.cov["op_histogram"] = ops
        ctx.cov["samples"] = [" ; ".join(h) for h in (rnd[-3:] + ex[len(ex) // 2: len(ex) // 2 + 2])]
        fc = FaultCounter()
        diffs = C.differential(ctx, harness, C.driver_path(DRIVER), hs, c13_reference, nontrivial=fc.nontrivial)
        ctx.cov["faults_fired"] = fc.c
        ctx.cov["callbacks_seen"] = fc.cb
        ctx.log(f"{len(hs)} histories, {ctx.cov['evaluations']} op lines, {len(diffs)} disagreement(s); faults fired {fc.c}; callbacks {fc.cb}")
        C.report_diffs(ctx, diffs, harness, C.driver_path(DRIVER), c13_reference, C.default_eq, "server-write")
        for h, bad in fc.stream_fail[:3]:
            ctx.violation("byte stream property violated on the implementation: " + bad, "\n".join(h) + f"\n# {bad}\n",
                          signature="stream")
        check_c13_batch(ctx, harness, quick, proof_ok)
    finally:
        try:
            harness.unlink()
        except OSError:
            pass


# =====================================================================================================
# =====================================================================================================
# C14
# =====================================================================================================
import re

EV_RX = re.compile(r"^(?:t(\d+)|c(\d+)\.([RWC])|l(\d+)\.A(\d+)|e(\d+)\.N(\d+)|e(\d+)\.X|ret)@(-?\d+)$")


def parse_acts(t):
    return [] if t == "-" else [a.split(":") for a in t.split(",")]


class Monitor:
    """Direct evaluation of C14 on the implementation's callback log (independent of the Lean model):
    * removed_never_called: the monitor replays the creations/removals of the op lines and of the
      callback scripts (k-th callback of object id) and requires every callback to go to a live object;
    * timer_not_early / timer_order / once per interval: a reference timer table (due, queue sequence)
      is advanced along the log; every activation must be of the live timer with the least
      (due, sequence), at a virtual time >= its due time;
    * run returns only when an interrupt was requested."""

    def __init__(self):
        self.alive = {}          # id -> kind
        self.used = set()
        self.scripts = {}
        self.calls = {}
        self.timers = {}         # id -> [due, seq, interval]
        self.seq = 0
        self.clock = 1000
        self.auto = 1000
        self.intr = False
        self.err = None
        self.track_closing = False   # closing-wave family: no peer data, no backlog => read/write failures are predictable
        self.closed_peer = set()
        self.pending_close = []
        self.suspended = set()   # clients between suspend() and resume()
        self.sus_calls = 0       # suspend() calls on live clients (coverage)
        self.sus_pending = 0     # … issued from a callback other than the client's own

    def fail(self, msg):
        if self.err is None:
            self.err = msg

    def act(self, a, newc, ts):
        op = a[0]
        if op in ("pair", "lis", "con"):
            i = int(a[1])
            if i not in self.used and i < 1000:
                self.used.add(i)
                self.alive[i] = {"pair": "c", "lis": "l", "con": "e"}[op]
        elif op == "mk":
            i, iv = int(a[1]), max(1, int(a[2]))
            if i not in self.used and i < 1000:
                self.used.add(i)
                self.alive[i] = "t"
                self.timers[i] = [ts + iv, self.seq, iv]
                self.seq += 1
        elif op in ("rmt", "rmc", "rml", "rme"):
            i = int(a[1])
            if self.alive.get(i) == {"rmt": "t", "rmc": "c", "rml": "l", "rme": "e"}[op]:
                del self.alive[i]
                self.timers.pop(i, None)
                self.suspended.discard(i)
                if op == "rmc" and i in self.pending_close:
                    self.pending_close.remove(i)
        elif op == "rd" and self.track_closing:
            i = int(a[1])
            if self.alive.get(i) == "c" and i in self.closed_peer and i not in self.pending_close:
                self.pending_close.append(i)
        elif op == "wr" and self.track_closing:
            i = int(a[1])
            if self.alive.get(i) == "c" and (a[3] == "err" or (i in self.closed_peer and a[3] != "wb")) and i not in self.pending_close:
                self.pending_close.append(i)
        elif op == "sus":
            i = int(a[1])
            if self.alive.get(i) == "c":
                self.suspended.add(i)
                self.sus_calls += 1
                if self.cur is not None and self.cur != i:
                    self.sus_pending += 1
        elif op == "res":
            self.suspended.discard(int(a[1]))
        elif op == "rmnew":
            if newc is not None and self.alive.get(newc) == "c":
                del self.alive[newc]
                self.suspended.discard(newc)
        elif op == "null":
            if newc is not None:
                self.alive.pop(newc, None)
                self.suspended.discard(newc)
        elif op == "intr":
            self.intr = True

    cur = None    # object whose callback is running

    def callback(self, i, newc, ts):
        k = self.calls.get(i, 0)
        self.calls[i] = k + 1
        self.cur = i
        for a in self.scripts.get((i, k), []):
            self.act(a, newc, ts)
        self.cur = None

    def top(self, t):
        op = t[0]
        if op == "script":
            self.scripts[(int(t[1]), int(t[2]))] = parse_acts(t[3])
        elif op == "act":
            self.act(t[1].split(":"), None, self.clock)
        elif op in ("mkpair", "mklisten", "mkconn"):
            i = int(t[1])
            if i not in self.used and i < 1000:
                self.used.add(i)
                self.alive[i] = {"mkpair": "c", "mklisten": "l", "mkconn": "e"}[op]
        elif op == "adv":
            self.clock += int(t[1])
        elif op == "clear":
            # Server::clear(): every object is destroyed; none of them may be called back afterwards
            self.alive = {}
            self.timers = {}
            self.suspended = set()
            self.pending_close = []
        elif op == "pclose":
            if self.alive.get(int(t[1])) == "c" and int(t[1]) < 1000:
                self.closed_peer.add(int(t[1]))

    def run_log(self, entries, events):
        # virtual time only passes inside epoll_wait: by the time-out (which must end at the next due
        # time) or by the +<ms> of an entry that reports events
        budget = sum(int(e.split("+")[1]) for e in entries if "+" in e)
        start = self.clock
        for e in events:
            m = EV_RX.match(e)
            if not m:
                self.fail(f"unparsable event {e}")
                return
            ts = int(m.group(9))
            if ts < self.clock:
                self.fail(f"virtual time went backwards at {e}")
            self.clock = ts
            if m.group(1) is not None:
                t = int(m.group(1))
                if self.alive.get(t) != "t":
                    self.fail(f"removed_never_called: timer {t} activated after remove() returned ({e})")
                    return
                due, seq, iv = self.timers[t]
                if ts < due:
                    self.fail(f"timer_not_early: {e} but due at {due}")
                if ts > max(due, start) + budget:
                    self.fail(f"timer_timely: {e} but due at {due}: run() slept past the due time of a queued timer")
                for u, (d2, s2, _) in self.timers.items():
                    if u != t and (d2, s2) < (due, seq):
                        self.fail(f"timer_order: {e} (due {due}) before timer {u} (due {d2}, queued earlier)")
                self.timers[t] = [due + iv, self.seq, iv]
                self.seq += 1
                self.callback(t, None, ts)
            elif m.group(2) is not None:
                c = int(m.group(2))
                if self.alive.get(c) != "c":
                    self.fail(f"removed_never_called: client {c} called back after remove() returned ({e})")
                    return
                if m.group(3) == "C" and self.track_closing:
                    if c not in self.pending_close:
                        self.fail(f"closing_once: client {c} got onClosed without a (new) failed read/write ({e})")
                        return
                    self.pending_close.remove(c)
                if m.group(3) == "R" and c in self.suspended:
                    self.fail(f"suspended_no_read: client {c} got onRead between suspend() and resume() ({e})")
                    return
                self.callback(c, None, ts)
            elif m.group(4) is not None or m.group(6) is not None:
                o, nc = (int(m.group(4)), int(m.group(5))) if m.group(4) is not None else (int(m.group(6)), int(m.group(7)))
                kind = "l" if m.group(4) is not None else "e"
                if self.alive.get(o) != kind:
                    self.fail(f"removed_never_called: {kind}{o} called back after remove() returned ({e})")
                    return
                if nc != self.auto:
                    self.fail(f"unexpected new client id in {e}")
                self.auto += 1
                self.alive[nc] = "c"
                self.callback(o, nc, ts)
            elif m.group(8) is not None:
                o = int(m.group(8))
                if self.alive.get(o) != "e":
                    self.fail(f"removed_never_called: e{o} abolished after remove() returned")
                    return
                self.callback(o, None, ts)
            else:  # ret
                if self.track_closing and self.pending_close:
                    self.fail(f"failed_io_then_onClosed: clients {self.pending_close} failed a read/write and were not removed, "
                              f"but run() returned without their onClosed")


def c14_monitor(hist, impl_out, stats=None):
    """returns None or a description of the first property violation visible in the implementation's output"""
    m = Monitor()
    # histories without peer data and without partial writes: every read/write failure is predictable from the op lines
    m.track_closing = not any(l.startswith("psend") or l.startswith("dial") or l.startswith("mkconn") or
                              re.search(r"wr:\d+:\d+:(?!err)", l) for l in hist)
    try:
        return _c14_monitor(m, hist, impl_out)
    finally:
        if stats is not None:
            stats["suspend_calls"] = stats.get("suspend_calls", 0) + m.sus_calls
            stats["suspend_from_other_callback"] = stats.get("suspend_from_other_callback", 0) + m.sus_pending


def _c14_monitor(m, hist, impl_out):
    for line, o in zip(hist, impl_out):
        t = line.split()
        if o.startswith("ENV-FAIL") or o == "bad-op":
            return None if o == "bad-op" else None
        if t[0] == "runmt":
            m.intr = True
            events = o.split(" | ")[0].split()
            m.run_log([], [] if events == ["-"] else events)
            if not events or not events[-1].startswith("ret@"):
                m.fail("run() did not return after interrupt() from a second thread")
        elif t[0] == "run":
            events = o.split(" | ")[0].split()
            explicit_i = any(e.startswith("I") for e in t[2:])
            m.run_log(t[2:], [] if events == ["-"] else events)
            if not events or not events[-1].startswith("ret@"):
                m.fail("run() did not return")
        else:
            m.top(t)
        if m.err:
            return m.err
        # live set reported by the harness must equal the monitor's
        live = o.split(" | ")[1].split() if " | " in o else []
        ids = sorted(int(re.match(r"[tcle](\d+)", x).group(1)) for x in live if re.match(r"[tcle]\d+", x))
        if ids != sorted(m.alive):
            return f"live objects {ids} differ from the reference {sorted(m.alive)} after `{line}`"
    return None


def c14_timer_reference(hist):
    """Independent reference scheduler for histories that contain timers only (no sockets):
    predicts the complete output of every op."""
    timers, used, scripts, calls, order = {}, set(), {}, {}, []
    state = {"clock": 1000, "seq": 1, "intr": False, "default": (0, 0), "efd": False}
    out = []

    def live():
        items = [f"t{i}" for i in order if i in timers]
        return (" ".join(items) or "-") + f" clk={state['clock']}"

    def act(a):
        if a[0] == "mk":
            i, iv = int(a[1]), max(1, int(a[2]))
            if i not in used and i < 1000:
                used.add(i)
                order.append(i)
                timers[i] = [state["clock"] + iv, state["seq"], iv]
                state["seq"] += 1
        elif a[0] == "rmt":
            timers.pop(int(a[1]), None)
        elif a[0] == "intr":
            if not state["intr"]:
                state["intr"] = True
                state["efd"] = True

    for line in hist:
        t = line.split()
        if t[0] == "script":
            scripts[(int(t[1]), int(t[2]))] = parse_acts(t[3])
            out.append("ok | " + live())
        elif t[0] == "act":
            act(t[1].split(":"))
            out.append("ok | " + live())
        elif t[0] == "adv":
            state["clock"] += int(t[1])
            out.append("ok | " + live())
        elif t[0] == "clear":
            # pools and queue emptied, default timer re-inserted, flag reset — the event descriptor keeps its signal
            timers.clear()
            state["intr"] = False
            state["default"] = (0, state["seq"])
            state["seq"] += 1
            out.append("ok | " + live())
        elif t[0] in ("failmk", "opt"):
            out.append("ok | " + live())
        elif t[0] in ("run", "runmt"):
            entries = list(t[2:]) if t[0] == "run" else []
            if t[0] == "runmt" and not state["intr"]:
                state["intr"] = True
                state["efd"] = True
            log = []
            for _ in range(100000):
                now = state["clock"]
                while True:
                    cand = [(v[0], v[1], i) for i, v in timers.items()] + [(state["default"][0], state["default"][1], None)]
                    d, sq, i = min(cand)
                    if d > now:
                        break
                    if i is None:
                        state["default"] = (now + 300000, state["seq"])
                        state["seq"] += 1
                        continue
                    timers[i] = [d + timers[i][2], state["seq"], timers[i][2]]
                    state["seq"] += 1
                    log.append(f"t{i}@{now}")
                    k = calls.get(i, 0)
                    calls[i] = k + 1
                    for a in scripts.get((i, k), []):
                        act(a)
                e = entries.pop(0) if entries else "I"
                if e.startswith("I") and not state["intr"]:
                    state["intr"] = True
                    state["efd"] = True
                if state["efd"]:
                    # the event descriptor is reported and read; run() returns only when the flag is set (after clear() it is not)
                    state["efd"] = False
                    if "+" in e:
                        state["clock"] += int(e.split("+")[1])
                    if state["intr"]:
                        state["intr"] = False
                        log.append(f"ret@{state['clock']}")
                        break
                    continue
                nxt = min([v[0] for v in timers.values()] + [state["default"][0]])
                state["clock"] += nxt - now
            out.append(" ".join(log) + " | " + live())
        else:
            return None
    return out


def c14_reference(hist, impl_out):
    pure = all(l.split()[0] in ("script", "act", "adv", "run", "runmt", "clear", "failmk", "opt") for l in hist) and \
        all(a[0] in ("mk", "rmt", "intr") for l in hist if l.split()[0] in ("script", "act")
            for a in (parse_acts(l.split()[3]) if l.split()[0] == "script" else [l.split()[1].split(":")]))
    if pure:
        r = c14_timer_reference(hist)
        if r is not None:
            return r
    return list(impl_out)      # mixed histories: checked by the monitor and against the model


c14_reference.uses_impl = True


# ---- generators ------------------------------------------------------------------------------------
def c14_timer_history(rng, equal_due=False):
    """timers only: 1..8 timers created in one virtual millisecond, intervals 1..3 (or all equal),
    create/remove (self, others, not yet created) inside callbacks, interrupt from a callback or by schedule"""
    h = []
    n = rng.randint(1, 8)
    base_iv = rng.randint(1, 3)
    ids = list(range(1, n + 1))
    extra = list(range(20, 20 + rng.randint(0, 4)))
    for i in ids:
        h.append(f"act mk:{i}:{base_iv if equal_due or rng.random() < 0.5 else rng.randint(0, 3)}")
    allids = ids + extra
    for i in allids:
        for k in range(rng.randint(0, 4)):
            if rng.random() < 0.45:
                acts = []
                for _ in range(rng.randint(1, 3)):
                    r = rng.random()
                    if r < 0.5:
                        acts.append(f"rmt:{rng.choice(allids)}")
                    elif r < 0.9:
                        acts.append(f"mk:{rng.choice(extra) if extra else 99}:{base_iv if equal_due else rng.randint(1, 3)}")
                    else:
                        acts.append("intr")
                h.append(f"script {i} {rng.randint(0, 5)} {','.join(acts)}")
    for _ in range(rng.randint(0, 2)):
        r = rng.random()
        if r < 0.5:
            h.append(f"act rmt:{rng.choice(ids)}")
        elif r < 0.7:
            h.append("act intr")
        else:
            h.append(f"adv {rng.randint(0, 3)}")
    for _ in range(rng.randint(1, 3)):
        h.append("run all " + " ".join("-" if rng.random() < 0.9 else "I" for _ in range(rng.randint(0, 12))))
        if rng.random() < 0.08:
            h.append(f"runmt {rng.choice([0, 0, 50, 300, 2000])}")
        if rng.random() < 0.4:
            h.append(f"act rmt:{rng.choice(allids)}")
        if rng.random() < 0.2:
            h.append(f"act mk:{rng.randint(30, 40)}:{rng.randint(1, 3)}")
    return h


def c14_mixed_history(rng, with_net=True):
    h = []
    clients = list(range(1, 1 + rng.randint(1, 4)))
    listeners = list(range(10, 10 + (rng.randint(0, 2) if with_net else 0)))
    ests = list(range(15, 15 + (rng.randint(0, 2) if with_net else 0)))
    timers = list(range(20, 20 + rng.randint(0, 3)))
    autos = list(range(1000, 1000 + 2 * (len(listeners) + len(ests)) + 1)) if with_net else []
    for c in clients:
        h.append(f"mkpair {c}")
    for l in listeners:
        h.append(f"mklisten {l}")
    for e in ests:
        h.append(f"mkconn {e}")
    for t in timers:
        h.append(f"act mk:{t}:{rng.randint(1, 3)}")
    for e in ests:
        if rng.random() < 0.3:
            h.append(f"cfail {e}")
    allc = clients + autos + (list(range(60, 70)) if with_net else [])
    socks = clients + listeners + ests + autos + (list(range(60, 70)) if with_net else [])

    def rand_act(owner):
        r = rng.random()
        if r < 0.22: return f"rd:{owner if rng.random() < 0.8 else rng.choice(allc)}"
        if r < 0.40: return f"rmc:{owner if rng.random() < 0.5 else rng.choice(allc)}"
        if r < 0.48: return f"sus:{rng.choice(allc)}"
        if r < 0.56: return f"res:{rng.choice(allc)}"
        if r < 0.68: return f"wr:{rng.choice(allc)}:{rng.choice([1, 5, 40])}:{rng.choice(['all', 'wb', 'wb', 'half', '2', '1', 'err'])}"
        if r < 0.74 and listeners: return f"rml:{rng.choice(listeners)}"
        if r < 0.80 and ests: return f"rme:{rng.choice(ests)}"
        if r < 0.86 and timers: return f"rmt:{rng.choice(timers)}"
        if with_net and r < 0.885: return f"{rng.choice(['pair', 'pair', 'lis', 'con'])}:{rng.randint(60, 69)}"
        if r < 0.92: return f"mk:{rng.randint(30, 35)}:{rng.randint(0, 3)}"
        if r < 0.96: return "intr"
        return f"rd:{owner}"

    for i in socks + timers:
        for k in range(4):
            if rng.random() < (0.5 if i < 1000 else 0.3):
                acts = [rand_act(i if i in allc else rng.choice(allc)) for _ in range(rng.randint(1, 3))]
                if i in listeners or i in ests:
                    r = rng.random()
                    if r < 0.3: acts.append("rmnew")
                    if rng.random() < 0.25: acts.append("null")
                    rng.shuffle(acts)
                h.append(f"script {i} {k} {','.join(acts)}")
    fresh = [40]
    for _ in range(rng.randint(1, 4)):
        for _ in range(rng.randint(0, 5)):
            r = rng.random()
            if with_net and rng.random() < 0.12:
                # objects created after others were removed (pool slots / descriptors are reused)
                nid = fresh[0]
                fresh[0] += 1
                kind = rng.choice(["mkpair", "mklisten", "mkconn"])
                h.append(f"{kind} {nid}")
                socks.append(nid)
                if kind == "mkpair":
                    allc.append(nid)
                elif kind == "mklisten":
                    listeners.append(nid)
                    h.append(f"dial {nid}")
                else:
                    ests.append(nid)
                continue
            if r < 0.4: h.append(f"psend {rng.choice(allc)} {rng.choice([1, 3, 100])}")
            elif r < 0.5: h.append(f"pclose {rng.choice(allc)}")
            elif r < 0.7 and listeners: h.append(f"dial {rng.choice(listeners)}")
            elif r < 0.78: h.append(f"act wr:{rng.choice(allc)}:{rng.choice([5, 40])}:{rng.choice(['wb', '2', 'half'])}")
            elif r < 0.85: h.append("act " + rand_act(rng.choice(allc)))
            elif r < 0.88 and ests: h.append(f"cfail {rng.choice(ests)}")
            elif r < 0.9: h.append(f"adv {rng.randint(0, 3)}")
            elif r < 0.93: h.append(rng.choice(["failmk pair", "failmk listen", "failmk connect", "failmk bind", "failmk listencall",
                                                 "failmk connectcall", "failmk pairopt", "opt keepalive 1", "opt keepalive 0",
                                                 "opt sndbuf 16384", "opt rcvbuf 16384", "opt reuse 0", "opt reuse 1"] +
                                                ([f"ofail {rng.choice(ests)}"] * 4 if ests else [])))
            else: h.append("act intr")
        entries = []
        for _ in range(rng.randint(0, 10)):
            r = rng.random()
            ids = rng.sample(socks, min(len(socks), rng.randint(0, 5)))
            # `id!`: a listener reported ready although its accept queue is empty (the accept that follows fails)
            e = ",".join(str(x) + ("!" if x in listeners and rng.random() < 0.25 else "") for x in ids) if ids else "-"
            if rng.random() < 0.3: e += f"+{rng.randint(0, 3)}"
            if r < 0.08: e = "I" + ("" if e.startswith("-") else e)
            entries.append(e)
        h.append(f"run {rng.choice(['all', 'all', 'all', 'half', 'half', 'wb', 'wb', '1', '1', 'err', 'err', '0'])} " + " ".join(entries))
    return h


def c14_equal_due_exhaustive():
    """1..8 timers created in the same virtual millisecond with the same interval; remove timer r (every
    position) before run, or from the callback of timer q (every position); 3 rounds"""
    hs = []
    for n in range(1, 9):
        for r in range(1, n + 1):
            base = [f"act mk:{i}:2" for i in range(1, n + 1)]
            hs.append(base + [f"act rmt:{r}", "run all - - -"])
            hs.append(base + ["run all -", f"act rmt:{r}", "run all - -"])
            for q in range(1, n + 1):
                hs.append(base + [f"script {q} 0 rmt:{r}", "run all - - -"])
                hs.append(base + [f"script {q} 1 rmt:{r},mk:{50 + r}:2", "run all - - - -"])
    return hs


def c14_pending_exhaustive():
    """two socket-pair clients (readable), a listener with a waiting connection and a connected establisher are all
    reported by ONE epoll_wait in every order; the callback of the object dispatched first removes one of the others
    (or itself), whose event is then still buffered in the poll: it must be dropped"""
    import itertools as it
    hs = []
    ids = {"c1": 1, "c2": 2, "l": 10, "e": 15}
    rm = {"c1": "rmc:1", "c2": "rmc:2", "l": "rml:10", "e": "rme:15"}
    for order in it.permutations(["c1", "c2", "l", "e"]):
        for victim in ["c1", "c2", "l", "e"]:
            for extra in ["", "sus", "null"]:
                first = order[0]
                acts = [rm[victim]]
                if extra == "sus":
                    acts.append("sus:" + str(ids["c2"] if victim != "c2" else ids["c1"]))
                if extra == "null" and first in ("l", "e"):
                    acts.append("null")
                h = ["mkpair 1", "mkpair 2", "mklisten 10", "mkconn 15", "psend 1 3", "psend 2 3", "dial 10",
                     f"script {ids[first]} 0 {','.join(acts)}",
                     "run all " + ",".join(str(ids[x]) for x in order) + " - " + ",".join(str(ids[x]) for x in order)]
                hs.append(h)
    return hs


def c14_threaded_interrupt_histories(rng, count):
    """interrupt() from a REAL second thread while run() really blocks in epoll_wait with sockets registered: idle socket-pair
    clients (some suspended, some with a backlog that the kernel would accept — write interest!) are excluded; only sockets
    that are registered but NOT ready: idle clients, listeners without waiting connection, and timers (virtual time stands
    still, so none becomes due).  run() must return, without any callback, every time."""
    hs = []
    for _ in range(count):
        h = []
        nid = 1
        for _ in range(rng.randint(1, 6)):
            h.append(f"mkpair {nid}")
            if rng.random() < 0.3:
                h.append(f"act sus:{nid}")
            nid += 1
        for _ in range(rng.randint(0, 2)):
            h.append(f"mklisten {nid}")
            nid += 1
        for _ in range(rng.randint(0, 3)):
            h.append(f"act mk:{nid}:{rng.randint(1, 3)}")
            nid += 1
        for _ in range(rng.randint(1, 3)):
            r = rng.random()
            if r < 0.25:
                h.append("act intr")            # already pending when the thread starts
            h.append(f"runmt {rng.choice([0, 0, 100, 1000, 3000])}")
            if rng.random() < 0.4:
                h.append(f"act rmc:{rng.randint(1, 3)}")
            if rng.random() < 0.3:
                h.append("run all - -")
        hs.append(h)
    return hs


def c14_closing_wave_histories(rng):
    """containers inside Server under load: 9 or 12 simultaneously live socket-pair clients (more than the 8 buckets of
    _closingClients, more than one PoolList block) whose peers closed; ALL fail a read (or an error write) within one loop
    iteration, in several orders; some are removed at once with remove(client), some remove themselves inside onClosed,
    some stay; then clients are re-created in the freed slots and a second wave fails (issued at top level, or from a timer
    callback).  Expected (model + monitor): exactly one onClosed per failed-and-not-removed client, none for removed ones,
    and run() keeps going until interrupted."""
    hs = []
    for n in (9, 12):
        ids = list(range(1, n + 1))
        orders = [list(ids), list(reversed(ids)), ids[1::2] + ids[0::2]]
        for _ in range(2):
            p = list(ids)
            rng.shuffle(p)
            orders.append(p)
        for order in orders:
            patterns = [set(order[n // 2:]), set(order[1::2]), set(order[0::2]), set(order[-1:]), set(order[1:2]),
                        set(order[: n // 2]), set()]
            patterns += [{order[k]} for k in range(2, n, 3)]
            for pi, now_rm in enumerate(patterns):
                rest = [i for i in order if i not in now_rm]
                self_rm = set(rest[0::2]) if pi % 2 == 0 else set(rest)
                fail = lambda i, k: f"rd:{i}" if (k + pi) % 3 else f"wr:{i}:5:err"
                h = [f"mkpair {i}" for i in ids] + [f"pclose {i}" for i in ids]
                h += ["act mk:50:1",
                      "script 50 0 " + ",".join([fail(i, k) for k, i in enumerate(order)] + [f"rmc:{i}" for i in order if i in now_rm])]
                h += [f"script {i} 0 rmc:{i}" for i in order if i in self_rm]
                h += ["run all - - -"]
                # second wave: new clients take the freed pool slots / descriptors; the clients that stayed fail again
                freed = len(now_rm) + len(self_rm)
                new = list(range(101, 101 + freed))
                h += [f"mkpair {i}" for i in new] + [f"pclose {i}" for i in new]
                stay = [i for i in rest if i not in self_rm]
                wave2 = new + stay
                if pi % 2:
                    wave2.reverse()
                if pi % 3 == 0:
                    h += ["script 50 3 " + ",".join([f"rd:{i}" for i in wave2] + [f"rmc:{i}" for i in wave2[1::2]])]
                else:
                    h += [f"act rd:{i}" for i in wave2] + [f"act rmc:{i}" for i in wave2[1::2]]
                h += [f"script {i} {1 if i in stay else 0} rmc:{i}" for i in wave2[0::4]]
                h += ["run all - - -", "run all -"]
                hs.append(h)
    return hs



# ---- branch-hit counters of the model's run() (driver op `branches`; the same histories agreed line by line with the
# real Server in the differential run, so a branch the model takes is a branch the implementation's log is consistent with)
C14_BRANCHES = [
    "t.user", "t.default", "t.done", "c.empty", "c.onClosed", "c.delete",
    "p.pending", "p.query.events", "p.query.timeout", "p.query.eventfd", "p.query.eventfd+events",
    "d.none.return", "d.none.continue", "d.zeroflags.return", "d.zeroflags.continue", "d.read",
    "d.write.wouldblock", "d.write.error.onClosed", "d.write.sent0.onClosed", "d.write.partial", "d.write.drained.onWrite",
    "d.write.empty.onWrite", "d.accept.failed", "d.accept.kept", "d.accept.null", "d.accept.removed",
    "d.connect.error.onAbolished", "d.connect.kept", "d.connect.null", "d.connect.removed",
    "x.write_event_for_suspended_client", "x.timer_created_in_onClosed", "x.timer_created_in_onActivated",
    "x.remove_self_in_onRead", "x.remove_self_in_onWrite", "x.remove_self_in_onClosed",
    "x.interrupt_with_events_of_the_same_epoll_wait", "x.interrupt_pending_while_batch_drains",
    "x.two_timers_due_same_tick", "x.timer_removes_itself", "x.timer_removes_another_due_timer",
]
# branches of the model that no history can reach (kept in the model because the C++ has them)
C14_UNREACHABLE = {
    "c.delete": "Server.cpp 277: PROVED DEAD (closing_loop_never_deletes, no_client_is_removed_between_steps): a client without callback / with _removed is deleted by the hand-over code before the closing loop sees it (repaired code)",
    "d.write.empty.onWrite": "Server.cpp 387-392 entered with an empty send buffer: excluded by theorem onWrite_needs_backlog / client_interest (write interest iff backlog)",
    "t.fault": "", "c.fault": "", "d.write.fault": "", "d.accept.fault": "", "d.connect.fault": "",
}


def c14_branch_hits(histories):
    """run the model driver alone over the histories and sum its branch counters"""
    import concurrent.futures
    drv = C.driver_path(DRIVER)
    n = max(1, (len(histories) + C.NCPU - 1) // C.NCPU)
    parts = [histories[i:i + n] for i in range(0, len(histories), n)]

    def one(part):
        lines = []
        for h in part:
            lines.append("reset")
            lines += h
        lines.append("branches")
        out, rc, _ = C.run_lines(drv, lines, timeout=300)
        return out[-1] if out else ""
    tot = {}
    with concurrent.futures.ThreadPoolExecutor(max_workers=C.NCPU) as ex:
        for line in ex.map(one, parts):
            for kv in line.split():
                if "=" in kv:
                    k, v = kv.rsplit("=", 1)
                    tot[k] = tot.get(k, 0) + int(v)
    return tot



def c14_clear_history(rng):
    """a random first life (mixed or timers only), optionally an un-consumed interrupt(), Server::clear(), then a second life
    with new ids in the freed pool slots; the monitor requires that no object of the first life is ever called back again"""
    pure = rng.random() < 0.4
    h = c14_timer_history(rng, equal_due=rng.random() < 0.5) if pure else c14_mixed_history(rng, with_net=rng.random() < 0.6)
    if rng.random() < 0.5:
        h.append("act intr")
    h.append("clear")
    if rng.random() < 0.2:
        h.append("clear")
    if pure:
        n = rng.randint(1, 4)
        for i in range(n):
            h.append(f"act mk:{90 + i}:{rng.randint(1, 3)}")
        if rng.random() < 0.5:
            h.append(f"script 90 0 rmt:{90 + rng.randint(0, n - 1)},mk:99:1")
        h.append("run all " + " ".join("-" for _ in range(rng.randint(1, 6))))
        if rng.random() < 0.3:
            h += ["act intr", "clear", "act mk:98:2", "run all - - -"]
        return h
    h += ["mkpair 80", "mkpair 81", "mklisten 82", "dial 82", f"act mk:83:{rng.randint(1, 3)}", "psend 80 3", "psend 81 3"]
    acts = ["rmc:81", "sus:81", "wr:81:40:half", "rd:80", "mk:84:1", "intr", "rml:82", "rmc:80"]
    for i in (80, 81, 82, 83):
        if rng.random() < 0.6:
            h.append(f"script {i} 0 {','.join(rng.sample(acts, rng.randint(1, 2)))}")
    order = rng.sample([80, 81, 82], 3)
    h.append(f"run {rng.choice(['all', 'half', 'wb'])} " + ",".join(map(str, order)) + " - " + ",".join(map(str, order)) + " - -")
    return h


def c14_branch_tour():
    """one short deterministic history per rare branch / situation of run() (so that the branch-hit table does not depend on the seed)"""
    two = ["mkpair 1", "mkpair 2", "psend 1 3", "psend 2 3"]
    return [
        ["mkpair 1", "act wr:1:40:2", "act sus:1", "run all 1 -"],                               # write event for a suspended client
        ["mkpair 1", "act wr:1:40:2", "act sus:1", "run 1 1 1 -", "act res:1", "run all 1 -"],    # partial sends while suspended
        ["mkpair 1", "script 1 0 rd:1", "script 1 1 mk:33:2", "pclose 1", "run all 1 - -"],       # timer created inside onClosed
        ["mkpair 1", "psend 1 3", "script 1 0 rmc:1", "run all 1 -"],                             # remove(client) inside its own onRead
        ["mkpair 1", "act wr:1:40:2", "script 1 0 rmc:1", "run all 1 -"],                         # … inside its own onWrite
        ["mkpair 1", "script 1 0 rd:1", "script 1 1 rmc:1", "pclose 1", "run all 1 -"],           # … inside onClosed (closing loop)
        ["mkpair 1", "act wr:1:40:2", "script 1 0 rmc:1", "run err 1 -"],                         # … inside onClosed (failed write-ready send)
        ["mkpair 1", "act wr:1:40:2", "run 0 1 -"],                                               # send() == 0 in the write-ready branch
        ["mkpair 1", "act wr:1:40:2", "run wb 1 1 -", "run all 1 -"],                             # would-block in the write-ready branch
        two + ["run all I1,2", "run all - -"],                                                    # interrupt + events in one epoll_wait; batch survives the return
        two + ["script 2 0 intr", "run all 2,1 -"],                                               # interrupt() from a callback while the batch drains
        two + ["script 1 0 rmc:2", "run all 1,2 -"],                                              # pending event of a removed client
        ["act mk:1:2", "act mk:2:2", "run all - - -"],                                            # two timers due in the same tick
        ["act mk:1:2", "act mk:2:2", "script 1 0 rmt:1", "run all - - -"],                        # timer removing itself
        ["act mk:1:2", "act mk:2:2", "script 1 0 rmt:2", "run all - - -"],                        # timer removing another due timer
        ["act mk:1:2", "act mk:2:2", "script 2 0 rmt:1,mk:3:1", "run all - - - -"],
        ["mkpair 1", "act sus:1", "pclose 1", "run all 1 -"],                                     # hang-up of a client registered for nothing: zero flags
        ["mkpair 1", "act sus:1", "pclose 1", "run all I1"],
        ["mklisten 1", "dial 1", "script 1 0 null", "run all 1 -"],
        ["mklisten 1", "dial 1", "script 1 0 rmnew", "run all 1 -"],
        ["mklisten 1", "dial 1", "dial 1", "script 1 0 rml:1", "run all 1 1 -"],                  # listener removing itself with a connection still queued
        ["mkconn 1", "script 1 0 null", "run all 1 -"],
        ["mkconn 1", "script 1 0 rmnew", "run all 1 -"],
        ["mkconn 1", "script 1 0 rme:1", "run all 1 -"],                                          # establisher removing itself inside onConnected
        ["mkconn 2", "cfail 2", "script 2 0 rme:2", "run all 2 -"],                               # … inside onAbolished
        ["mkconn 2", "cfail 2", "run all 2 - 2 -"],                                               # an establisher gets exactly one outcome
        ["mklisten 1", "run all 1! -", "dial 1", "run all 1! 1! -"],                              # accept() failing after a (spurious) readiness report
        ["mkpair 1", "act mk:2:5", "act intr", "clear", "run all - -", "mkpair 3", "psend 3 2", "run all 3 -"],   # clear() with an un-consumed interrupt
        ["mkpair 1", "psend 1 3", "mklisten 2", "dial 2", "mkconn 3", "act wr:1:40:2", "run all I1,2,3", "clear", "run all - -"],  # clear() with a pending batch
        ["failmk pair", "failmk listen", "failmk connect", "mkpair 1", "psend 1 1", "run all 1 -"],
        ["failmk bind", "failmk listencall", "failmk connectcall", "failmk pairopt", "mkpair 1", "mklisten 2", "dial 2", "psend 1 1", "run all 1,2 -"],
        ["mkconn 1", "ofail 1", "run all 1 - 1 -"],                                              # a socket option fails at the connect event: onAbolished
        ["mkconn 1", "mkconn 2", "ofail 1", "script 1 0 rme:1", "run all 1,2 -", "opt keepalive 0", "mkconn 3", "run all 3 -"],
        ["mkconn 1", "ofail 1", "cfail 1", "run all 1 -", "act rme:1", "mkconn 2", "mkpair 3", "run all 2 -"],   # SO_ERROR first: the option is never applied
        ["opt keepalive 1", "opt sndbuf 8192", "opt rcvbuf 8192", "opt reuse 0", "mkpair 1", "mklisten 2", "dial 2", "mkconn 3", "psend 1 2", "run all 1,2,3 -"],
    ]


class C14Stats:
    def __init__(self):
        self.lock = threading.Lock()
        self.ev = {}
        self.fail = []
        self.envfail = 0

    def nontrivial(self, h, out):
        ev = {}
        for o in out:
            if o.startswith("ENV-FAIL"):
                with self.lock:
                    self.envfail += 1
            if " | " not in o:
                continue
            for e in o.split(" | ")[0].split():
                m = EV_RX.match(e)
                if m:
                    k = ("timer" if m.group(1) is not None else "client." + m.group(3) if m.group(2) is not None else
                         "accepted" if m.group(4) is not None else "connected" if m.group(6) is not None else
                         "abolished" if m.group(8) is not None else "ret")
                    ev[k] = ev.get(k, 0) + 1
        bad = c14_monitor(h, out) if len(out) == len(h) else None
        with self.lock:
            for k, v in ev.items():
                self.ev[k] = self.ev.get(k, 0) + v
            if bad:
                self.fail.append((h, bad))
        with self.lock:
            self.mt = getattr(self, "mt", 0) + sum(1 for l in h if l.startswith("runmt"))
        runs = [o.split(" | ")[0] for l, o in zip(h, out) if l.startswith("run")]
        if not runs or all(r.count("@") <= 1 for r in runs):
            return None
        return (tuple(runs), out[-1])


def check_c14(ctx):
    ctx.assumptions += [
        "kernel contract of epoll: only registered descriptors are reported, each at most once per call, with events of the registered mask (+ hang-up); the event descriptor is reported while its counter is non-zero",
        "virtual time: Time::ticks() is read through the interposed clock_gettime; epoll_wait never sleeps but advances the virtual clock (by the time-out when nothing is reported)",
        "MultiMap<int64, TimerImpl*> is a key-sorted multimap, FIFO among equal keys, whose find() returns the FIRST element with the key (property C01 with the repair of D1); without that repair the check reports D19",
        "PoolList / HashSet / HashMap behave as their reference containers (C02, C03); allocation never fails",
        "host-name resolving establishers (Server::connect(String…)) and failing socket options are not modelled",
        "liveness (ready_eventually_dispatched): KernelFair — if run() asks the kernel again and again, then again and again an answer reports the socket ready (level-triggered epoll; at once unless more than 64 descriptors are ready); ClosingCalm — onClosed callbacks do not make a client fail again; ClockOk — CLOCK_MONOTONIC does not run backwards while the timer loop runs",
    ]
    proof_ok = C.proof_stage(ctx, PROPS["C14"], [DRIVER], gen=gen, leanchecker=(ctx.tier == "thorough"))
    harness = build(ctx)
    if harness is None or not C.driver_path(DRIVER).exists():
        return
    try:
        rng = ctx.rng
        quick = ctx.tier == "quick"
        hs = C.load_corpus("C14")
        ncorpus = len(hs)
        ex = c14_equal_due_exhaustive()
        ex2 = c14_pending_exhaustive()
        ex3 = c14_closing_wave_histories(random.Random(12345))
        tour = c14_branch_tour()
        clr = [c14_clear_history(rng) for _ in range(1200 if quick else 12000)]
        mt = c14_threaded_interrupt_histories(rng, 150 if quick else 1500)
        nt, nm = (6000, 9000) if quick else (60000, 90000)
        if not proof_ok:
            nt, nm = nt * 3, nm * 3
        tim = [c14_timer_history(rng, equal_due=(k % 2 == 0)) for k in range(nt)]
        mix = [c14_mixed_history(rng, with_net=(k % 3 != 0)) for k in range(nm)]
        hs = hs + tour + ex + ex2 + ex3 + mt + clr + tim + mix
        ctx.cov["rule"] = (f"corpus ({ncorpus}) + branch tour ({len(tour)} deterministic histories, one per rare branch / situation of run()) + exhaustive equal-due scope: 1..8 timers created in one virtual millisecond with equal interval, "
                           f"remove(timer r) for every r before run / between runs / from the callback of every timer q ({len(ex)} histories) + "
                           f"closing-wave family: 9/12 live clients all failing a read/write in one loop iteration in 5 orders x 10-11 immediate-remove patterns, remove inside onClosed, re-creation in freed slots and a second wave ({len(ex3)} histories; monitor: exactly one onClosed per failed-and-not-removed client, none for removed ones) + "
                           f"{len(clr)} clear() programs (random first life, optionally an un-consumed interrupt(), Server::clear(), second life with new ids; monitor: no callback to an object of the first life) + {len(mt)} programs with interrupt() from a real second thread while run() blocks in the real epoll_wait with idle clients, listeners and timers registered + "
                           f"exhaustive pending-event scope: 2 clients + listener + establisher reported by one epoll_wait in all 24 orders, the first callback removes any of the four ({len(ex2)} histories) + "
                           f"{len(tim)} random timer programs (1..8 timers, intervals 1..3, create/remove/interrupt inside callbacks, interrupt before/during run) + "
                           f"{len(mix)} random mixed programs (1..4 socket-pair clients, 0..2 loop-back listeners with dialling peers, 0..2 establishers, 0..3 timers; "
                           "callback scripts with read/write/suspend/resume/remove of any object/remove of the client being accepted/null return/interrupt; "
                           "poll rounds reporting any ordered subset of the sockets; peer send/close); distinct_nontrivial = distinct callback logs with >= 2 events")
        ctx.cov["exhaustive"] = False
        ctx.cov["exhaustive_scope"] = (f"equal due times: n<=8 timers x remove position x remover position x 4 placements: {len(ex)} histories; "
                                       f"pending events: 24 report orders x 4 victims x 3 variants: {len(ex2)} histories")
        ops = {}
        for h in hs:
            for l in h:
                ops[l.split()[0]] = ops.get(l.split()[0], 0) + 1
        ctx.cov["op_histogram"] = ops
        ctx.cov["samples"] = [" ; ".join(h) for h in (tim[-2:] + mix[-2:] + ex[len(ex) // 2: len(ex) // 2 + 1])]
        st = C14Stats()
        diffs = C.differential(ctx, harness, C.driver_path(DRIVER), hs, c14_reference, nontrivial=st.nontrivial, timeout=600)
        ctx.cov["callbacks_seen"] = st.ev
        bh = c14_branch_hits(hs)
        ctx.cov["branch_hits"] = {k: bh.get(k, 0) for k in C14_BRANCHES + sorted(set(bh) - set(C14_BRANCHES))}
        never = [k for k in C14_BRANCHES if bh.get(k, 0) == 0]
        ctx.cov["branches_never_hit"] = {k: C14_UNREACHABLE.get(k, "NOT REACHED BY THE GENERATORS") for k in never}
        ctx.log(f"branch hits of run(): {len(C14_BRANCHES) - len(never)}/{len(C14_BRANCHES)}; never hit: {never}")
        ctx.cov["env_fail_lines"] = st.envfail
        ctx.cov["runs_interrupted_by_a_real_second_thread"] = getattr(st, "mt", 0)
        ctx.cov["open_statements"] = [
            "ready_eventually_dispatched is proved under the explicit hypotheses KernelFair (environment), ClosingCalm (an onClosed callback does not make a client fail again — a script that reads a closed client again inside onClosed re-queues it forever, in the C++ as well) and ClockOk; KernelFair of a concrete infinite run is exhibited only on a finite prefix (exLive)",
            "interrupt_eventually_returns_any_scripts and kernel_is_asked_again_any_scripts hold for arbitrary scripts under ClosingCalm; the class of scripts between 'no read/write' (which implies ClosingCalm) and ClosingCalm itself is characterised only semantically",
            "interrupt() racing with run(): proved for the two-move model (flag, then event descriptor) under sequential consistency; exercised with a real second thread (op runmt) in timers-only programs and with idle clients/listeners registered",
            "not modelled: resolver-based establishers (connect by host name), a socket option failing after a successful accept (Server.cpp 370-375); a failing connect is injected through the interposed getsockopt(SO_ERROR); the 64-event cap of one epoll_wait",
            "hand-translated, tied only by the correspondence run: Poll::poll, remove(Timer&) (translated from the current source: the client-level bodies, Socket::send/recv, mapEvents/unmapEvents, Poll::set/remove, one iteration of the timer loop and of the closing loop: PropsTr, PropsTrLoop)",
        ]
        ctx.log(f"{len(hs)} histories, {ctx.cov['evaluations']} op lines, {len(diffs)} disagreement(s), monitor failures {len(st.fail)}; callbacks {st.ev}; env-fail {st.envfail}")
        # a history in which the kernel did not behave as assumed is not evidence of anything
        diffs = [d for d in diffs if not (d.impl or "").startswith("ENV-FAIL")]
        C.report_diffs(ctx, diffs, harness, C.driver_path(DRIVER), c14_reference, C.default_eq, "server-loop")
        seen = set()
        for h, bad in st.fail:
            sig = bad.split(":")[0]
            if sig in seen or len(seen) >= 3:
                continue
            seen.add(sig)
            small = c14_shrink(harness, h, sig)
            ctx.violation("event-loop property violated on the implementation: " + bad, "\n".join(small) + f"\n# {bad}\n",
                          signature=sig)
    finally:
        try:
            harness.unlink()
        except OSError:
            pass


def c14_shrink(harness, h, sig):
    def fails(c):
        out, rc, _ = C.run_lines(harness, ["reset"] + c, timeout=60)
        out = out[1:]
        if len(out) != len(c):
            return False
        b = c14_monitor(c, out)
        return bool(b) and b.split(":")[0] == sig
    try:
        return C.ddmin(h, fails)
    except Exception:
        return h


# ---- C13, several clients and the pending batch (op lines of the C14 dialect) -----------------------
def c13_batch_exhaustive():
    """n = 2..4 readable socket-pair clients fetched by ONE epoll_wait in every order; a victim whose read event is
    still pending in that batch is suspended (a) by the callback of the client dispatched first, (b) suspended and
    resumed by it, (c) resumed one batch entry later, (d) by a timer that fires between two events of the batch,
    (e) by a listener's onAccepted dispatched first, (f) while the first client drains a backlog; afterwards it is
    resumed at top level and must be notified again"""
    hs = []
    for n in (2, 3, 4):
        ids = list(range(1, n + 1))
        base = [f"mkpair {i}" for i in ids] + [f"psend {i} 3" for i in ids]
        for order in itertools.permutations(ids):
            o = ",".join(map(str, order))
            for v in order[1:]:
                tail = [f"act res:{v}", f"run all {o} -"]
                hs.append(base + [f"script {order[0]} 0 sus:{v}", f"run all {o} - {o} -"] + tail)
                hs.append(base + [f"script {order[0]} 0 sus:{v},res:{v}", f"run all {o} - {o} -"] + tail)
                hs.append(base + [f"script {order[0]} 0 sus:{v}", f"script {order[0]} 1 res:{v}", f"run all {o} {o} {o} -"] + tail)
                hs.append(base + ["act mk:20:1", f"script 20 0 sus:{v}", f"script 20 2 res:{v}",
                                  f"run all {o}+1 {o}+1 {o}+1 -"] + tail)
                hs.append(base + ["mklisten 30", "dial 30", f"script 30 0 sus:{v}", f"run all 30,{o} - {o} -"] + tail)
                hs.append(base + [f"act wr:{order[0]}:40:2", f"script {order[0]} 0 sus:{v}", f"run half {o} {o} {o} {o} -"] + tail)
    return hs


def c13_batch_random(rng):
    h = []
    n = rng.randint(2, 5)
    ids = list(range(1, n + 1))
    timers = list(range(20, 20 + rng.randint(0, 2)))
    for i in ids:
        h.append(f"mkpair {i}")
    for t in timers:
        h.append(f"act mk:{t}:{rng.randint(1, 2)}")
    owners = ids + timers
    for o in owners:
        for k in range(5):
            if rng.random() < 0.45:
                acts = []
                for _ in range(rng.randint(1, 3)):
                    r = rng.random()
                    x = rng.choice(ids)
                    if r < 0.40: acts.append(f"sus:{x}")
                    elif r < 0.70: acts.append(f"res:{x}")
                    elif r < 0.82: acts.append(f"rd:{x}")
                    elif r < 0.92: acts.append(f"wr:{x}:{rng.choice([5, 40])}:{rng.choice(['wb', '2', 'half', 'all'])}")
                    else: acts.append(f"rmc:{x}")
                h.append(f"script {o} {k} {','.join(acts)}")
    for _ in range(rng.randint(2, 5)):
        for i in ids:
            if rng.random() < 0.6:
                h.append(f"psend {i} {rng.choice([1, 3])}")
        if rng.random() < 0.3:
            h.append(f"act {rng.choice(['sus', 'res'])}:{rng.choice(ids)}")
        entries = []
        for _ in range(rng.randint(1, 8)):
            e = ",".join(map(str, rng.sample(ids, rng.randint(1, n))))
            if rng.random() < 0.5: e += f"+{rng.randint(0, 2)}"
            entries.append(e if rng.random() < 0.9 else "-")
        h.append(f"run {rng.choice(['all', 'half', 'wb', '1'])} " + " ".join(entries))
    return h


def c13_batch_reference(hist, impl_out):
    return list(impl_out)       # judged by the monitor (suspended_no_read on the callback log) and against the model


c13_batch_reference.uses_impl = True


class BatchStats:
    def __init__(self):
        self.lock = threading.Lock()
        self.fail = []
        self.stats = {}
        self.reads = 0

    def nontrivial(self, h, out):
        st = {}
        bad = c14_monitor(h, out, st) if len(out) == len(h) else None
        reads = sum(o.split(" | ")[0].count(".R@") for o in out if " | " in o)
        with self.lock:
            for k, v in st.items():
                self.stats[k] = self.stats.get(k, 0) + v
            self.reads += reads
            if bad:
                self.fail.append((h, bad))
        runs = tuple(o.split(" | ")[0] for l, o in zip(h, out) if l.startswith("run"))
        return runs if any(r.count("@") > 1 for r in runs) else None


def check_c13_batch(ctx, harness, quick, proof_ok):
    """second stream of C13: several clients of one Server, events pending in one poll batch, suspend/resume
    issued from other objects' callbacks"""
    rng = ctx.rng
    ex = c13_batch_exhaustive()
    nr = (4000 if quick else 60000) * (1 if proof_ok else 3)
    rnd = [c13_batch_random(rng) for _ in range(nr)]
    hs = C.load_corpus("C13-batch") + ex + rnd
    bs = BatchStats()
    diffs = C.differential(ctx, harness, C.driver_path(DRIVER), hs, c13_batch_reference, nontrivial=bs.nontrivial, timeout=600)
    diffs = [d for d in diffs if not (d.impl or "").startswith("ENV-FAIL")]
    ctx.cov["batch_stream"] = {"exhaustive_histories": len(ex), "random_histories": len(rnd), "onRead_seen": bs.reads, **bs.stats}
    ctx.cov["rule"] += (f" || stream 2 (several clients, pending batch; op lines of the C14 dialect): exhaustive — 2..4 readable clients fetched by "
                        f"one epoll_wait in every order x every victim still pending in the batch x 6 ways of suspending it (first client's "
                        f"callback, suspend+resume, resume one batch entry later, timer firing between two batch entries, listener's "
                        f"onAccepted, with a draining backlog) ({len(ex)} histories) + {len(rnd)} random programs of 2..5 clients and 0..2 timers "
                        "whose callbacks suspend/resume/read/write/remove any client; the monitor requires: no onRead for a client between "
                        "suspend() and resume() on the implementation's callback log")
    ctx.log(f"batch stream: {len(hs)} histories, {len(diffs)} disagreement(s), monitor failures {len(bs.fail)}; {ctx.cov['batch_stream']}")
    seen = set()
    for h, bad in bs.fail:
        sig = bad.split(":")[0]
        if sig in seen or len(seen) >= 3:
            continue
        seen.add(sig)
        small = c14_shrink(harness, h, sig)
        ctx.violation("client property violated on the implementation: " + bad, "\n".join(small) + f"\n# {bad}\n", signature=sig)
    if not bs.fail:
        C.report_diffs(ctx, diffs, harness, C.driver_path(DRIVER), c13_batch_reference, C.default_eq, "server-suspend-batch")
    elif diffs:
        ctx.broken.append("correspondence server-suspend-batch: implementation and model differ")


def check(ctx):
    if ctx.prop == "C13":
        check_c13(ctx)
    else:
        check_c14(ctx)


def replay(ctx, path):
    h = C.parse_replay(path)
    harness = build(ctx)
    C.lake_build([DRIVER])
    loop_dialect = bool(h) and h[0].split()[0] in ("script", "act", "mkpair", "mklisten", "mkconn", "psend", "pclose", "dial",
                                                   "adv", "run", "runmt", "cfail", "ofail", "failmk", "opt", "clear")
    ref = c14_reference if (ctx.prop == "C14" or loop_dialect) else c13_reference
    diffs = C.differential(ctx, harness, C.driver_path(DRIVER), [h], ref)
    for d in diffs:
        print(d.text())
        ctx.violation(f"replay: {d.kind}", d.text())
    if ctx.prop == "C13" and not diffs and not loop_dialect:
        out, _, _ = C.run_lines(harness, ["reset"] + h)
        bad = c13_stream_check(h, out[1:])
        if bad:
            ctx.violation("replay: stream property: " + bad, "\n".join(h) + "\n", signature="stream")
    if ctx.prop == "C14" or loop_dialect:
        out, _, _ = C.run_lines(harness, ["reset"] + h)
        bad = c14_monitor(h, out[1:])
        if bad:
            print(bad)
            ctx.violation("replay: event-loop property: " + bad, "\n".join(h) + "\n", signature=bad.split(":")[0])
    harness.unlink()
