"""C13  Server clients deliver written bytes completely and in order.
C14  The event loop honours timers, removals, readiness and interrupts."""
import itertools
import threading
import common as C

PROPERTIES = ["C13", "C14"]
MANIFEST = {
    "C13": {
        "technique": "Lean 4 proof (invariants of a model of the Server client write path over all histories of writes, send outcomes, suspend/resume and peer reads) + differential correspondence model vs real Server on a socket pair with interposed send()",
        "text": "Theorems over all operation histories of the Lean model of ClientImpl::write/read/suspend/resume and the write-ready branch of Server::run (stream_exact, postponed_is_backlog, onWrite_iff_drained, interest_inv, suspended_no_read); the model is tied to the current Server.cpp/Socket.cpp on every run by executing identical op lines on a real Server whose send() is interposed with scripted outcomes (exhaustive fault sequences + random histories, ASan/UBSan), and by an independent Python byte-stream reference evaluated on the implementation's observations (received stream, return/postponed values, send-buffer size, callback log, intercepted sends, epoll interest).",
        "note": "Trusted: Lean kernel + the three standard axioms; hand translation of Server.cpp into the model (validated by the correspondence run, not proved); the kernel delivers bytes accepted by send() in order (checked by the harness on a socket pair) and reports a socket pair with free buffer space writable; Buffer behaves as a byte queue (C08); one poll round per `ready` op with one client (the multi-client Poll is part of C14); peer hang-up and read(…,0) are outside the C13 model.",
        "design_ref": "DESIGN.md 3/C13",
    },
    "C14": {
        "technique": "Lean 4 proof (invariants of a transition-system model of Server::run) + differential correspondence model vs real Server under virtual time and interposed epoll_wait",
        "text": "see note",
        "note": "under construction",
        "design_ref": "DESIGN.md 3/C14",
    },
}
PROPS = {"C13": ["Nstd.Server.PropsC13"], "C14": ["Nstd.Server.PropsC14"]}
LEAN_TARGETS = ["Nstd.Server.Props", "drv_server"]
DRIVER = "drv_server"


def harness_sources():
    r = C.REPO / "src"
    return ["server.cpp"] + [r / f for f in (
        "Socket/Server.cpp", "Socket/Socket.cpp", "Time.cpp", "Mutex.cpp", "Error.cpp", "Memory.cpp", "Future.cpp",
        "Thread.cpp", "Signal.cpp", "Semaphore.cpp", "String.cpp", "System.cpp", "Debug.cpp", "Process.cpp")]


def build(ctx):
    return C.build_harness(ctx, "server", harness_sources(), libs=["-lpthread", "-lrt"])


# =====================================================================================================
# C13
# =====================================================================================================
def hexs(bs):
    return "-" if not bs else "".join(f"{b:02x}" for b in bs)


def unhex(t):
    return [] if t == "-" else [int(t[i:i + 2], 16) for i in range(0, len(t), 2)]


def send_outcome(n, o):
    """the environment's answer to send(n): 'wb' | 'err' | count"""
    if o in ("wb", "err"):
        return o
    if o == "all":
        return n
    if o == "half":
        return n if n <= 1 else n // 2
    return min(int(o), n)


def c13_reference(hist, impl_out):
    """Spec-level oracle of C13, independent of the Lean model: the client is a byte queue
    `pending` (accepted, not yet handed to the OS); the peer must receive exactly the accepted
    stream; postponed/send-buffer size = len(pending); onWrite iff pending drains; interest
    = (r unless suspended) + (w iff pending); no onRead while suspended.  The received stream is
    additionally checked against the implementation's own `got` lines (see c13_ref_eq)."""
    pending, inflight, inbox = [], [], []
    su, closing, dead, registered = False, False, False, True
    out = []
    for line in hist:
        t = line.split()
        op = t[0]
        res, cb, tx = "ok", "", []
        if (op == "peersend" and t[1] == "-") or (op == "read" and t[1] == "0"):
            out.append("bad-op")
            continue
        if op == "peerread":
            res = "got " + hexs(inflight)
            inflight = []
        elif op == "ready":
            if dead:
                pass
            elif closing:
                cb, dead, closing, registered = "C", True, False, False
            else:
                sel = "" if t[1] == "none" else t[1]
                if "r" in sel and not su and inbox and registered:
                    cb = "R"
                elif "w" in sel and pending and registered:
                    n = len(pending)
                    r = send_outcome(n, t[2])
                    tx.append(f"{n}>{r}")
                    if r == "wb":
                        pass
                    elif r == "err" or r == 0:
                        pending, cb, dead, registered = [], "C", True, False
                    else:
                        inflight += pending[:r]
                        pending = pending[r:]
                        if not pending:
                            cb = "W"
        elif dead:
            out.append("dead")
            continue
        elif op == "write":
            d = unhex(t[1])
            if not pending:
                r = send_outcome(len(d), t[2])
                tx.append(f"{len(d)}>{r}")
                if r == "err" or r == 0:
                    closing = True
                    res = "w0 0"
                else:
                    k = 0 if r == "wb" else r
                    inflight += d[:k]
                    pending = d[k:]
                    res = f"w1 {len(pending)}"
            else:
                pending = pending + d
                res = f"w1 {len(pending)}"
        elif op == "read":
            m = int(t[1])
            if inbox:
                res = "rd1 " + hexs(inbox[:m])
                inbox = inbox[m:]
            else:
                res = "rd0 -"
        elif op == "peersend":
            inbox = inbox + unhex(t[1])
        elif op == "suspend":
            su = True
        elif op == "resume":
            su = False
        if dead:
            intr, sb, s = "none", 0, 0
        else:
            intr = (("" if su else "r") + ("w" if pending else "")) or "-"
            sb, s = len(pending), int(su)
        out.append(f"{res} sb={sb} su={s} in={intr} cb={cb or '-'} tx={','.join(tx) or '-'}")
    return out


c13_reference.uses_impl = True


def c13_stream_check(hist, impl_out):
    """direct evaluation of the property statement on the implementation's observations:
    received stream == prefix of the concatenation of the data of writes that returned true,
    of length = number of bytes the intercepted sends handed to the OS.  Returns None or text."""
    accepted, received, handed = [], [], 0
    for line, o in zip(hist, impl_out):
        t, ot = line.split(), o.split()
        if t[0] == "write" and ot[0] == "w1":
            accepted += unhex(t[1])
        if ot[0] == "got":
            received += unhex(ot[1])
        for f in ot:
            if f.startswith("tx=") and f != "tx=-":
                for e in f[3:].split(","):
                    k = e.split(">")[1]
                    if k.isdigit():
                        handed += int(k)
        if t[0] == "peerread":
            if received != accepted[:handed]:
                return f"peer received {hexs(received)} but the first {handed} accepted bytes are {hexs(accepted[:handed])}"
        sb = [f for f in ot if f.startswith("sb=")]
        if sb and "in=none" not in o and ot[0] != "dead":
            if int(sb[0][3:]) != len(accepted) - handed:
                return f"send buffer size {sb[0][3:]} != accepted {len(accepted)} - handed {handed}"
    return None


C13_DATA = ["0102030405", "a1a2a3", "b1b2b3b4", "c1", "d1d2d3d4d5d6d7"]
C13_PATTERNS = [
    ["w", "r", "w", "r", "w", "r"],
    ["w", "r", "r", "r", "r", "r"],
    ["w", "w", "r", "r", "w", "r"],
    ["w", "S", "r", "w", "U", "r", "r", "P", "r"],
]


def c13_fault_histories(max_len, outcomes=("wb", "1", "half", "all")):
    """every sequence of send outcomes of length <= max_len, on each slot pattern"""
    hs = []
    for pat in C13_PATTERNS:
        for L in range(1, max_len + 1):
            for seq in itertools.product(outcomes, repeat=L):
                h, k, wi = [], 0, 0
                for p in pat:
                    if p == "S":
                        h.append("suspend")
                    elif p == "U":
                        h.append("resume")
                    elif p == "P":
                        h.append("peersend 5566")
                    else:
                        if k >= L:
                            break
                        if p == "w":
                            h.append(f"write {C13_DATA[wi % len(C13_DATA)]} {seq[k]}")
                            wi += 1
                        else:
                            h.append(f"ready w {seq[k]}")
                        k += 1
                h += ["peerread", "ready w all", "ready rw all", "ready w all", "peerread"]
                hs.append(h)
    return hs


def c13_random_history(rng, length):
    h = []
    sizes = [0, 1, 1, 2, 3, 5, 8, 13, 40, 200]
    for _ in range(length):
        k = rng.random()
        r = rng.random()
        if r < 0.22: o = "wb"
        elif r < 0.27: o = "err" if rng.random() < 0.4 else "0"
        elif r < 0.45: o = "all"
        elif r < 0.6: o = "half"
        else: o = str(rng.choice([1, 1, 2, 3, 4, 7, 12, 39, 150, 1000]))
        if k < 0.30:
            n = rng.choice(sizes)
            h.append(f"write {hexs([rng.randrange(256) for _ in range(n)])} {o}")
        elif k < 0.62:
            h.append(f"ready {rng.choice(['w', 'w', 'rw', 'rw', 'r', 'none'])} {o}")
        elif k < 0.70:
            h.append(f"read {rng.choice([1, 2, 5, 100])}")
        elif k < 0.78:
            h.append(f"peersend {hexs([rng.randrange(256) for _ in range(rng.choice([1, 2, 7]))])}")
        elif k < 0.86:
            h.append("peerread")
        elif k < 0.93:
            h.append("suspend")
        else:
            h.append("resume")
    h += ["ready w all", "ready w all", "peerread"]
    return h


class FaultCounter:
    def __init__(self):
        self.lock = threading.Lock()
        self.c = {"wouldblock": 0, "error": 0, "partial": 0, "full": 0, "zero": 0}
        self.cb = {"R": 0, "W": 0, "C": 0}
        self.stream_fail = []

    def nontrivial(self, h, out):
        c = dict.fromkeys(self.c, 0)
        cb = dict.fromkeys(self.cb, 0)
        for o in out:
            for f in o.split():
                if f.startswith("tx=") and f != "tx=-":
                    for e in f[3:].split(","):
                        n, k = e.split(">")
                        if k == "wb": c["wouldblock"] += 1
                        elif k == "err": c["error"] += 1
                        elif k == "0": c["zero"] += 1
                        elif int(k) < int(n): c["partial"] += 1
                        else: c["full"] += 1
                elif f.startswith("cb=") and f != "cb=-":
                    for ch in f[3:]:
                        if ch in cb:
                            cb[ch] += 1
        bad = c13_stream_check(h, out)
        with self.lock:
            for k in c: self.c[k] += c[k]
            for k in cb: self.cb[k] += cb[k]
            if bad:
                self.stream_fail.append((h, bad))
        if len(h) < 3 or not out:
            return None
        return (frozenset(l.split()[0] for l in h), tuple(o.split(" sb=")[0] for o in out[-3:]), out[-1])


def check_c13(ctx):
    ctx.assumptions += [
        "the operating system delivers the bytes accepted by successive send() calls to the peer in order, without loss or duplication (checked on the socket pair by the harness: received stream == bytes the intercepted sends accepted)",
        "a socket pair with free buffer space is reported writable by epoll; it is reported readable iff unread peer data is queued (the harness prints ENV-FAIL otherwise)",
        "Buffer is a faithful byte queue (property C08); allocation never fails",
        "the user's onClosed callback removes the client (server.remove), as the harness callback does",
    ]
    proof_ok = C.proof_stage(ctx, PROPS["C13"], [DRIVER], leanchecker=(ctx.tier == "thorough"))
    harness = build(ctx)
    if harness is None or not C.driver_path(DRIVER).exists():
        return
    try:
        rng = ctx.rng
        quick = ctx.tier == "quick"
        hs = C.load_corpus("C13")
        ncorpus = len(hs)
        L = 6 if quick else 7
        ex = c13_fault_histories(L)
        ex_err = c13_fault_histories(3 if quick else 4, outcomes=("wb", "err", "0", "2", "half", "all"))
        nr = 20000 if quick else 300000
        if not proof_ok:
            nr *= 4
        rnd = [c13_random_history(rng, rng.choice([4, 8, 16, 30, 60])) for _ in range(nr)]
        hs = hs + ex + ex_err + rnd
        ctx.cov["rule"] = (f"corpus ({ncorpus}) + exhaustive: every sequence of send outcomes of length <= {L} over "
                           f"{{wouldblock, 1, half, all}} on {len(C13_PATTERNS)} write/ready/suspend patterns ({len(ex)} histories) + every "
                           f"sequence of length <= {3 if quick else 4} over {{wouldblock, error, 0, 2, half, all}} ({len(ex_err)}) + {len(rnd)} random "
                           "histories of 4..60 ops (write sizes 0..200, outcomes wb/err/0/any count/half/all, ready with any reported subset, "
                           "read, peersend, peerread, suspend, resume); distinct_nontrivial = distinct (op-kind set, last three results, final observation)")
        ctx.cov["exhaustive"] = False
        ctx.cov["exhaustive_scope"] = f"send-outcome sequences of length<={L} over 4 outcomes x {len(C13_PATTERNS)} patterns: {len(ex)} histories"
        ops = {}
        for h in hs:
            for l in h:
                ops[l.split()[0]] = ops.get(l.split()[0], 0) + 1
        ctx.cov["op_histogram"] = ops
        ctx.cov["samples"] = [" ; ".join(h) for h in (rnd[-3:] + ex[len(ex) // 2: len(ex) // 2 + 2])]
        fc = FaultCounter()
        diffs = C.differential(ctx, harness, C.driver_path(DRIVER), hs, c13_reference, nontrivial=fc.nontrivial)
        ctx.cov["faults_fired"] = fc.c
        ctx.cov["callbacks_seen"] = fc.cb
        ctx.log(f"{len(hs)} histories, {ctx.cov['evaluations']} op lines, {len(diffs)} disagreement(s); faults fired {fc.c}; callbacks {fc.cb}")
        C.report_diffs(ctx, diffs, harness, C.driver_path(DRIVER), c13_reference, C.default_eq, "server-write")
        for h, bad in fc.stream_fail[:3]:
            ctx.violation("byte stream property violated on the implementation: " + bad, "\n".join(h) + f"\n# {bad}\n",
                          signature="stream")
    finally:
        try:
            harness.unlink()
        except OSError:
            pass


# =====================================================================================================
def check(ctx):
    if ctx.prop == "C13":
        check_c13(ctx)
    else:
        check_c14(ctx)


def check_c14(ctx):
    ctx.broken.append("C14 check not built yet")


def replay(ctx, path):
    h = C.parse_replay(path)
    harness = build(ctx)
    C.lake_build([DRIVER])
    ref = c13_reference if ctx.prop == "C13" else None
    diffs = C.differential(ctx, harness, C.driver_path(DRIVER), [h], ref)
    for d in diffs:
        print(d.text())
        ctx.violation(f"replay: {d.kind}", d.text())
    if ctx.prop == "C13" and not diffs:
        out, _, _ = C.run_lines(harness, ["reset"] + h)
        bad = c13_stream_check(h, out[1:])
        if bad:
            ctx.violation("replay: stream property: " + bad, "\n".join(h) + "\n", signature="stream")
    harness.unlink()
