#!/usr/bin/env python3
"""Prepare a seeding round: for each property a scratch worktree of /repo HEAD under /tmp and a prompt file for a
fresh sub-agent that is given ONLY the text of the property (properties.jsonl line) and a focus taken from the
property's own anchors (so that the rounds spread over the anchored mechanisms instead of repeating one site).

  seedround.py prepare <round> [Cxx ...]     -> /tmp/s<round>-Cxx (worktree), /tmp/s<round>-Cxx-out/PROMPT.md
  seedround.py cleanup <round> [Cxx ...]     -> removes the worktrees and output directories

Nothing from /verif except the property text goes into the prompt.
"""
import json
import shutil
import subprocess
import sys
from pathlib import Path

VERIF = Path(__file__).resolve().parents[1]

# focus per round: two anchored mechanisms (quoted from the property's anchors) per property
FOCUS = {
    "6": {
        "C01": ["two-child removal via the in-order neighbour and the rebalParent loop (which neighbour is taken, what is re-linked, which heights are refreshed) in Map OR MultiMap", "removeFront/removeBack/clear/size bookkeeping, the begin/end sentinels, or the iterator a removal / hinted insert returns (two cooperating sites that each look fine alone)"],
        "C02": ["remove unlinks the bucket chain and the order list (remove by iterator in the middle of a collision chain, removeFront/removeBack, bulk remove)", "positional insert (insert before a given iterator) / prepend ordering, operator== between tables built in different orders, or copy / assignment with a different capacity"],
        "C03": ["List insert/remove relinking or PoolList in-place construction and free-slot reuse across clear()/swap()", "Array(capacity) / reserve / resize(n, value) / append(const T*, n) / append(const Array&) bookkeeping of size vs capacity, or operator== / find / front / back answers"],
        "C04": ["Array::append/resize taking a const reference that may point into the old storage, or Array::insert / remove(index) constructing and destroying the shifted elements", "operations whose argument is the container itself (append(self), insert(self), operator=(self)) on List, HashMap, HashSet, Map, MultiMap, or swap followed by destruction of both containers"],
        "C05": ["swap exchanges block ownership and re-anchors the sentinels (List, HashMap, HashSet, Map, PoolList, PoolMap): elements must not be relocated and iterators must stay usable in the other container", "tree removal of a two-child node in Map/MultiMap must relink the neighbour node instead of moving payloads, or HashMap insert of an existing key must overwrite in place"],
        "C06": ["detach-before-write with copy length and minimum capacity (resize/reserve/append on shared, literal or attached strings; the terminator after length())", "printf/fromPrintf formatting with long outputs, join/split/token, startsWith/endsWith/find/findLast/compare answers, or case mapping — including an argument that is the String itself"],
        "C07": ["clear releases by type and operator= between different payload kinds (list -> string -> map ...), or copy shares heap payloads and copies scalars", "coercions between null/bool/int/uint/int64/uint64/double and decimal strings (toString/toInt/toUInt64/toBool/toDouble) at range boundaries, or equality of a Variant with its copies across types"],
        "C08": ["prepend: head-room, in-place shift or reallocate (which branch is taken and what it copies)", "resize/reserve/append growth: in-place, compact to front, or reallocate, together with the terminating zero byte and swap/free/clear"],
        "C09": ["write access clones unless the count is exactly one (String::detach / Variant mutable accessors / Xml value) in a multi-step single-threaded history involving several handles", "Ptr::swap / Ptr::operator= / RefCount::Object release path, or String/Variant assignment chains a = b; b = a; a = a under a second thread holding another handle"],
        "C10": ["run(): enqueue with back-pressure when the job queue is full, wake, spawn or retire workers (pool growing / shrinking)", "join / destructor / result conversion ordering against completion (store result, publish state, set signal), or abort()/isAborted()/isFinished() flags across a restart of the same Future object"],
        "C11": ["absolute deadline computation for timed waits (Semaphore/Signal/Monitor wait(timeout): nanosecond carry, timeout 0, long timeouts) or a timed wait returning false early after a spurious wake-up", "Signal::set / reset / wait flag handling under the lock, or Monitor::set releasing exactly one waiter / Monitor::wait consuming the flag"],
        "C12": ["activation guard defers physical removal until the OUTERMOST emission ends and propagates invalidation (nested emissions of the same signal, disconnect inside a nested emission)", "connect/disconnect mark or unlink on BOTH sides (listener side list vs emitter side list), including disconnecting one of several connections between the same pair or a member function connected twice"],
        "C13": ["write: direct send when no backlog, else append; the remainder after a PARTIAL send is buffered and write-readiness requested", "postponed / send-buffer size reporting, onWrite delivered exactly once per drain, or suspend/resume while a backlog exists (two cooperating sites)"],
        "C14": ["poll delivers one buffered event per call; Poll::set / Poll::remove prune buffered events (an event already pending for a socket that is removed or re-registered)", "a failed read or write is followed by onClosed exactly once, listener/establisher removal from inside a callback, or timers with equal due times / a timer removing another timer"],
        "C15": ["string escaping and recursive serialisation (Json::toString: control characters, quotes, backslash, non-ASCII bytes, 64-bit integers, nested empty containers)", "error line/column reporting, white-space handling between tokens, literals true/false/null prefixes, or reading beyond the terminator on truncated input"],
        "C16": ["element/content/text parsing with cursor rewind before text, comments wherever white space is allowed, processing instructions before the root", "attribute order / duplicate attributes / attribute value escaping in toString + parse round trip, or copies of element values being independent (clone on mutable access)"],
        "C17": ["update buffers bytes and compresses full blocks (chunk boundaries: a chunk that exactly fills the buffer, chunks larger than several blocks, empty updates)", "hasher reuse after finalize()/reset() (state, buffer fill and bit counter all re-initialised), or HMAC with key length exactly equal to / one more than the block size"],
        "C18": ["validator Unicode::isValid / Unicode::length on truncated or overlong sequences, surrogates and values above U+10FFFF, without reading past the given range", "printf-based integer formatting and libc parsing (toInt/toUInt/toInt64/toUInt64 at the extremes, fromInt64/fromUInt64), fromHex / toHex, or base64 encoder output padding"],
        "C19": ["simplifyPath component loop ('.', '..', repeated separators, leading '../', trailing slash) or getRelativePath prefix walk", "recursive Directory::create and its result reporting, Directory::unlink recursion with symbolic links, or File::copy / rename failure paths leaving files behind"],
        "C20": ["long options with '=' or separate values, unknown and incomplete options, optional/required argument flags, and the state kept between read() calls", "join/kill reap and close pipes, reading redirected stdout/stderr up to end-of-file, writing to redirected stdin, or Process::open(commandLine) quoting of empty / quoted / escaped arguments"],
    },
    "5": {
        "C01": ["hinted insert neighbour checks (insert(position, key, value)) or the rotations shiftl/shiftr/rotl/rotr", "copy / bulk insert between maps, or MultiMap find/count over equal keys, or the descending insert + list threading"],
        "C02": ["find-then-link insert of HashSet or PoolMap (insert of an existing key, insert position)", "clear resets bucket heads through cell back-pointers, or swap re-anchors the end sentinel, or the hash functions of Base.hpp"],
        "C03": ["Array shifting removal, Array::reserve/resize growth, or Array::insert", "in-place quicksort over list nodes (List::sort), List::insert(position, list), or PoolList remove/linking"],
        "C04": ["destructors / clear walking the live list then freeing blocks (List, HashMap, Map, PoolList, PoolMap)", "copy constructors / operator= re-inserting element by element (incl. MultiMap, HashSet), or Array::resize / Array::remove lifetime handling"],
        "C05": ["pool remove computes the node from the element address (PoolList/PoolMap remove)", "HashMap/HashSet/MultiMap operations (swap, remove, insert of existing key, rotations in MultiMap) that must relink instead of moving payloads"],
        "C06": ["copy constructor / assignment sharing owned data and deep-copying non-owned data, attach, or the C-string view detaching unterminated attached text", "replace / trim / split / token / substr / find / compare family in String.cpp"],
        "C07": ["mutable accessors clone when type differs or payload is shared (toMap/toList/toArray/toString), or clear releases by type", "coercions and equality (toBool/toInt/.../operator==) incl. src/Variant.cpp"],
        "C08": ["removeFront/removeBack window arithmetic, or resize compact-to-front branch", "attach/assign/operator= ownership handling, or the send backlog usage in Server.cpp"],
        "C09": ["Variant or Xml value reference counting (increment on share, decrement-and-test on release, clone unless count is one) under two threads or in a multi-step single-threaded history", "RefCount::Ptr copy/assign/swap/destructor or Atomic.hpp operations used by them"],
        "C10": ["push/pop with compare-and-swap on ticket and per-slot handoff, or the worker loop: pop, else reset, re-check, wait", "completion: store result, publish state, set signal, delete call record; abort/joinable flags; or lazy pool creation under the spin lock"],
        "C11": ["Semaphore (wait, timed wait, tryWait, EINTR retry) or Mutex recursive attribute / tryLock", "Thread start/join or Monitor::wait re-check-and-consume / Signal::reset"],
        "C12": ["emission iterates a frozen range and skips non-connected slots (Callback.hpp emit), or connect during an emission", "destructors unlink the peer side (~Listener / ~Emitter), or connect/disconnect bookkeeping on the listener side"],
        "C13": ["write-ready handling: send backlog, drop sent prefix, on drain restore read interest and call onWrite", "send/recv map would-block to error 0 (Socket.cpp), or suspend/resume recompute the interest set"],
        "C14": ["timer dispatch re-queues before calling back, or timer removal searches equal due times", "interrupt under mutex consumed in run, dispatch by event kind (listener/establisher/client), or poll remove pruning buffered events / client removal and the closing set"],
        "C15": ["tokenizer for strings: \\u escapes and surrogate pairs, or number tokens (double/exponent/sign/64-bit)", "recursive descent over arrays/objects (separators, nesting, duplicates), recursive serialisation, or the comment stripping state machine"],
        "C16": ["entity unescape (named / numeric references) or the tokenizer (names, attribute values, quotes)", "serialisation (Element::toString indentation/empty elements/attributes) or mutable element access cloning shared values, or error line/column reporting"],
        "C17": ["finalize pads, appends bit length, emits big-endian digest, resets (padding boundary 55/56/63/64 bytes, bit length of long messages)", "compression function / constants / message schedule, or HMAC key normalisation for long keys and the inner/outer passes"],
        "C18": ["UTF-8 encoder by range or decoder with length table and offset subtraction (Unicode::append / fromString / length)", "hex and base64 tables (toHex/fromHex/toBase64/fromBase64 incl. padding) or libc based parsing (toInt/toUInt/toInt64/toDouble/toBool)"],
        "C19": ["path decomposition scanners (getDirectoryName/getBaseName/getStem/getExtension/isAbsolutePath)", "rename with exclusive placeholder / copy via sendfile / File::open flags / read / write / seek, or recursive unlink using entry types (no symlink following)"],
        "C20": ["nextChar/read state machine for short-option clusters and '--', or command-line splitting with quotes and escaped quotes", "argv/env preparation and vfork+exec, kill, or the environment setters/getters"],
    },
}

TEMPLATE = """You are working on the C++ library craflin/libnstd (a cross-platform STL-replacement library).
Your own scratch git worktree of it is `{wt}` (its HEAD is the current state of the library).  Work ONLY inside
`{wt}` and your output directory `{out}`.  The directories /repo and /verif are off limits: do not read,
list or write anything there.

## The property

The library is supposed to satisfy the following semantic property (JSON, with anchors into the source):

```json
{prop}
```

## Your task

Write TWO independent changes to the library (each one a separate patch against the HEAD of your worktree)
that BREAK this property, such that for each of them

* the library still compiles,
* the repository's existing test suite still passes unchanged with the change applied
  (`cmake -G Ninja -S {wt} -B {wt}/_b -DCMAKE_BUILD_TYPE=Debug && cmake --build {wt}/_b -j8 && ctest --test-dir {wt}/_b -j8 --timeout 900`
  must report `100% tests passed, 0 tests failed out of 34`),
* the change looks like a realistic maintenance edit (a refactoring, a clean-up, an optimisation, a "fix" with a
  subtle mistake, two cooperating sites that each look fine alone) — the kind of regression that gets merged,
* the violation needs something SPECIFIC to manifest: a particular interleaving, a fault or would-block at a
  particular point, a multi-step sequence of operations, an unusual input or boundary value, a particular
  internal shape (tree shape, collision, capacity boundary), a re-used object.  Do NOT deliver changes that any
  ordinary use of the API would expose at once.

To spread over the code, aim the two changes at different mechanisms named in the anchors:
* change 1: {f1}
* change 2: {f2}
(If a focus turns out to be impossible, pick another anchored mechanism and say so.)

For each change i (1, 2) deliver in `{out}/change_i/`:

* `patch.diff` — `git diff` against HEAD; must apply with `git apply` to a clean checkout of HEAD.  Only library
  sources (include/, src/) may change — not the tests.
* `demo.cpp` — a small standalone demonstration program that exits 0 on HEAD and exits non-zero (or is aborted by the
  sanitizer) with the change applied.  It is built from the worktree root with
  `g++ -std=gnu++11 -g -fsanitize=address,undefined -fno-sanitize-recover=all -I{wt}/include demo.cpp {wt}/src/*.cpp {wt}/src/*/*.cpp -lpthread -ldl -o demo`
  and run without arguments from the worktree root; it must finish in under 60 s and fail reliably (if it depends
  on thread timing, force the interleaving inside the demo — sleeps, yields, many repetitions — so that it fails in at
  least 9 of 10 runs with the change and never without it).  Print what was expected and what was observed.
  Note: a translation unit that includes nstd headers cannot include C++ standard library headers such as <new>,
  <vector>, <string> (nstd/Base.hpp declares its own operator new); use C headers (stdio.h, string.h, pthread.h, ...).
* `meta.json` — `{{"property": "{pid}", "summary": "<what the change does and why it breaks the property>",
  "needs": "<exactly what is needed for the violation to manifest and why ordinary use / the tests do not see it>",
  "demo_cmd": "<how you built and ran the demo, and the outputs with and without the change>",
  "tests": "<how you ran the test suite with the change and its result>"}}`

Never use `git stash` in your worktree (the stash is shared with other worktrees of the same repository; save diffs to files in your output directory instead).

Verify everything yourself before you finish: for each change start from a clean HEAD (`git -C {wt} checkout -- .`),
apply the patch, build, run the 34 tests, build and run the demo with and without the change.  Leave the worktree
clean (no applied patch) and delete `{wt}/_b` and built demo binaries at the end.  Your final message: two short
paragraphs (one per change) stating what it does, what it needs to manifest, and the verified results.
"""


def sh(cmd):
    return subprocess.run(cmd, stdout=subprocess.PIPE, stderr=subprocess.STDOUT, text=True)


def props():
    out = {}
    for line in (VERIF / "properties.jsonl").read_text().splitlines():
        if line.strip():
            p = json.loads(line)
            out[p["id"]] = p
    return out


def main():
    cmd, rnd = sys.argv[1], sys.argv[2]
    P = props()
    ids = sys.argv[3:] or sorted(P)
    for pid in ids:
        wt = Path(f"/tmp/s{rnd}-{pid}")
        out = Path(f"/tmp/s{rnd}-{pid}-out")
        if cmd == "prepare":
            if not wt.exists():
                r = sh(["git", "-C", "/repo", "worktree", "add", "--detach", str(wt), "HEAD"])
                if r.returncode:
                    print(r.stdout)
                    continue
            out.mkdir(exist_ok=True)
            f1, f2 = FOCUS[rnd][pid]
            (out / "PROMPT.md").write_text(TEMPLATE.format(wt=wt, out=out, pid=pid, f1=f1, f2=f2,
                                                           prop=json.dumps(P[pid], indent=1)))
            print(pid, "prepared", wt, out)
        elif cmd == "cleanup":
            sh(["git", "-C", "/repo", "worktree", "remove", "--force", str(wt)])
            shutil.rmtree(wt, ignore_errors=True)
            shutil.rmtree(out, ignore_errors=True)
            print(pid, "removed")
    sh(["git", "-C", "/repo", "worktree", "prune"])


if __name__ == "__main__":
    main()
