#include <nstd/Socket/Server.hpp>
#include <nstd/Socket/Socket.hpp>
#include <nstd/Thread.hpp>
#include <stdio.h>
#include <stdlib.h>
#include <string.h>
#include <errno.h>
#include <unistd.h>
#include <sys/syscall.h>
#include <sys/socket.h>
static unsigned long long rs=0x9E3779B97F4A7C15ULL; static unsigned rnd(){ rs^=rs<<13; rs^=rs>>7; rs^=rs<<17; return (unsigned)(rs>>11);} 
static volatile int faultsOn=0; static long nWould=0,nPartial=0,nFull=0;
extern "C" ssize_t send(int fd, const void* buf, size_t n, int flags){
  if(faultsOn && n>0){ unsigned r=rnd()%4; if(r==0){ ++nWould; errno=EAGAIN; return -1;} if(r<3){ size_t k=1+rnd()%n; if(k<n)++nPartial; else ++nFull; n=k; } else ++nFull; }
  return syscall(SYS_sendto, fd, buf, n, flags, 0, 0);
}
struct Cb : public Server::Client::ICallback { int writes, reads, closed; Cb():writes(0),reads(0),closed(0){} void onRead(){++reads;} void onWrite(){++writes;} void onClosed(){++closed;} };
static Server* srv;
static uint runProc(void*){ srv->run(); return 0; }
int main(int argc,char**argv){
  rs ^= (unsigned long long)atoi(argc>1?argv[1]:"1")*0x2545F4914F6CDD1DULL;
  for(int round=0;round<200;++round){
    Server server; srv=&server; Cb cb; Socket other; Server::Client* c=server.pair(cb, other); if(!c){printf("pair failed\n");return 1;}
    static byte expect[1<<20]; size_t total=0; faultsOn=1; size_t pend=0; bool hadBacklog=false;
    int nw=1+rnd()%20;
    for(int i=0;i<nw;++i){ size_t sz=1+rnd()%5000; if(total+sz>sizeof(expect)) break; for(size_t j=0;j<sz;++j) expect[total+j]=(byte)rnd(); usize postponed=12345; bool ok=c->write(expect+total,sz,&postponed); if(!ok){printf("write failed\n");return 1;} total+=sz; pend=postponed; if(postponed) hadBacklog=true; if(postponed!=c->getSendBufferSize()){printf("postponed mismatch\n");return 1;} }
    Thread t; t.start(runProc,0);
    static byte got[1<<20]; size_t g=0; while(g<total){ ssize r=other.recv(got+g, sizeof(got)-g); if(r<=0){printf("recv fail %zd\n",(ssize_t)r);return 1;} g+=r; }
    // wait for drain callback if there was backlog
    for(int spin=0; hadBacklog && pend && cb.writes==0 && spin<2000; ++spin) usleep(1000);
    server.interrupt(); t.join(); faultsOn=0;
    if(memcmp(got,expect,total)!=0){printf("STREAM MISMATCH round %d\n",round);return 1;}
    if(pend && cb.writes!=1){printf("onWrite count %d (pend=%zu) round %d\n",cb.writes,pend,round);return 1;}
    if(!pend && cb.writes!=0){printf("spurious onWrite round %d\n",round);return 1;}
    if(c->getSendBufferSize()!=0){printf("backlog not drained\n");return 1;}
  }
  printf("server write ok would=%ld partial=%ld full=%ld\n",nWould,nPartial,nFull);
  return 0;
}
