// Probe: controlled scheduler + simulated POSIX layer under the unmodified libnstd sync sources.
#include <pthread.h>
#include <semaphore.h>
#include <time.h>
#include <stdio.h>
#include <stdlib.h>
#include <string.h>
#include <errno.h>
#include <unistd.h>
#include <new>
enum { MAXT=8, MAXOBJ=64 };
enum OpKind { OP_NONE, OP_START, OP_LOCK, OP_TRYLOCK, OP_UNLOCK, OP_CWAIT_ENTER, OP_CWAKE, OP_RELOCK, OP_SIGNAL, OP_BCAST, OP_JOIN, OP_YIELD, OP_EXIT };
struct VMutex { void* addr; int owner; int count; bool recursive; };
struct VCond { void* addr; };
struct VThread { bool used, finished; pthread_t real; sem_t go; OpKind pend; void* obj; void* obj2; int joinTarget; bool timed; bool signalled; void* waitingOn; void*(*fn)(void*); void* arg; void* ret; int result; };
static pthread_mutex_t G = PTHREAD_MUTEX_INITIALIZER;
static VMutex mtx[MAXOBJ]; static int nmtx; static VThread th[MAXT]; static int nth; static __thread int self=-1;
static unsigned long long rs; static unsigned rnd(){ rs^=rs<<13; rs^=rs>>7; rs^=rs<<17; return (unsigned)(rs>>11);} 
static int spuriousBudget=2;
extern "C" void on_deadlock() __attribute__((weak));
static char trace[1<<16]; static int tracen; static bool deadlock=false; static long steps=0;
static VMutex* M(void* a){ for(int i=0;i<nmtx;++i) if(mtx[i].addr==a) return &mtx[i]; mtx[nmtx].addr=a; mtx[nmtx].owner=-1; mtx[nmtx].count=0; mtx[nmtx].recursive=false; return &mtx[nmtx++]; }
static bool enabled(int t, int* nalts){ VThread& T=th[t]; *nalts=1; switch(T.pend){
  case OP_NONE: return false; case OP_START: case OP_TRYLOCK: case OP_UNLOCK: case OP_CWAIT_ENTER: case OP_SIGNAL: case OP_BCAST: case OP_YIELD: case OP_EXIT: return true;
  case OP_LOCK: case OP_RELOCK: { VMutex* m=M(T.obj); return m->owner==-1 || (m->owner==t && m->recursive); }
  case OP_CWAKE: { *nalts = T.timed?2:1; if(T.signalled||T.timed) return true; return spuriousBudget>0; /* spurious wake-ups are budgeted; alt1 = timeout */ }
  case OP_JOIN: return th[T.joinTarget].finished; }
  return false; }
// called with G held by thread `me`, which has set its pend; picks next, hands over the baton
static void pass_baton(int me){
  int cand[MAXT*2][2]; int nc=0; for(int t=0;t<nth;++t){ if(!th[t].used||th[t].finished) continue; int na; if(enabled(t,&na)) for(int a=0;a<na;++a){ cand[nc][0]=t; cand[nc][1]=a; ++nc; } }
  if(nc==0){ deadlock=true; printf("DEADLOCK after %ld steps: no enabled thread; pendings:",steps); for(int t=0;t<nth;++t) if(th[t].used&&!th[t].finished) printf(" t%d:%d(obj=%p,sig=%d)",t,th[t].pend,th[t].obj,(int)th[t].signalled); printf("\n trace: %.*s\n",tracen,trace); if(on_deadlock) on_deadlock(); fflush(stdout); _exit(5); }
  int c=rnd()%nc; int t=cand[c][0]; th[t].result=cand[c][1]; ++steps; if(tracen<(int)sizeof(trace)-16) tracen+=sprintf(trace+tracen,"%d.%d ",t,cand[c][1]);
  if(t!=me || me<0){ sem_post(&th[t].go); }
  if(t!=me && me>=0){ pthread_mutex_unlock(&G); sem_wait(&th[me].go); pthread_mutex_lock(&G); }
}
// scheduling point: announce op, wait until chosen; returns chosen alternative; effect applied by caller under G
static int point(OpKind k, void* obj, void* obj2=0, int joinTarget=-1, bool timed=false){ int me=self; VThread& T=th[me]; T.pend=k; T.obj=obj; T.obj2=obj2; T.joinTarget=joinTarget; T.timed=timed; pass_baton(me); T.pend=OP_NONE; return T.result; }
extern "C" {
int nv_pthread_mutex_init(pthread_mutex_t* m, const pthread_mutexattr_t* a){ pthread_mutex_lock(&G); VMutex* v=M(m); v->owner=-1; v->count=0; int type=PTHREAD_MUTEX_DEFAULT; if(a) pthread_mutexattr_gettype(a,&type); v->recursive=(type==PTHREAD_MUTEX_RECURSIVE); pthread_mutex_unlock(&G); return 0; }
int nv_pthread_mutex_destroy(pthread_mutex_t* m){ pthread_mutex_lock(&G); VMutex* v=M(m); int r= v->owner==-1?0:EBUSY; v->addr=(void*)-1; pthread_mutex_unlock(&G); return r; }
int nv_pthread_mutex_lock(pthread_mutex_t* m){ pthread_mutex_lock(&G); point(OP_LOCK,m); VMutex* v=M(m); v->owner=self; v->count++; pthread_mutex_unlock(&G); return 0; }
int nv_pthread_mutex_trylock(pthread_mutex_t* m){ pthread_mutex_lock(&G); point(OP_TRYLOCK,m); VMutex* v=M(m); int r; if(v->owner==-1||(v->owner==self&&v->recursive)){ v->owner=self; v->count++; r=0;} else r=EBUSY; pthread_mutex_unlock(&G); return r; }
int nv_pthread_mutex_unlock(pthread_mutex_t* m){ pthread_mutex_lock(&G); point(OP_UNLOCK,m); VMutex* v=M(m); int r=0; if(v->owner!=self) r=EPERM; else if(--v->count==0) v->owner=-1; pthread_mutex_unlock(&G); return r; }
int nv_pthread_cond_init(pthread_cond_t*, const pthread_condattr_t*){ return 0; }
int nv_pthread_cond_destroy(pthread_cond_t* c){ pthread_mutex_lock(&G); int r=0; for(int t=0;t<nth;++t) if(th[t].used&&!th[t].finished&&th[t].waitingOn==c) r=EBUSY; pthread_mutex_unlock(&G); return r; }
static int cwait(pthread_cond_t* c, pthread_mutex_t* m, bool timed){ pthread_mutex_lock(&G); point(OP_CWAIT_ENTER,c,m); VMutex* v=M(m); int saved=v->count; v->count=0; v->owner=-1; th[self].waitingOn=c; th[self].signalled=false;
  int alt=point(OP_CWAKE,c,m,-1,timed); if(!th[self].signalled&&!(timed&&alt==1)) --spuriousBudget; th[self].waitingOn=0; point(OP_RELOCK,m); v=M(m); v->owner=self; v->count=saved; pthread_mutex_unlock(&G); return (timed&&alt==1)?ETIMEDOUT:0; }
int nv_pthread_cond_wait(pthread_cond_t* c, pthread_mutex_t* m){ return cwait(c,m,false); }
int nv_pthread_cond_timedwait(pthread_cond_t* c, pthread_mutex_t* m, const struct timespec*){ return cwait(c,m,true); }
int nv_pthread_cond_signal(pthread_cond_t* c){ pthread_mutex_lock(&G); point(OP_SIGNAL,c); int w[MAXT],n=0; for(int t=0;t<nth;++t) if(th[t].used&&!th[t].finished&&th[t].waitingOn==c&&!th[t].signalled) w[n++]=t; if(n) th[w[rnd()%n]].signalled=true; pthread_mutex_unlock(&G); return 0; }
int nv_pthread_cond_broadcast(pthread_cond_t* c){ pthread_mutex_lock(&G); point(OP_BCAST,c); for(int t=0;t<nth;++t) if(th[t].used&&!th[t].finished&&th[t].waitingOn==c) th[t].signalled=true; pthread_mutex_unlock(&G); return 0; }
static void* tramp(void* p){ int id=(int)(long)p; self=id; sem_wait(&th[id].go); pthread_mutex_lock(&G); th[id].pend=OP_NONE; pthread_mutex_unlock(&G); void* r=th[id].fn(th[id].arg); pthread_mutex_lock(&G); th[id].ret=r; point(OP_EXIT,0); th[id].finished=true; th[id].pend=OP_NONE; pass_baton(-1); pthread_mutex_unlock(&G); return r; }
int nv_pthread_create(pthread_t* out, const pthread_attr_t*, void*(*fn)(void*), void* arg){ pthread_mutex_lock(&G); int id=nth++; VThread& T=th[id]; memset(&T,0,sizeof(T)); T.used=true; sem_init(&T.go,0,0); T.fn=fn; T.arg=arg; T.pend=OP_START; pthread_create(&T.real,0,tramp,(void*)(long)id); *out=(pthread_t)(long)(id+1000); point(OP_YIELD,0); pthread_mutex_unlock(&G); return 0; }
int nv_pthread_join(pthread_t h, void** ret){ int id=(int)((long)h-1000); pthread_mutex_lock(&G); point(OP_JOIN,0,0,id); if(ret)*ret=th[id].ret; pthread_mutex_unlock(&G); pthread_join(th[id].real,0); return 0; }
int nv_clock_gettime(clockid_t, struct timespec* ts){ ts->tv_sec=1000; ts->tv_nsec=0; return 0; }
int nv_sem_init(sem_t*,int,unsigned){return 0;} int nv_sem_destroy(sem_t*){return 0;} int nv_sem_post(sem_t*){return 0;} int nv_sem_wait(sem_t*){return 0;} int nv_sem_trywait(sem_t*){return 0;} int nv_sem_timedwait(sem_t*,const struct timespec*){return 0;}
void nv_yield(const char*, const volatile void*){ pthread_mutex_lock(&G); point(OP_YIELD,0); pthread_mutex_unlock(&G); }
}
void sched_reset(unsigned long long seed){ rs=seed*0x2545F4914F6CDD1DULL+0x9E3779B97F4A7C15ULL; spuriousBudget=2; nmtx=0; nth=1; memset(th,0,sizeof(th)); th[0].used=true; sem_init(&th[0].go,0,0); self=0; tracen=0; }
long sched_steps(){ return steps; }
