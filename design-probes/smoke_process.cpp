#include <nstd/Process.hpp>
#include <nstd/List.hpp>
#include <stdio.h>
#include <stdlib.h>
#include <string.h>
int main(){
  { Process p; char* av[]={(char*)"ignored0",(char*)"a b",(char*)"",(char*)"c\"d",0}; Map<String,String> env; env.insert("NV_X","1"); env.insert("NV_Y","two words");
    bool ok=p.open("/tmp/exp/echo_child",4,av,Process::stdoutStream|Process::stderrStream,env); printf("open=%d\n",ok); char buf[4096]; ssize n; uint want=Process::stdoutStream|Process::stderrStream; String out,err; while(want){ uint streams=want; n=p.read(buf,sizeof buf,streams); if(n<0) break; if(n==0){ want&=~streams; continue;} if(streams&Process::stdoutStream) out.append(buf,n); else err.append(buf,n);} uint32 ec=0; p.join(ec); printf("exit=%u\nstdout:\n%sstderr:\n%s",ec,(const char*)out,(const char*)err); }
  { Process p; uint32 ec=0; p.start("/tmp/exp/echo_child --exit 7"); p.join(ec); printf("exit via start(command)=%u\n",ec); }
  { Process p; bool ok=p.open("/tmp/exp/echo_child \"x y\" \"q\\\"r\" z"); char buf[4096]; ssize n; String out; while((n=p.read(buf,sizeof buf))>0) out.append(buf,n); uint32 ec; p.join(ec); printf("open(command)=%d exit=%u\n%s",ok,ec,(const char*)out); }
  { Process p; bool ok=p.open("/tmp/exp/echo_child --cat", Process::stdoutStream|Process::stdinStream); size_t N=200000; char* data=(char*)malloc(N); for(size_t i=0;i<N;++i) data[i]=(char)(i*7); 
    // write in chunks while reading to avoid pipe deadlock is the caller's job; here payload > pipe capacity: write then close stdin then read would deadlock -> use small payload first
    size_t M=60000; ssize w=p.write(data,M); p.close(Process::stdinStream); String out; char buf[8192]; ssize n; while((n=p.read(buf,sizeof buf))>0) out.append(buf,n); uint32 ec; p.join(ec); printf("cat: wrote=%zd got=%zu same=%d exit=%u\n",(ssize_t)w,(size_t)out.length(), out.length()==M&&memcmp((const char*)out,data,M)==0, ec); }
  return 0; }
