#include <nstd/Callback.hpp>
#include <stdio.h>
#include <stdlib.h>
#include <string.h>
static unsigned long long rs=0x9E3779B97F4A7C15ULL; static unsigned rnd(){ rs^=rs<<13; rs^=rs>>7; rs^=rs<<17; return (unsigned)(rs>>11);} 
enum { NE=2, NL=3, NS=2, MAXINV=4, MAXACT=3, MAXDEPTH=5 };
struct Act { int kind; int e, l, s; }; // 0 connect 1 disconnect 2 emit 3 destroyListener 4 destroyEmitter
static Act script[NL][NS][MAXINV][MAXACT]; static int scriptLen[NL][NS][MAXINV];
static Act top[12]; static int topLen;
// ---------------- implementation side
struct Em : public Callback::Emitter { void sig(){} void fire(){ emit(&Em::sig);} };
struct Li; static Em* em[NE]; static Li* li[NL]; static int invCount[NL][NS]; static int depth;
static int logI[4096][2]; static int logIn;
static void doAct(const Act& a);
static void runSlot(int l,int s){ if(logIn<4096){logI[logIn][0]=l;logI[logIn][1]=s;++logIn;} int idx=invCount[l][s]++; if(idx>=MAXINV) return; for(int i=0;i<scriptLen[l][s][idx];++i) doAct(script[l][s][idx][i]); }
struct Li : public Callback::Listener { int id; Li(int id):id(id){} void slot0(){ int l=id; runSlot(l,0);} void slot1(){ int l=id; runSlot(l,1);} };
typedef void (Li::*SlotFn)();
static SlotFn fn(int s){ return s==0? &Li::slot0 : &Li::slot1; }
static void doAct(const Act& a){
  switch(a.kind){
  case 0: if(em[a.e]&&li[a.l]) Callback::connect(em[a.e],&Em::sig,li[a.l],fn(a.s)); break;
  case 1: if(em[a.e]&&li[a.l]) Callback::disconnect(em[a.e],&Em::sig,li[a.l],fn(a.s)); break;
  case 2: if(em[a.e]&&depth<MAXDEPTH){ ++depth; em[a.e]->fire(); --depth; } break;
  case 3: if(li[a.l]){ Li* p=li[a.l]; li[a.l]=0; delete p; } break;
  case 4: if(em[a.e]){ Em* p=em[a.e]; em[a.e]=0; delete p; } break; }
}
// ---------------- reference side (spec)
struct Conn { int e,l,s; long born; bool alive; };
static Conn conns[4096]; static int nconns; static long clk; static bool eAlive[NE], lAlive[NL]; static int active[NE]; static long outerStart[NE]; static int rInv[NL][NS]; static int rdepth;
static int logR[4096][2]; static int logRn;
static void rAct(const Act& a);
static void rSlot(int l,int s){ if(logRn<4096){logR[logRn][0]=l;logR[logRn][1]=s;++logRn;} int idx=rInv[l][s]++; if(idx>=MAXINV) return; for(int i=0;i<scriptLen[l][s][idx];++i) rAct(script[l][s][idx][i]); }
static void rAct(const Act& a){
  switch(a.kind){
  case 0: if(eAlive[a.e]&&lAlive[a.l]){ Conn c={a.e,a.l,a.s,clk++,true}; conns[nconns++]=c; } break;
  case 1: if(eAlive[a.e]&&lAlive[a.l]){ for(int i=0;i<nconns;++i) if(conns[i].alive&&conns[i].e==a.e&&conns[i].l==a.l&&conns[i].s==a.s){ conns[i].alive=false; break; } } break;
  case 2: if(eAlive[a.e]&&rdepth<MAXDEPTH){ ++rdepth; int e=a.e; if(active[e]==0) outerStart[e]=clk++; ++active[e]; int snap[4096]; int ns=0; for(int i=0;i<nconns;++i) if(conns[i].alive&&conns[i].e==e&&conns[i].born<outerStart[e]) snap[ns++]=i; for(int j=0;j<ns;++j){ if(!eAlive[e]) break; if(conns[snap[j]].alive) rSlot(conns[snap[j]].l,conns[snap[j]].s); } if(eAlive[e]) --active[e]; --rdepth; } break;
  case 3: if(lAlive[a.l]){ lAlive[a.l]=false; for(int i=0;i<nconns;++i) if(conns[i].l==a.l) conns[i].alive=false; } break;
  case 4: if(eAlive[a.e]){ eAlive[a.e]=false; active[a.e]=0; for(int i=0;i<nconns;++i) if(conns[i].e==a.e) conns[i].alive=false; } break; }
}
static Act randAct(){ Act a; unsigned r=rnd()%20; a.kind= r<7?0 : r<12?1 : r<17?2 : r<19?3 : 4; a.e=rnd()%NE; a.l=rnd()%NL; a.s=rnd()%NS; return a; }
static void printAct(const Act&a){ const char* n[]={"connect","disconnect","emit","delL","delE"}; printf("%s(e%d,l%d,s%d) ",n[a.kind],a.e,a.l,a.s); }
int main(int argc,char**argv){ rs^=(unsigned long long)atoi(argv[1])*0x2545F4914F6CDD1DULL; long bad=0; long nontrivial=0;
  for(long round=0;round<200000&&bad<3;++round){
    for(int l=0;l<NL;++l)for(int s=0;s<NS;++s)for(int k=0;k<MAXINV;++k){ int n=rnd()%4==0? 1+rnd()%MAXACT : 0; scriptLen[l][s][k]=n; for(int i=0;i<n;++i) script[l][s][k][i]=randAct(); }
    topLen=4+rnd()%8; for(int i=0;i<topLen;++i) top[i]=randAct(); for(int i=0;i<3;++i){ top[i].kind=0; }
    // impl
    for(int e=0;e<NE;++e) em[e]=new Em; for(int l=0;l<NL;++l) li[l]=new Li(l); memset(invCount,0,sizeof(invCount)); logIn=0; depth=0;
    for(int i=0;i<topLen;++i) doAct(top[i]);
    for(int l=0;l<NL;++l) if(li[l]){ delete li[l]; li[l]=0; } for(int e=0;e<NE;++e) if(em[e]){ delete em[e]; em[e]=0; }
    // ref
    nconns=0; clk=0; for(int e=0;e<NE;++e){eAlive[e]=true;active[e]=0;} for(int l=0;l<NL;++l) lAlive[l]=true; memset(rInv,0,sizeof(rInv)); logRn=0; rdepth=0;
    for(int i=0;i<topLen;++i) rAct(top[i]);
    if(logRn>3) ++nontrivial;
    bool same = logIn==logRn && memcmp(logI,logR,sizeof(int)*2*logIn)==0;
    if(!same){ ++bad; printf("LOG MISMATCH round %ld\n top: ",round); for(int i=0;i<topLen;++i) printAct(top[i]); printf("\n"); for(int l=0;l<NL;++l)for(int s=0;s<NS;++s)for(int k=0;k<MAXINV;++k) if(scriptLen[l][s][k]){ printf("  l%d.s%d#%d: ",l,s,k); for(int i=0;i<scriptLen[l][s][k];++i) printAct(script[l][s][k][i]); printf("\n"); } printf(" impl: "); for(int i=0;i<logIn;++i) printf("l%d.s%d ",logI[i][0],logI[i][1]); printf("\n ref : "); for(int i=0;i<logRn;++i) printf("l%d.s%d ",logR[i][0],logR[i][1]); printf("\n"); }
  }
  printf("callback bad=%ld nontrivial=%ld\n",bad,nontrivial); return bad?1:0; }
