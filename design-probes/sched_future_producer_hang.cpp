#define private public
#define protected public
#include <nstd/Signal.hpp>
#include <nstd/Future.hpp>
#include "/repo/src/Future.cpp"
#undef private
#undef protected
#include <stdio.h>
#include <stdlib.h>
void sched_reset(unsigned long long seed); long sched_steps();
typedef Future<void>::Private::ThreadPool Pool;
static Pool* pool; static volatile int executed;
static void job(void*){ ++executed; }
extern "C" void on_deadlock(){ Pool* p=pool; printf(" &deq.cond=%p &enq.cond=%p\n",(void*)p->_dequeuedSignal._signal.cdata,(void*)p->_enqueuedSignal._signal.cdata); printf(" executed=%d queue: head=%zu tail=%zu cap=%zu slot0.head=%zd slot0.tail=%zd | deq: state=%zu sig=%d | enq: state=%zu sig=%d | pushed=%zu processed=%zu threads=%zu\n", executed, (size_t)p->_queue._head,(size_t)p->_queue._tail,(size_t)p->_queue._capacity,(ssize_t)p->_queue._queue[0].head,(ssize_t)p->_queue._queue[0].tail,(size_t)p->_dequeuedSignal._state,(int)p->_dequeuedSignal._signal.signaled,(size_t)p->_enqueuedSignal._state,(int)p->_enqueuedSignal._signal.signaled,(size_t)p->_pushedJobs,(size_t)p->_processedJobs,(size_t)p->_threadCount); }
static uint producer(void* p){ long n=(long)p; for(long i=0;i<n;++i) pool->run(job,0); return 0; }
#include <sys/wait.h>
#include <unistd.h>
int main(int argc,char**argv){ int from=atoi(argv[1]), to=atoi(argv[2]); int qs=atoi(argv[3]); int njobs=argc>4?atoi(argv[4]):3; int dl=0;
  for(int seed=from;seed<=to;++seed){ fflush(stdout); pid_t c=fork(); if(c==0){ sched_reset(seed); executed=0; pool=new Pool(0,3,qs); Thread a,b; a.start(producer,(void*)(long)njobs); b.start(producer,(void*)(long)njobs); a.join(); b.join(); _exit(0); }
    int st=0; waitpid(c,&st,0); if(!WIFEXITED(st)||WEXITSTATUS(st)!=0){ printf("seed %d: exit status %d sig %d\n",seed,WIFEXITED(st)?WEXITSTATUS(st):-1,WIFSIGNALED(st)?WTERMSIG(st):0); if(++dl>=2) break; } }
  printf("done seeds %d..%d deadlocks=%d\n",from,to,dl); return 0; }
