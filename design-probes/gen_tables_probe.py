#!/usr/bin/env python3
"""Probe of the table translator: extract tables/macros from the current /repo sources and emit Lean."""
import re, subprocess, sys
REPO='/repo'
def strip_comments(src):
    src=re.sub(r'/\*.*?\*/','',src,flags=re.S)
    src=re.sub(r'//[^\n]*','',src)
    return src
out=[]
# --- SHA-256 K and H0
sha=open(f'{REPO}/src/Crypto/Sha256.cpp').read()
# active macro definitions only (conditional compilation resolved by the real preprocessor)
shamac=subprocess.run(['g++','-E','-dD','-I'+REPO+'/include',REPO+'/src/Crypto/Sha256.cpp'],capture_output=True,text=True).stdout
shamac='\n'.join(l for l in shamac.splitlines() if l.startswith('#define') and not l.startswith('#define _'))
k=re.search(r'Sha256::Private::K\[64\]\s*=\s*\{(.*?)\};',sha,re.S).group(1)
K=[int(x,16) for x in re.findall(r'0x[0-9a-fA-F]+',k)]
assert len(K)==64
h0=[int(x,16) for x in re.findall(r'p->state\[\d\]\s*=\s*(0x[0-9a-fA-F]+);',sha)]
assert len(h0)==8
out.append('namespace Nstd.Generated\n')
out.append('def shaK : List Nat := ['+', '.join(map(str,K))+']\n')
out.append('def shaH0 : List Nat := ['+', '.join(map(str,h0))+']\n')
# --- macros S0 S1 s0 s1 Ch Maj  (tiny C-expression to Lean translator)
def macro(name):
    m=re.search(r'#define\s+'+name+r'\(([^)]*)\)\s+(.*)',shamac); return m.group(1).split(','), m.group(2).strip()
def cexpr(e):
    # tokens: identifiers, numbers, ( ) , ^ & | >> << + 
    toks=re.findall(r'[A-Za-z_]\w*|\d+|>>|<<|[()^&|,+-]',e); pos=[0]
    def peek(): return toks[pos[0]] if pos[0]<len(toks) else None
    def eat(t=None):
        x=toks[pos[0]]; assert t is None or x==t,(x,t); pos[0]+=1; return x
    def prim():
        t=eat()
        if t=='(':
            r=bor(); eat(')'); return '('+r+')'
        if re.match(r'\d+$',t): return t
        if peek()=='(':
            eat('('); args=[bor()]
            while peek()==',': eat(','); args.append(bor())
            eat(')'); return '('+t+' '+' '.join(args)+')'
        return t
    def shift():
        l=prim()
        while peek() in ('>>','<<'):
            o=eat(); r=prim(); l='('+l+(' >>> ' if o=='>>' else ' <<< ')+r+')'
        return l
    def add():
        l=shift()
        while peek() in ('+','-'): o=eat(); l='('+l+' '+o+' '+shift()+')'
        return l
    def band():
        l=add()
        while peek()=='&': eat(); l='('+l+' &&& '+add()+')'
        return l
    def bxor():
        l=band()
        while peek()=='^': eat(); l='('+l+' ^^^ '+band()+')'
        return l
    def bor():
        l=bxor()
        while peek()=='|': eat(); l='('+l+' ||| '+bxor()+')'
        return l
    r=bor(); assert pos[0]==len(toks),toks[pos[0]:]; return r
out.append('def rotrFixed (x n : UInt32) : UInt32 := '+cexpr(re.search(r'#define rotrFixed\(x,\s*n\) (.*)',shamac).group(1).replace('(x)','x').replace('(n)','n'))+'\n')
for name in ['S0','S1','s0','s1','Ch','Maj']:
    params,body=macro(name); out.append(f'def sha{name} ({" ".join(p.strip() for p in params)} : UInt32) : UInt32 := {cexpr(body)}\n')
# --- base64 decode table, hex alphabet, case maps
st=open(f'{REPO}/src/String.cpp').read()
b=re.search(r'base64de\[\]\s*=\s*\{(.*?)\};',st,re.S).group(1)
B=[int(x) for x in re.findall(r'\b\d+\b',strip_comments(b))]
out.append(f'def base64de : List Nat := {B}  -- {len(B)} entries\n')
hexs=re.search(r'const char\* hex = "([^"]*)";',st).group(1); out.append(f'def hexDigits : List Nat := {[ord(c) for c in hexs]}\n')
for nm in ['lowerCaseMap','upperCaseMap']:
    lit=re.search(nm+r'\[0x101\]\s*=\s*"([^"]*)";',st).group(1); vals=[int(x,16) for x in re.findall(r'\\x([0-9a-fA-F]{2})',lit)]; assert len(vals)==256; out.append(f'def {nm} : List Nat := {vals}\n')
# --- utf8Offsets
un=open(f'{REPO}/include/nstd/Unicode.hpp').read()
offs=[int(x,16) for x in re.findall(r'0x[0-9A-Fa-f]+|(?<![\w])0(?=UL)',re.search(r'utf8Offsets\[\]\s*=\s*\{(.*?)\}',un).group(1).replace('0UL','0x0UL'))]
out.append(f'def utf8Offsets : List Nat := {offs}\n')
out.append('end Nstd.Generated\n')
open('/tmp/exp/Generated.lean','w').write(''.join(out))
print(''.join(out)[:1800])
