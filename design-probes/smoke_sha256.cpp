#include <nstd/Crypto/Sha256.hpp>
#include <stdio.h>
#include <stdlib.h>
#include <string.h>
int main(){
  static byte msg[400]; for(int i=0;i<400;++i) msg[i]=(byte)(i*131+7);
  for(int n=0;n<=300;++n) for(int s=0;s<=n;s+= (n<70?1:7)){
    Sha256 h; h.update(msg,s); h.update(msg+s,n-s); byte d[32]; h.finalize(d);
    printf("%d %d ",n,s); for(int i=0;i<32;++i) printf("%02x",d[i]); printf("\n");
  }
  for(int kl=0;kl<=200;kl+=1){ byte d[32]; Sha256::hmac(msg,kl,msg+50,kl%97,d); printf("h %d ",kl); for(int i=0;i<32;++i) printf("%02x",d[i]); printf("\n"); }
  return 0;
}
