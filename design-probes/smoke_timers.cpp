#include <nstd/Socket/Server.hpp>
#include <stdio.h>
#include <stdlib.h>
#include <string.h>
#include <time.h>
#include <unistd.h>
#include <sys/syscall.h>
#include <sys/epoll.h>
static unsigned long long rs=0x9E3779B97F4A7C15ULL; static unsigned rnd(){ rs^=rs<<13; rs^=rs>>7; rs^=rs<<17; return (unsigned)(rs>>11);} 
static long long vnow=1000; static int virt=0; static long advances=0;
extern "C" int clock_gettime(clockid_t id, struct timespec* ts){ if(virt && id==CLOCK_MONOTONIC){ ts->tv_sec=vnow/1000; ts->tv_nsec=(vnow%1000)*1000000; return 0;} return syscall(SYS_clock_gettime,id,ts); }
extern "C" int epoll_wait(int fd, struct epoll_event* ev, int max, int timeout){ int r=syscall(SYS_epoll_wait,fd,ev,max,0); if(r!=0||!virt) return r; if(timeout<0){ printf("would block forever\n"); _exit(4);} vnow+=timeout; ++advances; return 0; }
enum { NT=10, MAXINV=6, MAXACT=3, CAP=40 };
struct Act { int kind; int t; int interval; }; // 0 create(t,interval) 1 remove(t) 
static Act script[NT][MAXINV][MAXACT]; static int scriptLen[NT][MAXINV];
static Act top[8]; static int topLen;
static int logI[256]; static int logIn; static long long logIt[256];
static int logR[256]; static int logRn; static long long logRt[256];
// impl
static Server* srv; struct Cb; static Server::Timer* tim[NT]; static int inv[NT]; static bool stopReq;
static void doAct(const Act&a);
struct Cb : public Server::Timer::ICallback { int id; void onActivated(){ int t=id; if(logIn<256){logI[logIn]=t;logIt[logIn]=vnow;++logIn;} if(logIn>=CAP&&!stopReq){stopReq=true; srv->interrupt();} int k=inv[t]++; if(k<MAXINV) for(int i=0;i<scriptLen[t][k];++i) doAct(script[t][k][i]); } };
static Cb cbs[NT];
static void doAct(const Act&a){ if(a.kind==0){ if(!tim[a.t]) tim[a.t]=srv->time(a.interval,cbs[a.t]); } else { if(tim[a.t]){ srv->remove(*tim[a.t]); tim[a.t]=0; } } }
// ref
struct RT { bool alive; long long due; long long seq; int interval; }; static RT rt[NT]; static long long seqc; static int rinv[NT]; static long long rnow; static bool rstop;
static void rAct(const Act&a){ if(a.kind==0){ if(!rt[a.t].alive){ rt[a.t].alive=true; rt[a.t].due=rnow+a.interval; rt[a.t].seq=seqc++; rt[a.t].interval=a.interval; } } else rt[a.t].alive=false; }
static int rFront(){ int b=-1; for(int i=0;i<NT;++i) if(rt[i].alive&&(b<0||rt[i].due<rt[b].due||(rt[i].due==rt[b].due&&rt[i].seq<rt[b].seq))) b=i; return b; }
static void rRun(){ for(int guard=0;guard<100000;++guard){ long long now=rnow; for(;;){ int f=rFront(); if(f<0||rt[f].due>now) break; rt[f].due+=rt[f].interval; rt[f].seq=seqc++; if(logRn<256){logR[logRn]=f;logRt[logRn]=rnow;++logRn;} if(logRn>=CAP) rstop=true; int k=rinv[f]++; if(k<MAXINV) for(int i=0;i<scriptLen[f][k];++i) rAct(script[f][k][i]); }
    if(rstop) return; int f=rFront(); if(f<0){ return; } rnow=rt[f].due>rnow?rt[f].due:rnow; } }
int main(int argc,char**argv){ rs^=(unsigned long long)atoi(argv[1])*0x2545F4914F6CDD1DULL; long bad=0, rounds=0, eqdue=0;
  for(int i=0;i<NT;++i) cbs[i].id=i;
  for(long round=0;round<20000&&bad<3;++round){
    for(int t=0;t<NT;++t)for(int k=0;k<MAXINV;++k){ int n=rnd()%3==0?1+rnd()%MAXACT:0; scriptLen[t][k]=n; for(int i=0;i<n;++i){ script[t][k][i].kind=rnd()%2; script[t][k][i].t=rnd()%NT; script[t][k][i].interval=1+rnd()%3; } }
    topLen=3+rnd()%6; for(int i=0;i<topLen;++i){ top[i].kind= i<3?0:rnd()%2; top[i].t=rnd()%NT; top[i].interval=1+rnd()%3; }
    // make sure something keeps running: timer 0 always created with interval 1
    top[0].kind=0; top[0].t=0; top[0].interval=1;
    // ref first (to know whether it terminates by cap or by running out of timers)
    memset(rt,0,sizeof(rt)); seqc=0; memset(rinv,0,sizeof(rinv)); rnow=1000; rstop=false; logRn=0; for(int i=0;i<topLen;++i) rAct(top[i]); rRun();
    if(!rstop) continue; // would never return from run(): skip
    ++rounds;
    Server server; srv=&server; memset(tim,0,sizeof(tim)); memset(inv,0,sizeof(inv)); logIn=0; stopReq=false; vnow=1000; virt=1;
    for(int i=0;i<topLen;++i) doAct(top[i]); server.run(); virt=0;
    bool same=logIn==logRn; for(int i=0;same&&i<logIn;++i) if(logI[i]!=logR[i]||logIt[i]!=logRt[i]) same=false;
    if(!same){ ++bad; printf("TIMER LOG MISMATCH round %ld\n impl: ",round); for(int i=0;i<logIn;++i) printf("t%d@%lld ",logI[i],logIt[i]); printf("\n ref : "); for(int i=0;i<logRn;++i) printf("t%d@%lld ",logR[i],logRt[i]); printf("\n top: "); for(int i=0;i<topLen;++i) printf("%s(t%d,%d) ",top[i].kind?"rm":"mk",top[i].t,top[i].interval); printf("\n"); for(int t=0;t<NT;++t)for(int k=0;k<MAXINV;++k) if(scriptLen[t][k]){ printf("  t%d#%d: ",t,k); for(int i=0;i<scriptLen[t][k];++i) printf("%s(t%d,%d) ",script[t][k][i].kind?"rm":"mk",script[t][k][i].t,script[t][k][i].interval); printf("\n"); } }
  }
  printf("timers bad=%ld rounds=%ld advances=%ld\n",bad,rounds,advances); return bad?1:0; }
