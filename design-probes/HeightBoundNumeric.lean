import Mathlib.Tactic.Ring
import Mathlib.Tactic.Linarith
/-! Feasibility probe: the pure-Nat form of "h ≤ 1.4405·log2(n+2)" for AVL trees.
    h ≤ 1.4405·log2(n+2)  ⇔  2^(10000·h) ≤ (n+2)^14405.  -/
set_option exponentiation.threshold 20000 in
theorem num_fact : 2^10000 * 500^14405 ≤ 809^14405 := by decide +kernel

def fib : Nat → Nat
  | 0 => 0
  | 1 => 1
  | n+2 => fib (n+1) + fib n

/-- fib(h+2) ≥ 1.618^h, stated without fractions -/
theorem fib_lower (h : Nat) : 809^h ≤ 500^h * fib (h+2) := by
  induction h using Nat.strongRecOn with
  | _ h ih =>
    match h with
    | 0 => simp [fib]
    | 1 => simp [fib]
    | h+2 =>
      have h1 := ih (h+1) (by omega)
      have h0 := ih h (by omega)
      have e : fib (h+2+2) = fib (h+1+2) + fib (h+2) := by simp [fib]
      rw [e]
      generalize fib (h+1+2) = F1 at *
      generalize fib (h+2) = F0 at *
      have p2 : 809^(h+2) = 654481 * 809^h := by ring
      have p1 : 809^(h+1) = 809 * 809^h := by ring
      have q2 : 500^(h+2) * (F1 + F0) = 500 * (500^(h+1) * F1) + 250000 * (500^h * F0) := by ring
      rw [p2, q2]
      rw [p1] at h1
      generalize 500^(h+1) * F1 = A at *
      generalize 500^h * F0 = B at *
      generalize 809^h = C at *
      omega
#print axioms fib_lower
#print axioms num_fact
