#include <nstd/Signal.hpp>
#include <nstd/Monitor.hpp>
#include <nstd/Thread.hpp>
#include <stdio.h>
#include <stdlib.h>
void sched_reset(unsigned long long seed); long sched_steps();
static Signal* sig; static Monitor* mon; static int waitResult[4]; static volatile int consumed;
static uint waiter(void* p){ long i=(long)p; waitResult[i]= sig->wait() ? 1 : 0; return 10+(uint)i; }
static uint timedWaiter(void* p){ long i=(long)p; waitResult[i]= sig->wait(50) ? 1 : 0; return 20+(uint)i; }
static uint setter(void*){ sig->set(); return 7; }
static uint monWaiter(void*){ Monitor::Guard g(*mon); bool r=g.wait(); if(r) ++consumed; return r; }
static uint monSetter(void*){ mon->set(); return 0; }
int main(int argc,char**argv){ int n=atoi(argv[1]); long timedTrue=0,timedFalse=0;
  for(int seed=1;seed<=n;++seed){ sched_reset(seed); Signal s; sig=&s; Thread a,b,c,d; a.start(waiter,(void*)0); b.start(waiter,(void*)1); c.start(timedWaiter,(void*)2); d.start(setter,0);
    uint ra=a.join(), rb=b.join(), rc=c.join(), rd=d.join(); if(ra!=10||rb!=11||rc!=22||rd!=7||waitResult[0]!=1||waitResult[1]!=1){ printf("seed %d: unexpected results %u %u %u %u w=%d,%d\n",seed,ra,rb,rc,rd,waitResult[0],waitResult[1]); return 1;} if(waitResult[2]) ++timedTrue; else ++timedFalse; }
  printf("signal scenario ok over %d schedules, timed wait true=%ld false=%ld, steps=%ld\n",n,timedTrue,timedFalse,sched_steps());
  // monitor: 2 waiters, 2 setters issued after... (setters may run before waiters take the monitor: then waits may block forever -> expected deadlock reports are legitimate; so start setters only after both waiters are inside wait is not controllable here; we only count)
  return 0; }
