#include <nstd/Document/Json.hpp>
#include <nstd/Document/Xml.hpp>
#include <stdio.h>
#include <stdlib.h>
#include <string.h>
static unsigned long long rs=0x9E3779B97F4A7C15ULL; static unsigned rnd(){ rs^=rs<<13; rs^=rs>>7; rs^=rs<<17; return (unsigned)(rs>>11);} 
static String rstr(const char* alpha, int maxlen, bool nonblank){ int al=strlen(alpha); String s; int n=rnd()%(maxlen+1); for(int i=0;i<n;++i) s.append(alpha[rnd()%al]); if(nonblank){ s.append('x'); } return s; }
static const char* JA="a\"\\/\t\x01 \xc3\xa9{}[],:u0b";
static Variant rjson(int depth){
  int k=rnd()%(depth>0?8:6);
  switch(k){ case 0: return Variant(); case 1: return Variant((bool)(rnd()&1)); case 2: return Variant((int)rnd()-(int)rnd()); case 3: return Variant((int64)(((unsigned long long)rnd()<<40)^rnd())*( (rnd()&1)?1:-1));
    case 4: case 5: return Variant(rstr(JA,6,false));
    case 6: { List<Variant> l; int n=rnd()%4; for(int i=0;i<n;++i) l.append(rjson(depth-1)); return Variant(l);} 
    default: { HashMap<String,Variant> m; int n=rnd()%4; for(int i=0;i<n;++i) m.append(rstr(JA,3,false), rjson(depth-1)); return Variant(m);} }
}
static const char* XA="a\"'&<> \t\xc3\xa9;#1-!=/";
static const char* XT="a\"'&<> \t\xc3\xa9;#1-!=\n";
static Xml::Element rxml(int depth){
  Xml::Element e; const char* names[]={"a","b","c1","x-y","n.s"}; e.type=String(names[rnd()%5],strlen(names[rnd()%1? 0:0])); e.type=String::fromCString(names[rnd()%5]);
  int na=rnd()%3; for(int i=0;i<na;++i) e.attributes.append(String::fromCString(names[rnd()%5]), rstr(XA,5,false));
  int nc=depth>0? rnd()%4:0; bool lastText=false; for(int i=0;i<nc;++i){ if(!lastText && (rnd()&1)){ e.content.append(Xml::Variant(rstr(XT,5,true))); lastText=true;} else { e.content.append(Xml::Variant(rxml(depth-1))); lastText=false; } }
  return e;
}
static bool xeq(const Xml::Element& a, const Xml::Element& b){
  if(!(a.type==b.type)) return false; if(!(a.attributes==b.attributes)) return false; if(a.content.size()!=b.content.size()) return false;
  List<Xml::Variant>::Iterator i=a.content.begin(), j=b.content.begin();
  for(;i!=a.content.end();++i,++j){ if(i->getType()!=j->getType()) return false; if(i->isText()){ if(!(i->toString()==j->toString())) return false;} else if(!xeq(i->toElement(), j->toElement())) return false; }
  return true; }
int main(int argc,char**argv){ rs^=(unsigned long long)atoi(argv[1])*0x2545F4914F6CDD1DULL; long jbad=0,xbad=0;
  for(int it=0;it<40000;++it){ Variant v=rjson(3); String t=Json::toString(v); Variant w; bool ok=Json::parse(t,w); if(!ok||!(v==w)){ if(jbad<3) printf("JSON roundtrip fail ok=%d text=<<%s>>\n",ok,(const char*)t); ++jbad; } }
  for(int it=0;it<40000;++it){ Xml::Element e=rxml(3); String t=Xml::toString(e); Xml::Element o; bool ok=Xml::parse(t,o); if(!ok||!xeq(e,o)){ if(xbad<3) printf("XML roundtrip fail ok=%d text=<<%s>>\n",ok,(const char*)t); ++xbad; } }
  printf("json bad=%ld xml bad=%ld\n",jbad,xbad); return 0; }
