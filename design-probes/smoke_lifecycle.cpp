#include <nstd/List.hpp>
#include <nstd/Array.hpp>
#include <nstd/Map.hpp>
#include <nstd/MultiMap.hpp>
#include <nstd/HashMap.hpp>
#include <nstd/HashSet.hpp>
#include <nstd/PoolList.hpp>
#include <nstd/PoolMap.hpp>
#include <stdio.h>
#include <stdlib.h>
#include <string.h>
static unsigned long long rs=0x9E3779B97F4A7C15ULL; static unsigned rnd(){ rs^=rs<<13; rs^=rs>>7; rs^=rs<<17; return (unsigned)(rs>>11);} 
static long liveCount=0, ctor=0, dtor=0, bad=0;
struct T { int v; int* cell; unsigned magic;
  T():v(0),cell((int*)malloc(4)),magic(0xA11CE){++liveCount;++ctor;}
  T(int v):v(v),cell((int*)malloc(4)),magic(0xA11CE){++liveCount;++ctor;}
  T(const T& o):v(o.v),cell((int*)malloc(4)),magic(0xA11CE){ if(o.magic!=0xA11CE){printf("copy from dead\n");++bad;} ++liveCount;++ctor;}
  T& operator=(const T& o){ if(magic!=0xA11CE||o.magic!=0xA11CE){printf("assign dead\n");++bad;} v=o.v; return *this;}
  ~T(){ if(magic!=0xA11CE){printf("double destroy\n");++bad;} magic=0xDEAD; free(cell); --liveCount; ++dtor;}
  bool operator==(const T&o)const{return v==o.v;} bool operator!=(const T&o)const{return v!=o.v;} bool operator<(const T&o)const{return v<o.v;} bool operator>(const T&o)const{return v>o.v;} bool operator<=(const T&o)const{return v<=o.v;} bool operator>=(const T&o)const{return v>=o.v;} };
usize hash(const T& t){ return (usize)t.v; }
struct V2 { T t; };
template<class C> static int count(const C& c){ int n=0; for(typename C::Iterator i=c.begin();i!=c.end();++i)++n; return n; }
int main(int argc,char**argv){ rs^=(unsigned long long)atoi(argv[1])*0x2545F4914F6CDD1DULL;
  for(int round=0;round<1500&&bad<5;++round){
    { List<T> l, l2; Array<T> a, a2; Map<T,T> m, m2; MultiMap<T,T> mm; HashMap<T,T> h(3), h2(3); HashSet<T> hs(2), hs2(2); PoolList<T> pl, pl2; PoolMap<T,V2> pm(2), pm2(2);
      // address stability tracking for one element per node container
      T* lp=0; int lpv=0; T* mp=0; int mpk=0; T* hp=0; int hpk=0; T* plp=0; int plv=0;
      for(int step=0;step<150&&bad<5;++step){ int op=rnd()%40; int k=rnd()%12; int val=rnd()%1000;
        switch(op){
        case 0: { T& r=l.append(T(val)); if(!lp){lp=&r;lpv=val;} } break; case 1: l.prepend(T(val)); break;
        case 2: if(l.size()){ int pos=rnd()%l.size(); List<T>::Iterator it=l.begin(); for(int i=0;i<pos;++i)++it; if(&*it==lp) lp=0; l.remove(it);} break;
        case 3: if(l.size()>1){ int pos=rnd()%l.size(); List<T>::Iterator it=l.begin(); for(int i=0;i<pos;++i)++it; l.insert(it,T(val)); } break;
        case 4: l2=l; break; case 5: l.swap(l2); lp=0; break; case 6: if(rnd()%6==0){l.clear(); lp=0;} break; case 7: { T x(k); List<T>::Iterator f=l.find(x); if(f!=l.end()&&&*f==lp) lp=0; l.remove(x);} break;
        case 8: a.append(T(val)); break; case 9: if(a.size()) a.remove((usize)(rnd()%a.size())); break; case 10: a.resize(rnd()%10, T(val)); break; case 11: a2=a; break; case 12: a.swap(a2); break; case 13: a.reserve(rnd()%30); break; case 14: if(rnd()%6==0)a.clear(); break; case 15: a.append(a2); break;
        case 16: { Map<T,T>::Iterator it=m.insert(T(k),T(val)); if(!mp){mp=&*it;mpk=k;} } break; case 17: if(mp&&mpk==k) mp=0; m.remove(T(k)); break; case 18: if(m.size()){ if(rnd()&1){ if(mp&&&*m.begin()==mp) mp=0; m.removeFront(); } else { Map<T,T>::Iterator e=m.end(); --e; if(&*e==mp) mp=0; m.removeBack(); } } break; case 19: m2=m; break; case 20: m2.insert(m); break; case 21: if(rnd()%6==0){m.clear(); mp=0;} break;
        case 22: mm.insert(T(k),T(val)); break; case 23: mm.remove(T(k)); break; case 24: if(mm.size()){ int pos=rnd()%mm.size(); MultiMap<T,T>::Iterator it=mm.begin(); for(int i=0;i<pos;++i)++it; mm.remove(it);} break; case 25: if(mm.size()){ int pos=rnd()%(mm.size()+1); MultiMap<T,T>::Iterator it=mm.begin(); for(int i=0;i<pos;++i)++it; mm.insert(it,T(k),T(val)); } break;
        case 26: { T& r=h.append(T(k),T(val)); if(!hp){hp=&r;hpk=k;} } break; case 27: if(hp&&hpk==k) hp=0; h.remove(T(k)); break; case 28: h2=h; break; case 29: h.swap(h2); hp=0; break; case 30: if(rnd()%6==0){h.clear(); hp=0;} break;
        case 31: hs.append(T(k)); break; case 32: hs.remove(T(k)); break; case 33: hs2.append(hs); break; case 34: hs.remove(hs2); break; case 35: hs.swap(hs2); break;
        case 36: { T& r=pl.append(val); if(!plp){plp=&r;plv=val;} } break; case 37: if(pl.size()){ int pos=rnd()%pl.size(); PoolList<T>::Iterator it=pl.begin(); for(int i=0;i<pos;++i)++it; if(&*it==plp) plp=0; pl.remove(it);} break;
        case 38: pm.append(T(k)); break; case 39: pm.remove(T(k)); break; }
        // stability checks
        if(lp){ bool found=false; for(List<T>::Iterator i=l.begin();i!=l.end();++i) if(&*i==lp){found=true; if(i->v!=lpv){printf("list elem changed\n");++bad;}} if(!found){printf("list elem moved op=%d\n",op);++bad; lp=0;} }
        if(mp){ Map<T,T>::Iterator f=m.find(T(mpk)); if(f==m.end()||&*f!=mp){ printf("map elem moved op=%d\n",op);++bad; mp=0;} }
        if(hp){ HashMap<T,T>::Iterator f=h.find(T(hpk)); if(f==h.end()||&*f!=hp){ printf("hashmap elem moved op=%d\n",op);++bad; hp=0;} }
        if(plp){ bool found=false; for(PoolList<T>::Iterator i=pl.begin();i!=pl.end();++i) if(&*i==plp) found=true; if(!found){printf("poollist elem moved\n");++bad; plp=0;} }
        long expectLive = l.size()+l2.size()+a.size()+a2.size()+2*(m.size()+m2.size()+mm.size()+h.size()+h2.size()+pm.size()+pm2.size())+hs.size()+hs2.size()+pl.size()+pl2.size();
        // sentinel items (endItem) hold default-constructed T: List 1 each, Map 2 each(key+value), MultiMap 2, HashMap 2 each, HashSet 1 each, PoolMap 2 each; PoolList none; Array none
        long sentinels = 2*1 + 2*2 + 2 + 2*2 + 2*1 + 2*2;
        if(liveCount!=expectLive+sentinels){ printf("live count mismatch after op %d: live=%ld expect=%ld\n",op,liveCount,expectLive+sentinels); ++bad; }
      }
    }
    if(liveCount!=0){ printf("leak or over-destroy at scope end: live=%ld\n",liveCount); ++bad; liveCount=0; }
  }
  printf("lifecycle bad=%ld ctor=%ld dtor=%ld\n",bad,ctor,dtor); return bad?1:0; }
