import Generated
open Nstd.Generated
-- the generated tables are re-checked against the standards on every run
def b64alphabet : List Nat := "ABCDEFGHIJKLMNOPQRSTUVWXYZabcdefghijklmnopqrstuvwxyz0123456789+/".toList.map Char.toNat
theorem base64_table_inverts : ∀ i, i < 64 → base64de.getD (b64alphabet.getD i 0) 255 = i := by decide +kernel
theorem base64_table_len : base64de.length = 123 := by decide +kernel
theorem base64_others_invalid : ∀ c, c < 123 → c ∉ b64alphabet → base64de.getD c 0 = 255 := by decide +kernel
theorem lower_map : ∀ c, c < 256 → lowerCaseMap.getD c 0 = (if 65 ≤ c ∧ c ≤ 90 then c + 32 else c) := by decide +kernel
theorem upper_map : ∀ c, c < 256 → upperCaseMap.getD c 0 = (if 97 ≤ c ∧ c ≤ 122 then c - 32 else c) := by decide +kernel
theorem k_first : shaK.getD 0 0 = 0x428a2f98 ∧ shaK.length = 64 := by decide +kernel
#eval shaS0 0x12345678
#print axioms lower_map
