# Worker side: enqueued FastSignal. Producers: push (assume never full) then set (tas; maybe _signal.set). Workers: pop / reset / pop / wait.
from collections import deque
import sys
NP=int(sys.argv[1]); JOBS=int(sys.argv[2]); NW=int(sys.argv[3])
# worker pcs: 0 pop1, 1 reset.swap, 2 reset.sigreset, 3 pop2, 4 wait.load, 5 blocked ; (running a job = instantaneous)
# producer pcs: 0 push, 1 set.tas, 2 set.sigset
init=(0,0,0,tuple((0,JOBS) for _ in range(NP)),tuple(0 for _ in range(NW)),0)
def succ(s):
    q,st,sig,ps,ws,done=s
    out=[]
    for i,(pc,todo) in enumerate(ps):
        def upd(npc,ntodo=todo,q=q,st=st,sig=sig):
            nps=list(ps); nps[i]=(npc,ntodo); return (q,st,sig,tuple(nps),ws,done)
        if pc==0:
            if todo>0: out.append(('P%d push'%i, upd(1,todo-1,q=q+1)))
        elif pc==1:
            if st==0: out.append(('P%d set tas 0->1'%i, upd(2,st=1)))
            else: out.append(('P%d set tas already1'%i, upd(0,st=1)))
        elif pc==2: out.append(('P%d _signal.set'%i, upd(0,sig=1)))
    for j,pc in enumerate(ws):
        def wupd(npc,q=q,st=st,sig=sig,done=done):
            nws=list(ws); nws[j]=npc; return (q,st,sig,ps,tuple(nws),done)
        if pc==0:
            if q>0: out.append(('W%d pop ok'%j, wupd(0,q=q-1,done=done+1)))
            else: out.append(('W%d pop empty'%j, wupd(1)))
        elif pc==1:
            if st==1: out.append(('W%d reset swap->1'%j, wupd(2,st=0)))
            else: out.append(('W%d reset swap->0'%j, wupd(3,st=0)))
        elif pc==2: out.append(('W%d _signal.reset'%j, wupd(3,sig=0)))
        elif pc==3:
            if q>0: out.append(('W%d pop2 ok'%j, wupd(0,q=q-1,done=done+1)))
            else: out.append(('W%d pop2 empty'%j, wupd(4)))
        elif pc==4:
            if st==1: out.append(('W%d wait ret'%j, wupd(0)))
            else: out.append(('W%d wait block'%j, wupd(5)))
        elif pc==5:
            if sig==1: out.append(('W%d woken'%j, wupd(0)))
    return out
seen={init:None}; dq=deque([init]); bad=None
while dq:
    s=dq.popleft(); sc=succ(s)
    if not sc and s[0]>0: bad=s; break
    for lab,n in sc:
        if n not in seen: seen[n]=(s,lab); dq.append(n)
print('states',len(seen))
if bad:
    tr=[]; s=bad
    while seen[s]: p,lab=seen[s]; tr.append((lab,s)); s=p
    tr.reverse(); print('STUCK with job pending, trace %d steps'%len(tr))
    for lab,s in tr: print('  %-24s q=%d state=%d sig=%d prods=%s workers=%s done=%d'%((lab,)+s))
else: print('no stuck state with pending job')
