#include <nstd/MultiMap.hpp>
#include <nstd/Map.hpp>
#include <nstd/List.hpp>
#include <nstd/Array.hpp>
#include <nstd/HashMap.hpp>
#include <nstd/String.hpp>
#include <nstd/Buffer.hpp>
#include <nstd/RefCount.hpp>
#include <nstd/Process.hpp>
#include <nstd/File.hpp>
#include <nstd/Directory.hpp>
#include <nstd/Document/Json.hpp>
#include <cstdio>
#include <cstring>
#include <cstdlib>

int main(int argc, char** argv)
{
  int which = atoi(argv[1]);
  switch(which) {
  case 1: { // MultiMap::count
    MultiMap<int,int> m;
    for(int i=0;i<3;++i) m.insert(5,i);
    printf("count(5) with 3 inserted = %zu\n", (size_t)m.count(5));
    MultiMap<int,int> m2; m2.insert(-1,0); m2.insert(0,1);
    printf("count(0) with 1 inserted (0 is max) = %zu\n", (size_t)m2.count(0));
    break; }
  case 2: { // self assignment
    List<int> l; l.append(1); l.append(2); l = l; printf("List self-assign size=%zu\n",(size_t)l.size());
    Array<int> a; a.append(1); a.append(2); a = a; printf("Array self-assign size=%zu\n",(size_t)a.size());
    HashMap<int,int> h; h.append(1,1); h = h; printf("HashMap self-assign size=%zu\n",(size_t)h.size());
    Map<int,int> mp; mp.insert(1,1); mp = mp; printf("Map self-assign size=%zu\n",(size_t)mp.size());
    break; }
  case 3: { // Array append alias
    Array<String> a; for(int i=0;i<4;++i) a.append(String("x")+String::fromInt(i));
    a.append(a[0]); printf("appended=%s\n", (const char*)a[4]);
    break; }
  case 4: { // String prepend self
    String s("abc"); s = s + "d"; s.prepend(s); printf("prepend self: len=%zu '%s'\n",(size_t)s.length(), (const char*)s);
    break; }
  case 5: { // fromBase64 high byte
    char* buf = (char*)malloc(4); memcpy(buf, "\xff\xff\xff\xff", 4);
    String in; in.attach(buf, 4);
    String in2(buf,4);
    String r = String::fromBase64(in2); printf("b64 len=%zu\n",(size_t)r.length());
    break; }
  case 6: { // Buffer prepend terminator, removeFront terminator
    Buffer b; b.append((const byte*)"\xaa\xaa\xaa\xaa\xaa\xaa\xaa\xaa",8); b.removeFront(8);
    printf("after removeFront all: size=%zu byte-after-end=%d\n",(size_t)b.size(), ((const byte*)b)[0]);
    break; }
  case 7: { // Buffer attach + resize smaller
    byte mem[10]; memset(mem,'x',10); Buffer b; b.attach(mem,10); b.resize(5); printf("size=%zu\n",(size_t)b.size());
    break; }
  case 8: { // RefCount swap
    struct O: public RefCount::Object { int v; O(int v):v(v){} ~O(){ printf("~O(%d)\n",v);} };
    RefCount::Ptr<O> a(new O(1)), b(new O(2)); a.swap(b); a = RefCount::Ptr<O>(); printf("b->v=%d\n", b->v);
    break; }
  case 9: { // Arguments cluster
    static const Process::Option options[] = {{'a',"alpha",Process::optionFlag},{'b',"beta",Process::optionFlag},{'o',"out",Process::argumentFlag}};
    char* av[] = {(char*)"prog",(char*)"-ab",(char*)"-ofile",(char*)"x",0};
    Process::Arguments args(4, av, options);
    int c; String arg;
    while(args.read(c,arg)) printf("opt=%d(%c) arg='%s'\n", c, c>32?c:' ', (const char*)arg);
    break; }
  case 10: { // Json truncated escape
    const char* src = "\"\\"; size_t n = strlen(src)+1; char* heap=(char*)malloc(n); memcpy(heap,src,n);
    Variant v; bool ok = Json::parse(heap, v); printf("ok=%d\n",ok);
    break; }
  case 11: { // Json newline roundtrip
    Variant v(String("a\nb")); String t = Json::toString(v); Variant w; bool ok = Json::parse(t,w);
    printf("ok=%d equal=%d got='%s'\n", ok, (int)(v==w), (const char*)w.toString());
    printf("strip1='%s'\n", (const char*)Json::stripComments("/** x */1"));
    printf("strip2='%s'\n", (const char*)Json::stripComments("\"a\\nb // x\""));
    break; }
  case 12: { // paths
    printf("simplify('/a/..')='%s'\n", (const char*)File::simplifyPath("/a/.."));
    printf("rel('a','b')='%s'\n", (const char*)File::getRelativePath("a","b"));
    printf("rel('a/b','a')='%s'\n", (const char*)File::getRelativePath("a/b","a"));
    printf("stem('a.tar.gz')='%s' ext='%s'\n", (const char*)File::getStem("a.tar.gz"), (const char*)File::getExtension("a.tar.gz"));
    break; }
  case 13: { // Directory::create on file, rename placeholder
    system("rm -rf /tmp/exp/fs && mkdir -p /tmp/exp/fs && touch /tmp/exp/fs/file");
    printf("create(file)=%d\n", (int)Directory::create("/tmp/exp/fs/file"));
    printf("rename(nonexist)=%d\n", (int)File::rename("/tmp/exp/fs/nonexist","/tmp/exp/fs/new",true));
    system("ls /tmp/exp/fs");
    break; }
  }
  return 0;
}
