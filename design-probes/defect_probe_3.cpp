#include <nstd/MultiMap.hpp>
#include <nstd/List.hpp>
#include <nstd/Variant.hpp>
#include <nstd/Buffer.hpp>
#include <nstd/Socket/Server.hpp>
#include <nstd/Socket/Socket.hpp>
#include <cstdio>
#include <cstring>
#include <cstdlib>
int main(int argc, char** argv)
{
  int which = atoi(argv[1]);
  switch(which) {
  case 1: { MultiMap<int,int> a; a.insert(1,1); MultiMap<int,int> b(a); printf("copied size=%zu\n",(size_t)b.size()); break; }
  case 2: { List<Variant> l; l.append(Variant(String("inner"))); Variant v(l); v = v.toList().front(); printf("type=%d\n",(int)v.getType()); break; }
  case 3: { Buffer b; b.append((const byte*)"abcdef",6); b.removeFront(3); b = b; printf("self-assign ok size=%zu\n",(size_t)b.size()); break; }
  case 4: { // prepend terminator: poison allocations
    for(int i=0;i<50;++i){ char* p=(char*)malloc(5); memset(p,0x55,5); free(p);} 
    Buffer b; b.prepend((const byte*)"abcd",4); printf("byte after end=%d\n", ((const byte*)b)[4]); break; }
  }
  return 0;
}
