#include <stdio.h>
#include <stdlib.h>
#include <string.h>
#include <unistd.h>
extern char** environ;
int main(int argc,char**argv){ if(argc>1&&!strcmp(argv[1],"--cat")){ char buf[65536]; ssize_t n; size_t tot=0; while((n=read(0,buf,sizeof buf))>0){ tot+=n; size_t o=0; while(o<(size_t)n){ ssize_t w=write(1,buf+o,n-o); if(w<=0) return 3; o+=w; } } return 0; }
  if(argc>1&&!strcmp(argv[1],"--exit")) return atoi(argv[2]);
  printf("argc=%d\n",argc); for(int i=0;i<argc;++i) printf("arg[%d]=<%s>\n",i,argv[i]); for(char**e=environ;*e;++e) if(!strncmp(*e,"NV_",3)) printf("env %s\n",*e); fprintf(stderr,"to-stderr\n"); return 42; }
