/-! Feasibility probe: Unicode::append / Unicode::fromString (Unicode.hpp:27-126) on Nat-valued bytes with
    the bit operations of the source; round trip for every code point < 0x110000 proved by range lemmas
    (small-domain `decide` bridges + `omega`), not by enumeration. -/
namespace NstdCodecProbe

def enc (ch : Nat) : List Nat :=
  if ch < 0x80 then [ch]
  else if ch < 0x800 then [(ch >>> 6) ||| 0xC0, (ch &&& 0x3F) ||| 0x80]
  else if ch < 0x10000 then [(ch >>> 12) ||| 0xE0, ((ch >>> 6) &&& 0x3F) ||| 0x80, (ch &&& 0x3F) ||| 0x80]
  else if ch < 0x110000 then
    [(ch >>> 18) ||| 0xF0, ((ch >>> 12) &&& 0x3F) ||| 0x80, ((ch >>> 6) &&& 0x3F) ||| 0x80, (ch &&& 0x3F) ||| 0x80]
  else []

def len (b : Nat) : Nat :=
  if b &&& 0x80 = 0 then 1 else if b &&& 0xe0 = 0xc0 then 2 else if b &&& 0xf0 = 0xe0 then 3
  else if b &&& 0xf8 = 0xf0 then 4 else 0

/-- `fromString(ch, len)` with the switch fall-through and the `utf8Offsets` subtraction (mod 2^32) -/
def dec (l : List Nat) : Nat :=
  if l.length = 0 then 0
  else if l.getD 0 0 &&& 0x80 = 0 then l.getD 0 0
  else if l.length < len (l.getD 0 0) then 0
  else if len (l.getD 0 0) = 2 then
    (((l.getD 0 0 <<< 6) + l.getD 1 0) + 4294967296 - 0x3080) % 4294967296
  else if len (l.getD 0 0) = 3 then
    ((((l.getD 0 0 <<< 6) + l.getD 1 0) <<< 6) + l.getD 2 0 + 4294967296 - 0xE2080) % 4294967296
  else if len (l.getD 0 0) = 4 then
    ((((((l.getD 0 0 <<< 6) + l.getD 1 0) <<< 6) + l.getD 2 0) <<< 6) + l.getD 3 0 + 4294967296 - 0x3C82080) % 4294967296
  else l.getD 0 0

-- bridges from bit operations to arithmetic, each over a small finite domain
theorem or80 : ∀ x, x < 64 → x ||| 0x80 = x + 0x80 := by decide
theorem orC0 : ∀ x, x < 32 → x ||| 0xC0 = x + 0xC0 := by decide
theorem orE0 : ∀ x, x < 16 → x ||| 0xE0 = x + 0xE0 := by decide
theorem orF0 : ∀ x, x < 8 → x ||| 0xF0 = x + 0xF0 := by decide
theorem len2 : ∀ x, x < 32 → len (x + 0xC0) = 2 := by decide
theorem len3 : ∀ x, x < 16 → len (x + 0xE0) = 3 := by decide
theorem len4 : ∀ x, x < 8 → len (x + 0xF0) = 4 := by decide
theorem hi2 : ∀ x, x < 32 → (x + 0xC0) &&& 0x80 ≠ 0 := by decide
theorem hi3 : ∀ x, x < 16 → (x + 0xE0) &&& 0x80 ≠ 0 := by decide
theorem hi4 : ∀ x, x < 8 → (x + 0xF0) &&& 0x80 ≠ 0 := by decide
theorem lo7 : ∀ x, x < 128 → x &&& 0x80 = 0 := by decide

theorem and3F (x : Nat) : x &&& 0x3F = x % 64 := Nat.and_two_pow_sub_one_eq_mod x 6
theorem shr6 (x : Nat) : x >>> 6 = x / 64 := Nat.shiftRight_eq_div_pow x 6
theorem shr12 (x : Nat) : x >>> 12 = x / 4096 := Nat.shiftRight_eq_div_pow x 12
theorem shr18 (x : Nat) : x >>> 18 = x / 262144 := Nat.shiftRight_eq_div_pow x 18
theorem shl6 (x : Nat) : x <<< 6 = x * 64 := Nat.shiftLeft_eq x 6

theorem dec1 (b : Nat) (h : b &&& 0x80 = 0) : dec [b] = b := by simp [dec, h]
theorem dec2 (x b1 : Nat) (hx : x < 32) : dec [x + 0xC0, b1] = (((x + 0xC0) * 64 + b1) + 4294967296 - 0x3080) % 4294967296 := by
  simp [dec, hi2 x hx, len2 x hx, shl6]
theorem dec3 (x b1 b2 : Nat) (hx : x < 16) :
    dec [x + 0xE0, b1, b2] = ((((x + 0xE0) * 64 + b1) * 64 + b2) + 4294967296 - 0xE2080) % 4294967296 := by
  simp [dec, hi3 x hx, len3 x hx, shl6]
theorem dec4 (x b1 b2 b3 : Nat) (hx : x < 8) :
    dec [x + 0xF0, b1, b2, b3] = ((((((x + 0xF0) * 64 + b1) * 64 + b2) * 64 + b3)) + 4294967296 - 0x3C82080) % 4294967296 := by
  simp [dec, hi4 x hx, len4 x hx, shl6]

theorem utf8_roundtrip (cp : Nat) (h : cp < 0x110000) : dec (enc cp) = cp := by
  unfold enc
  by_cases h1 : cp < 0x80
  · rw [if_pos h1]; exact dec1 cp (lo7 cp h1)
  · rw [if_neg h1]
    by_cases h2 : cp < 0x800
    · rw [if_pos h2, and3F, shr6]
      have a : cp / 64 < 32 := by omega
      have b : cp % 64 < 64 := by omega
      rw [orC0 _ a, or80 _ b, dec2 _ _ a]
      omega
    · rw [if_neg h2]
      by_cases h3 : cp < 0x10000
      · rw [if_pos h3, and3F, and3F, shr6, shr12]
        have a : cp / 4096 < 16 := by omega
        have b : cp / 64 % 64 < 64 := by omega
        have c : cp % 64 < 64 := by omega
        rw [orE0 _ a, or80 _ b, or80 _ c, dec3 _ _ _ a]
        omega
      · rw [if_neg h3, if_pos h, and3F, and3F, and3F, shr6, shr12, shr18]
        have a : cp / 262144 < 8 := by omega
        have b : cp / 4096 % 64 < 64 := by omega
        have c : cp / 64 % 64 < 64 := by omega
        have d : cp % 64 < 64 := by omega
        rw [orF0 _ a, or80 _ b, or80 _ c, or80 _ d, dec4 _ _ _ _ a]
        omega

end NstdCodecProbe
