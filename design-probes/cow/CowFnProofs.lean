import Cow.Fn
namespace CowFn

/-- a block with exactly one handle, held by `v`, is not referenced by any other variable -/
theorem sole_handle (s : St) (v w b : Nat) (hv : v < s.n) (hw : w < s.n) (hvw : w ≠ v)
    (h1 : s.vars v = some b) (h2 : s.vars w = some b) : 2 ≤ handles s b := by
  have a := handlesOf_upd s.n s.vars v none b hv
  have c := handlesOf_upd s.n (upd s.vars v none) w none b hw
  simp only [h1, if_true] at a
  have : (upd s.vars v none) w = some b := by rw [upd_other _ _ _ _ hvw]; exact h2
  simp only [this, if_true] at c
  simp only [reduceCtorEq, if_false, Nat.add_zero] at a c
  simp only [handles] at *
  omega

theorem inv_clear (s : St) (v : Nat) (h : Inv s) : Inv (step s (.clear v)) := by
  simp only [step]
  by_cases hv : v < s.n
  case neg => simp only [hv, if_false]; exact h
  simp only [hv, if_true]
  cases hvb : s.vars v with
  | none =>
    have hrel : release s v = s := by simp [release, hvb]
    rw [hrel]
    constructor
    · intro w b hw hwb
      dsimp only at *
      by_cases e : w = v
      · subst e; simp at hwb
      · rw [upd_other _ _ _ _ e] at hwb; exact h.live w b hw hwb
    · intro b blk hb
      dsimp only at *
      have := h.cnt b blk hb
      have hu := handlesOf_upd s.n s.vars v none b hv
      simp only [hvb, reduceCtorEq, if_false, Nat.add_zero] at hu
      simp only [handles] at *
      omega
    · exact h.fresh
    · intro w b hwb
      dsimp only at *
      by_cases e : w = v
      · subst e; simp at hwb
      · rw [upd_other _ _ _ _ e] at hwb; exact h.bound w b hwb
  | some b0 =>
    obtain ⟨blk0, hblk0⟩ := h.live v b0 hv hvb
    obtain ⟨r0, p0⟩ := h.cnt b0 blk0 hblk0
    by_cases hr : blk0.ref = 1
    · have hrel : release s v = { s with heap := upd s.heap b0 none } := by simp [release, hvb, hblk0, hr]
      rw [hrel]
      constructor
      · intro w b hw hwb
        dsimp only at *
        by_cases e : w = v
        · subst e; simp at hwb
        · rw [upd_other _ _ _ _ e] at hwb
          have hne : b ≠ b0 := by
            intro eb; subst eb
            have := sole_handle s v w b hv hw e hvb hwb
            simp only [handles] at *
            omega
          obtain ⟨blk, hblk⟩ := h.live w b hw hwb
          exact ⟨blk, by simp [upd_other _ _ _ _ hne, hblk]⟩
      · intro b blk hb
        dsimp only at *
        by_cases eb : b = b0
        · subst eb; simp at hb
        · simp only [upd_other _ _ _ _ eb] at hb
          have := h.cnt b blk hb
          have hu := handlesOf_upd s.n s.vars v none b hv
          have hne : ¬ (s.vars v = some b) := by rw [hvb]; intro e; injection e with e; exact eb e.symm
          simp [hne] at hu
          simp only [handles] at *
          omega
      · intro b hb
        dsimp only at *
        by_cases eb : b = b0
        · subst eb; simp
        · simp only [upd_other _ _ _ _ eb]; exact h.fresh b hb
      · intro w b hwb
        dsimp only at *
        by_cases e : w = v
        · subst e; simp at hwb
        · rw [upd_other _ _ _ _ e] at hwb; exact h.bound w b hwb
    · have hrel : release s v = { s with heap := upd s.heap b0 (some { blk0 with ref := blk0.ref - 1 }) } := by
        simp [release, hvb, hblk0, hr]
      rw [hrel]
      constructor
      · intro w b hw hwb
        dsimp only at *
        by_cases e : w = v
        · subst e; simp at hwb
        · rw [upd_other _ _ _ _ e] at hwb
          obtain ⟨blk, hblk⟩ := h.live w b hw hwb
          by_cases eb : b = b0
          · subst eb; exact ⟨{ blk0 with ref := blk0.ref - 1 }, by simp⟩
          · exact ⟨blk, by simp [upd_other _ _ _ _ eb, hblk]⟩
      · intro b blk hb
        dsimp only at *
        have hu := handlesOf_upd s.n s.vars v none b hv
        by_cases eb : b = b0
        · subst eb
          simp at hb
          subst hb
          simp [hvb] at hu
          simp only
          simp only [handles] at *
          omega
        · simp only [upd_other _ _ _ _ eb] at hb
          have := h.cnt b blk hb
          have hne : ¬ (s.vars v = some b) := by rw [hvb]; intro e; injection e with e; exact eb e.symm
          simp [hne] at hu
          simp only [handles] at *
          omega
      · intro b hb
        dsimp only at *
        by_cases eb : b = b0
        · subst eb
          have := h.fresh b hb
          rw [hblk0] at this; cases this
        · simp only [upd_other _ _ _ _ eb]; exact h.fresh b hb
      · intro w b hwb
        dsimp only at *
        by_cases e : w = v
        · subst e; simp at hwb
        · rw [upd_other _ _ _ _ e] at hwb; exact h.bound w b hwb

/-- refinement for `clear`: only the cleared variable changes its value -/
theorem abs_clear (s : St) (v : Nat) (h : Inv s) (w : Nat) (hw : w < s.n) :
    absVar (step s (.clear v)) w = specStep (absVar s) s.n (.clear v) w := by
  simp only [step, specStep]
  by_cases hv : v < s.n
  case neg => simp [hv]
  simp only [hv, if_true]
  by_cases e : w = v
  · subst e; simp [absVar]
  · rw [upd_other _ _ _ _ e]
    simp only [absVar, upd_other _ _ _ _ e]
    -- the release of v's block does not touch the bytes seen through w
    have hvars : (release s v).vars = s.vars := by
      simp only [release]; split <;> try rfl
      split <;> try rfl
      split <;> rfl
    rw [hvars]
    cases hwb : s.vars w with
    | none => rfl
    | some b =>
      simp only
      obtain ⟨blk, hblk⟩ := h.live w b hw hwb
      simp only [release]
      cases hvb : s.vars v with
      | none => simp [hblk]
      | some b0 =>
        simp only
        obtain ⟨blk0, hblk0⟩ := h.live v b0 hv hvb
        simp only [hblk0]
        by_cases eb : b = b0
        · subst eb
          have two := sole_handle s v w b hv hw e hvb hwb
          have := (h.cnt b blk0 hblk0).1
          have hr : ¬ blk0.ref = 1 := by omega
          rw [hblk] at hblk0; injection hblk0 with e2; subst e2
          simp [hr, hblk]
        · by_cases hr : blk0.ref = 1 <;> simp [hr, upd_other _ _ _ _ eb, hblk]

end CowFn
