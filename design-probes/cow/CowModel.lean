/-! Feasibility probe: copy-on-write handles (String/Variant/Ptr pattern) over an explicit heap with
    reference counts; refinement to independent values, for all operation histories. -/
namespace CowProbe

structure Block where
  bytes : List Nat
  ref : Nat
deriving Repr

structure St where
  heap : List (Option Block)      -- block id = index; `none` = released
  vars : List (Option Nat)        -- variable → block id, `none` = the shared empty descriptor
deriving Repr

inductive Op
  | assign (dst src : Nat)        -- dst = src           (share the owned block)
  | append (v : Nat) (b : Nat)    -- v.append(b)         (detach unless exclusively owned)
  | clear (v : Nat)               -- v.clear() / destructor

def getBlock (s : St) (b : Nat) : Option Block := (s.heap[b]?).join
def varBlock (s : St) (v : Nat) : Option Nat := (s.vars[v]?).join

/-- `if(data->ref && Atomic::decrement(data->ref) == 0) delete[] data;` -/
def release (s : St) (v : Nat) : St :=
  match varBlock s v with
  | none => s
  | some b =>
    match getBlock s b with
    | none => s
    | some blk =>
      if blk.ref = 1 then { s with heap := s.heap.set b none }
      else { s with heap := s.heap.set b (some { blk with ref := blk.ref - 1 }) }

def incr (s : St) (b : Nat) : St :=
  match getBlock s b with
  | none => s
  | some blk => { s with heap := s.heap.set b (some { blk with ref := blk.ref + 1 }) }

def step (s : St) : Op → St
  | .assign dst src =>
    if dst < s.vars.length ∧ src < s.vars.length then
      match varBlock s src with
      | none => let s1 := release s dst; { s1 with vars := s1.vars.set dst none }
      | some b =>
        let s1 := incr s b          -- increment first (self-assignment safe), then release the old one
        let s2 := release s1 dst
        { s2 with vars := s2.vars.set dst (some b) }
    else s
  | .append v x =>
    if v < s.vars.length then
      match varBlock s v with
      | none => { heap := s.heap ++ [some ⟨[x], 1⟩], vars := s.vars.set v (some s.heap.length) }
      | some b =>
        match getBlock s b with
        | none => s
        | some blk =>
          if blk.ref = 1 then { s with heap := s.heap.set b (some { blk with bytes := blk.bytes ++ [x] }) }
          else
            let s1 : St := { heap := s.heap ++ [some ⟨blk.bytes ++ [x], 1⟩], vars := s.vars }
            let s2 := release s1 v
            { s2 with vars := s2.vars.set v (some s.heap.length) }
    else s
  | .clear v =>
    if v < s.vars.length then
      let s1 := release s v
      { s1 with vars := s1.vars.set v none }
    else s

/-- abstraction: the byte string every variable denotes -/
def absVar (s : St) (v : Nat) : List Nat :=
  match varBlock s v with
  | none => []
  | some b => match getBlock s b with
    | none => []
    | some blk => blk.bytes

def specStep (σ : Nat → List Nat) (n : Nat) : Op → (Nat → List Nat)
  | .assign dst src => if dst < n ∧ src < n then fun v => if v = dst then σ src else σ v else σ
  | .append v x => if v < n then fun w => if w = v then σ v ++ [x] else σ w else σ
  | .clear v => if v < n then fun w => if w = v then [] else σ w else σ

def handles (s : St) (b : Nat) : Nat := s.vars.count (some b)

/-- reference counts equal handle counts; handles only point to live blocks; no leaked block -/
def Inv (s : St) : Prop :=
  (∀ v b, varBlock s v = some b → ∃ blk, getBlock s b = some blk) ∧
  (∀ b blk, getBlock s b = some blk → blk.ref = handles s b ∧ 0 < blk.ref)

end CowProbe
