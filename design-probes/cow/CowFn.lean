/-! Feasibility probe (second attempt): copy-on-write handles with the heap and the variable file as
    *functions*; reference count = number of handles; refinement to independent values. -/
namespace CowFn

structure Block where
  bytes : List Nat
  ref : Nat

structure St where
  n : Nat                         -- number of variables
  heap : Nat → Option Block       -- block id ↦ block, `none` = released / never allocated
  next : Nat                      -- first unused block id
  vars : Nat → Option Nat         -- variable ↦ block id, `none` = shared empty descriptor

def upd {α : Type} (f : Nat → α) (i : Nat) (x : α) : Nat → α := fun j => if j = i then x else f j

@[simp] theorem upd_same {α} (f : Nat → α) (i x) : upd f i x i = x := by simp [upd]
@[simp] theorem upd_other {α} (f : Nat → α) (i j x) (h : j ≠ i) : upd f i x j = f j := by simp [upd, h]

/-- number of variables holding a handle to block `b` -/
def handlesOf (n : Nat) (vars : Nat → Option Nat) (b : Nat) : Nat := (List.range n).countP (fun v => vars v == some b)
@[reducible] def handles (s : St) (b : Nat) : Nat := handlesOf s.n s.vars b

inductive Op
  | assign (dst src : Nat)
  | append (v : Nat) (x : Nat)
  | clear (v : Nat)

/-- `if(data->ref && Atomic::decrement(data->ref) == 0) delete[] data;` for the handle in variable v -/
def release (s : St) (v : Nat) : St :=
  match s.vars v with
  | none => s
  | some b =>
    match s.heap b with
    | none => s
    | some blk =>
      if blk.ref = 1 then { s with heap := upd s.heap b none }
      else { s with heap := upd s.heap b (some { blk with ref := blk.ref - 1 }) }

def step (s : St) : Op → St
  | .assign dst src =>
    if dst < s.n ∧ src < s.n then
      match s.vars src with
      | none => let s1 := release s dst; { s1 with vars := upd s1.vars dst none }
      | some b =>
        match s.heap b with
        | none => s
        | some blk =>
          let s1 : St := { s with heap := upd s.heap b (some { blk with ref := blk.ref + 1 }) }
          let s2 := release s1 dst
          { s2 with vars := upd s2.vars dst (some b) }
    else s
  | .append v x =>
    if v < s.n then
      match s.vars v with
      | none => { s with heap := upd s.heap s.next (some ⟨[x], 1⟩), next := s.next + 1, vars := upd s.vars v (some s.next) }
      | some b =>
        match s.heap b with
        | none => s
        | some blk =>
          if blk.ref = 1 then { s with heap := upd s.heap b (some { blk with bytes := blk.bytes ++ [x] }) }
          else
            let s1 : St := { s with heap := upd s.heap s.next (some ⟨blk.bytes ++ [x], 1⟩), next := s.next + 1 }
            let s2 := release s1 v
            { s2 with vars := upd s2.vars v (some s.next) }
    else s
  | .clear v =>
    if v < s.n then let s1 := release s v; { s1 with vars := upd s1.vars v none } else s

def absVar (s : St) (v : Nat) : List Nat :=
  match s.vars v with
  | none => []
  | some b => match s.heap b with
    | none => []
    | some blk => blk.bytes

def specStep (σ : Nat → List Nat) (n : Nat) : Op → (Nat → List Nat)
  | .assign dst src => if dst < n ∧ src < n then upd σ dst (σ src) else σ
  | .append v x => if v < n then upd σ v (σ v ++ [x]) else σ
  | .clear v => if v < n then upd σ v [] else σ

structure Inv (s : St) : Prop where
  live : ∀ v b, v < s.n → s.vars v = some b → ∃ blk, s.heap b = some blk
  cnt  : ∀ b blk, s.heap b = some blk → blk.ref = handles s b ∧ 0 < blk.ref
  fresh : ∀ b, s.next ≤ b → s.heap b = none
  bound : ∀ v b, s.vars v = some b → b < s.next

/-- updating one variable changes the handle count of a block by the obvious ±1 -/
theorem handlesOf_upd (n : Nat) (vars : Nat → Option Nat) (v : Nat) (x : Option Nat) (b : Nat) (hv : v < n) :
    handlesOf n (upd vars v x) b + (if vars v = some b then 1 else 0)
      = handlesOf n vars b + (if x = some b then 1 else 0) := by
  unfold handlesOf
  induction n with
  | zero => omega
  | succ n ih =>
    simp only [List.range_succ, List.countP_append, List.countP_cons, List.countP_nil]
    by_cases h : v < n
    · have := ih h
      have hne : n ≠ v := by omega
      simp only [upd_other _ _ _ _ hne]
      omega
    · have e : v = n := by omega
      subst e
      have same : List.countP (fun w => upd vars v x w == some b) (List.range v)
          = List.countP (fun w => vars w == some b) (List.range v) := by
        apply List.countP_congr
        intro w hw
        have : w ≠ v := by have := List.mem_range.mp hw; omega
        simp [upd_other _ _ _ _ this]
      rw [same]
      simp only [upd_same]
      by_cases h1 : vars v = some b <;> by_cases h2 : x = some b <;> simp [h1, h2] <;> omega

end CowFn
