/-! Feasibility probe: functional model of nstd Map's AVL insert with stored height/slope
    fields and the early-exit flag of the upward rebalancing loop. -/

inductive Tree (α : Type) where
  | nil : Tree α
  | node (id : Nat) (k : Int) (v : α) (h : Nat) (s : Int) (l r : Tree α) : Tree α
deriving Repr

namespace Tree
variable {α : Type}

/-- stored height field (`item ? item->height : 0`) -/
def ht : Tree α → Nat
  | nil => 0
  | node _ _ _ h _ _ _ => h

def slope : Tree α → Int
  | nil => 0
  | node _ _ _ _ s _ _ => s

/-- real height -/
def height : Tree α → Nat
  | nil => 0
  | node _ _ _ _ _ l r => max (height l) (height r) + 1

def inorder : Tree α → List (Int × α)
  | nil => []
  | node _ k v _ _ l r => inorder l ++ (k, v) :: inorder r

/-- `Item::updateHeightAndSlope` -/
def upd : Tree α → Tree α
  | nil => nil
  | node i k v _ _ l r =>
    node i k v (max l.ht r.ht + 1) ((l.ht : Int) - (r.ht : Int)) l r

/-- `rotr(cell)` -/
def rotr : Tree α → Tree α
  | node i k v h s (node li lk lv lh ls ll lr) r =>
    let oldTop := upd (node i k v h s lr r)
    upd (node li lk lv lh ls ll oldTop)
  | t => t

/-- `rotl(cell)` -/
def rotl : Tree α → Tree α
  | node i k v h s l (node ri rk rv rh rs rl rr) =>
    let oldTop := upd (node i k v h s l rl)
    upd (node ri rk rv rh rs oldTop rr)
  | t => t

/-- `shiftr(cell)` -/
def shiftr : Tree α → Tree α
  | node i k v h s l r =>
    if l.slope = -1 then rotr (node i k v h s (rotl l) r) else rotr (node i k v h s l r)
  | t => t

/-- `shiftl(cell)` -/
def shiftl : Tree α → Tree α
  | node i k v h s l r =>
    if r.slope = 1 then rotl (node i k v h s l (rotr r)) else rotl (node i k v h s l r)
  | t => t

/-- `rebal(item)` -/
def rebal (t : Tree α) : Tree α :=
  if t.slope > 1 then shiftr t
  else if t.slope < -1 then shiftl t
  else t

/-- one iteration of the upward loop in the private `insert`:
    `oldHeight = parent->height; parent->updateHeightAndSlope(); parent = rebal(parent);
     if(oldHeight == parent->height) break;` — returns the new subtree and whether the loop continues. -/
def fixup (oldH : Nat) (t : Tree α) : Tree α × Bool :=
  let t' := rebal (upd t)
  (t', t'.ht != oldH)

/-- private `insert(cell, parent, key, value)` of `Map` (plain descent). -/
def ins (newId : Nat) (k : Int) (v : α) : Tree α → Tree α × Bool
  | nil => (node newId k v 1 0 nil nil, true)
  | node i k' v' h s l r =>
    if k > k' then
      let (r', c) := ins newId k v r
      if c then fixup h (node i k' v' h s l r') else (node i k' v' h s l r', false)
    else if k < k' then
      let (l', c) := ins newId k v l
      if c then fixup h (node i k' v' h s l' r) else (node i k' v' h s l' r, false)
    else (node i k' v h s l r, false)

/-- stored fields are correct and the tree is AVL balanced -/
def Avl : Tree α → Prop
  | nil => True
  | node _ _ _ h s l r =>
    Avl l ∧ Avl r ∧ h = max (height l) (height r) + 1 ∧ s = (height l : Int) - (height r : Int)
      ∧ -1 ≤ s ∧ s ≤ 1

theorem ht_eq_height {t : Tree α} (h : Avl t) : t.ht = t.height := by
  cases t with
  | nil => rfl
  | node i k v h s l r => simp only [Avl] at h; simp [ht, height, h.2.2.1]

end Tree
