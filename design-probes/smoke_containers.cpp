#define private public
#include <nstd/Map.hpp>
#include <nstd/HashMap.hpp>
#include <nstd/List.hpp>
#undef private
#include <stdio.h>
#include <stdlib.h>
#include <math.h>
#include <string.h>
static unsigned long long rs=88172645463325252ULL; static unsigned rnd(){ rs^=rs<<13; rs^=rs>>7; rs^=rs<<17; return (unsigned)(rs>>11);} 
static long cmps=0;
struct K { int v; K(int v=0):v(v){} bool operator<(const K&o)const{++cmps;return v<o.v;} bool operator>(const K&o)const{++cmps;return v>o.v;} bool operator==(const K&o)const{return v==o.v;} };
struct HK { int v; HK(int v=0):v(v){} bool operator==(const HK&o)const{return v==o.v;} bool operator!=(const HK&o)const{return v!=o.v;} };
static int hmode=0; usize hash(const HK& k){ return hmode==0? (usize)k.v : hmode==1? 7 : (usize)(k.v&1);} 
// reference: sorted array of pairs
struct Ref { int k[512], v[512]; int n; Ref():n(0){} int find(int key){ for(int i=0;i<n;++i) if(k[i]==key) return i; return -1;} 
  void insSorted(int key,int val){ int i=find(key); if(i>=0){v[i]=val;return;} int p=0; while(p<n&&k[p]<key)++p; memmove(k+p+1,k+p,(n-p)*sizeof(int)); memmove(v+p+1,v+p,(n-p)*sizeof(int)); k[p]=key;v[p]=val;++n;}
  void insAt(int p,int key,int val){ memmove(k+p+1,k+p,(n-p)*sizeof(int)); memmove(v+p+1,v+p,(n-p)*sizeof(int)); k[p]=key;v[p]=val;++n;}
  void eraseAt(int p){ memmove(k+p,k+p+1,(n-p-1)*sizeof(int)); memmove(v+p,v+p+1,(n-p-1)*sizeof(int)); --n;} };
int main(){
  long bad=0; long rot=0;
  for(int round=0;round<3000;++round){
    Map<K,int> m; Ref r; int dom=1+rnd()%40;
    for(int step=0;step<200;++step){
      int op=rnd()%10; int k=rnd()%dom; int v=rnd();
      if(op<3){ m.insert(K(k),v); r.insSorted(k,v); }
      else if(op<5){ size_t pos=rnd()%(m.size()+1); Map<K,int>::Iterator it=m.begin(); for(size_t i=0;i<pos;++i)++it; Map<K,int>::Iterator res=m.insert(it,K(k),v); r.insSorted(k,v); if(res.key().v!=k||*res!=v){bad++;printf("hint result wrong\n");} }
      else if(op<7){ m.remove(K(k)); int i=r.find(k); if(i>=0) r.eraseAt(i);} 
      else if(op<8 && m.size()){ size_t pos=rnd()%m.size(); Map<K,int>::Iterator it=m.begin(); for(size_t i=0;i<pos;++i)++it; Map<K,int>::Iterator nx=m.remove(it); r.eraseAt(pos); if((nx==m.end())!=((int)pos==r.n)||(nx!=m.end()&&nx.key().v!=r.k[pos])){bad++;printf("remove ret wrong\n");} }
      else if(op<9 && m.size()){ if(rnd()&1){m.removeFront(); r.eraseAt(0);} else {m.removeBack(); r.eraseAt(r.n-1);} }
      if((int)m.size()!=r.n){bad++;printf("size mismatch\n");}
      int i=0; for(Map<K,int>::Iterator it=m.begin();it!=m.end();++it,++i){ if(i>=r.n||it.key().v!=r.k[i]||*it!=r.v[i]){bad++;printf("content mismatch\n");break;} }
      double lim=2*floor(1.4405*log2((double)m.size()+2));
      for(int q=0;q<dom;++q){ cmps=0; bool f=m.find(K(q))!=m.end(); if(f!=(r.find(q)>=0)){bad++;printf("find mismatch\n");} if(cmps>lim){bad++;printf("cmp bound exceeded n=%zu cmps=%ld lim=%g\n",(size_t)m.size(),cmps,lim);} }
      if(bad>5) return 1;
    }
  }
  printf("Map ok bad=%ld\n",bad);
  for(hmode=0;hmode<3;++hmode) for(int cap=1;cap<6;cap+=(cap<3?1:2)) for(int round=0;round<300;++round){
    HashMap<HK,int> h(cap), h2(cap); Ref r, r2;
    for(int step=0;step<120;++step){
      int op=rnd()%12; int k=rnd()%8; int v=rnd()%100; bool first=rnd()&1;
      HashMap<HK,int>& H=first?h:h2; Ref& R=first?r:r2;
      if(op<3){ H.append(HK(k),v); int i=R.find(k); if(i>=0)R.v[i]=v; else R.insAt(R.n,k,v); }
      else if(op<4){ H.prepend(HK(k),v); int i=R.find(k); if(i>=0)R.v[i]=v; else R.insAt(0,k,v); }
      else if(op<6){ int pos=rnd()%(H.size()+1); HashMap<HK,int>::Iterator it=H.begin(); for(int i=0;i<pos;++i)++it; H.insert(it,HK(k),v); int i=R.find(k); if(i>=0)R.v[i]=v; else R.insAt(pos,k,v); }
      else if(op<8){ H.remove(HK(k)); int i=R.find(k); if(i>=0)R.eraseAt(i); }
      else if(op<9 && H.size()){ int pos=rnd()%H.size(); HashMap<HK,int>::Iterator it=H.begin(); for(int i=0;i<pos;++i)++it; H.remove(it); R.eraseAt(pos);} 
      else if(op<10){ h.swap(h2); Ref t=r; r=r2; r2=t;} 
      else if(op<11 && rnd()%8==0){ H.clear(); R.n=0; }
      else { bool e=(h==h2); bool re=(r.n==r2.n); for(int i=0;re&&i<r.n;++i) if(r.k[i]!=r2.k[i]||r.v[i]!=r2.v[i]) re=false; if(e!=re){bad++;printf("eq mismatch\n");} }
      for(int w=0;w<2;++w){ HashMap<HK,int>& X=w?h2:h; Ref& Y=w?r2:r; if((int)X.size()!=Y.n){bad++;printf("hsize mismatch\n");} int i=0; for(HashMap<HK,int>::Iterator it=X.begin();it!=X.end();++it,++i) if(i>=Y.n||it.key().v!=Y.k[i]||*it!=Y.v[i]){bad++;printf("hcontent mismatch mode=%d cap=%d\n",hmode,cap);break;} for(int q=0;q<8;++q){ bool f=X.find(HK(q))!=X.end(); if(f!=(Y.find(q)>=0)){bad++;printf("hfind mismatch\n");} } }
      if(bad>5) return 1;
    }
  }
  printf("HashMap ok bad=%ld\n",bad);
  for(int round=0;round<30000;++round){ List<int> l; int r[16]; int n=rnd()%12; int dom=1+rnd()%6; for(int i=0;i<n;++i){int v=rnd()%dom; l.append(v); r[i]=v;} l.sort(); for(int i=0;i<n;++i) for(int j=i+1;j<n;++j) if(r[j]<r[i]){int t=r[i];r[i]=r[j];r[j]=t;} int i=0; for(List<int>::Iterator it=l.begin();it!=l.end();++it,++i) if(*it!=r[i]){bad++;printf("sort mismatch\n");break;} if((int)l.size()!=n) bad++; if(bad>5) return 1; }
  printf("sort ok bad=%ld\n",bad);
  return bad?1:0;
}
