#include <nstd/String.hpp>
#include <nstd/List.hpp>
#include <stdio.h>
#include <stdlib.h>
#include <string.h>
static unsigned long long rs=0x9E3779B97F4A7C15ULL; static unsigned rnd(){ rs^=rs<<13; rs^=rs>>7; rs^=rs<<17; return (unsigned)(rs>>11);} 
struct R { char b[4096]; int n; R():n(0){} void set(const char* p,int l){ memcpy(b,p,l); n=l; } };
static const char ALPHA[]="abAB /.x";
int main(int argc,char**argv){ rs^=(unsigned long long)atoi(argv[1])*0x2545F4914F6CDD1DULL; long bad=0;
  for(int round=0;round<4000 && bad<5;++round){
    const int NV=4; String* v[NV]; R r[NV]; for(int i=0;i<NV;++i) v[i]=new String();
    char* att=(char*)malloc(9); memcpy(att,"attached",8); att[8]=0; char attcopy[9]; memcpy(attcopy,att,9);
    for(int step=0;step<60 && bad<5;++step){
      int a=rnd()%NV, b=rnd()%NV; int op=rnd()%18; char tmp[16]; int tl=rnd()%6; for(int i=0;i<tl;++i) tmp[i]=ALPHA[rnd()%8]; tmp[tl]=0;
      switch(op){
      case 0: *v[a]=String("lit"); r[a].set("lit",3); break;
      case 1: *v[a]=*v[b]; { R t=r[b]; r[a]=t; } break;
      case 2: if(a!=b){ delete v[a]; v[a]=new String(*v[b]); R t=r[b]; r[a]=t; } break;
      case 3: if(r[a].n+r[b].n<2000){ R t=r[b]; v[a]->append(*v[b]); memcpy(r[a].b+r[a].n,t.b,t.n); r[a].n+=t.n; } break;
      case 4: v[a]->append(tmp,tl); memcpy(r[a].b+r[a].n,tmp,tl); r[a].n+=tl; if(r[a].n>2000){ v[a]->clear(); r[a].n=0;} break;
      case 5: if(a!=b && r[a].n+r[b].n<2000){ v[a]->prepend(*v[b]); memmove(r[a].b+r[b].n,r[a].b,r[a].n); memcpy(r[a].b,r[b].b,r[b].n); r[a].n+=r[b].n; } break;
      case 6: { int nl=rnd()%(r[a].n+1); v[a]->resize(nl); r[a].n=nl; } break;
      case 7: { int nl=r[a].n+rnd()%5; v[a]->resize(nl); char* p=(char*)*v[a]; for(int i=r[a].n;i<nl;++i){ p[i]='z'; r[a].b[i]='z'; } r[a].n=nl; } break;
      case 8: v[a]->reserve(rnd()%40); break;
      case 9: v[a]->clear(); r[a].n=0; break;
      case 10: { int st=rnd()%(r[b].n+2); int ln=rnd()%6; String s=v[b]->substr(st,ln); int s0=st>r[b].n?r[b].n:st; int e=s0+ln>r[b].n?r[b].n:s0+ln; R t; t.set(r[b].b+s0,e-s0); *v[a]=s; r[a]=t; } break;
      case 11: v[a]->toUpperCase(); for(int i=0;i<r[a].n;++i) if(r[a].b[i]>='a'&&r[a].b[i]<='z') r[a].b[i]-=32; break;
      case 12: v[a]->replace('a','/'); for(int i=0;i<r[a].n;++i) if(r[a].b[i]=='a') r[a].b[i]='/'; break;
      case 13: { v[a]->trim(" ."); int s=0,e=r[a].n; while(s<e&&strchr(" .",r[a].b[s]))++s; while(e>s&&strchr(" .",r[a].b[e-1]))--e; memmove(r[a].b,r[a].b+s,e-s); r[a].n=e-s; } break;
      case 14: v[a]->attach(att,8); r[a].set("attached",8); break;
      case 15: if(tl>0){ String needle(tmp,tl); String rep("Q"); v[a]->replace(needle,rep); R t; t.n=0; int i=0; while(i<r[a].n){ if(i+tl<=r[a].n && memcmp(r[a].b+i,tmp,tl)==0){ t.b[t.n++]='Q'; i+=tl;} else t.b[t.n++]=r[a].b[i++]; } r[a]=t; } break;
      case 16: { const char* c=*v[a]; if((int)strlen(c)!=r[a].n){ printf("cstr len mismatch %zu vs %d\n",strlen(c),r[a].n); ++bad;} } break;
      case 17: { bool e1=(*v[a]==*v[b]); bool e2=(r[a].n==r[b].n&&memcmp(r[a].b,r[b].b,r[a].n)==0); if(e1!=e2){printf("== mismatch\n");++bad;} int c1=v[a]->compare(*v[b]); r[a].b[r[a].n]=0; r[b].b[r[b].n]=0; int c2=strcmp(r[a].b,r[b].b); if((c1<0)!=(c2<0)||(c1>0)!=(c2>0)){printf("compare mismatch\n");++bad;} } break;
      }
      for(int i=0;i<NV;++i){ if((int)v[i]->length()!=r[i].n || memcmp((const char*)*v[i], r[i].b, r[i].n)!=0 || ((const char*)*v[i])[r[i].n]!=0){ printf("MISMATCH var %d after op %d (a=%d b=%d) len %zu vs %d\n",i,op,a,b,(size_t)v[i]->length(),r[i].n); ++bad; break; } }
      if(memcmp(att,attcopy,9)!=0){ printf("attached memory modified after op %d\n",op); ++bad; memcpy(att,attcopy,9);} 
    }
    for(int i=0;i<NV;++i) delete v[i]; free(att);
  }
  printf("string bad=%ld\n",bad); return bad?1:0; }
