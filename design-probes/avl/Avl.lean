import Avl.Basic
import Avl.Proofs
import Avl.Del
import Avl.Height
import Avl.Sig
